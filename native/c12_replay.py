"""Native replay for C12: small situations through the real SimulationBuilder, compared with what they declare."""
import traceback


def system():
    import numpy
    from openfisca_core import entities, periods, taxbenefitsystems, variables
    person = entities.build_entity(key="person", plural="persons", label="", is_person=True)
    household = entities.build_entity(key="household", plural="households", label="",
                                      roles=[{"key": "parent", "plural": "parents", "max": 2, "subroles": ["first_parent", "second_parent"]},
                                             {"key": "child", "plural": "children"}])
    tbs = taxbenefitsystems.TaxBenefitSystem([person, household])

    from openfisca_core import holders

    def mk(name, defp, ent, vt=float):
        attrs = {"value_type": vt, "entity": ent, "definition_period": periods.DateUnit(defp)}
        if defp != "eternity":
            attrs["set_input"] = holders.set_input_divide_by_period
        tbs.add_variable(type(name, (variables.Variable,), attrs))
    mk("vm", "month", person)
    mk("vy", "year", person)
    mk("ve", "eternity", person)
    mk("hm", "month", household)
    return tbs


def run(call):
    from openfisca_core.simulations import SimulationBuilder
    from openfisca_core import periods
    try:
        mode = call["mode"]
        if mode == "groups":
            return run_groups(call)
        if mode == "axes":
            return run_axes(call)
        if mode == "values":
            return run_values(call)
        tbs = system()
        if mode == "two-values":
            key = call["key"]
            var, read = ("ve", "ETERNITY") if key.lower() == "eternity" else ("vy", "2018") if "2018-" not in key and "2018" in key else ("vm", "2018-01")
            if key in ("2018", "year:2018") and var == "vy":
                read = "2018"
            situation = {"persons": {"a": {var: {key: 100}}, "b": {var: {key: 200}}, "c": {}}}
            sim = SimulationBuilder().build_from_entities(tbs, situation)
            got = sim.get_array(var, periods.period(read))
            g = None if got is None else [float(x) for x in got]
            return {"kind": "return", "value": {"ok": g == [100.0, 200.0, 0.0], "got": g, "expected": [100.0, 200.0, 0.0], "situation": situation}}
        if mode == "two-periods":
            # a short and a long period starting together: the short one keeps its own values, the long one fills the rest
            ka, kb = call["first"], call["second"]
            na, nb = int(ka.split(":")[2]), int(kb.split(":")[2])
            ns, nl = min(na, nb), max(na, nb)
            total = {ns: 200.0 * ns, nl: 100.0 * nl}
            situation = {"persons": {"a": {"vm": {ka: total[na], kb: total[nb]}}}}
            sim = SimulationBuilder().build_from_entities(tbs, situation)
            start = periods.period("2018-01")
            got = [float(sim.get_array("vm", start.offset(k))[0]) if sim.get_array("vm", start.offset(k)) is not None else None for k in range(nl)]
            rest = (total[nl] - total[ns]) / (nl - ns)
            want = [200.0] * ns + [rest] * (nl - ns)
            ok = all(g is not None and abs(g - w) < 1e-3 for g, w in zip(got, want))
            return {"kind": "return", "value": {"ok": ok, "got": got[:12], "expected": want[:12], "situation": situation}}
        raise ValueError(mode)
    except BaseException as ex:
        return {"kind": "raise", "exc": type(ex).__name__, "mro": [c.__name__ for c in type(ex).__mro__],
                "msg": str(ex)[:300], "tb": traceback.format_exc()[-1500:]}


def expected_groups(person_ids, households):
    """what the statement says: declared memberships and roles; every person left out gets a new group of their own with
    the first role; returns (group ids, memberships by person, role keys by person) or 'refuse'"""
    declared = list(households.keys())
    mem, role = {}, {}
    for gi, (hid, h) in enumerate(households.items()):
        for plural, subroles in (("parents", ["first_parent", "second_parent"]), ("children", None)):
            lst = h.get(plural, [])
            if isinstance(lst, str):
                lst = [lst]
            if plural == "parents" and len(lst) > 2:
                return "refuse"
            for k, p in enumerate(lst):
                if p not in person_ids or p in mem:
                    return "refuse"
                mem[p] = gi
                role[p] = subroles[k] if subroles else "child"
    n_new = 0
    own = {}
    for p in person_ids:
        if p not in mem:
            own[p] = len(declared) + n_new
            n_new += 1
    return declared, mem, role, own


def run_axes(call):
    """a situation with one axis: the simulation built equals the concatenation of the copies it stands for - entity by entity
    (counts, memberships, roles) and value by value (the axis variable along the axis, every other input repeated)"""
    from openfisca_core.simulations import SimulationBuilder
    n = 0
    try:
        for sit in call["situations"]:
            n += 1
            tbs = system()
            base = {k: v for k, v in sit.items() if k != "axes"}
            ref = SimulationBuilder().build_from_entities(system(), base)
            sim = SimulationBuilder().build_from_entities(tbs, sit)
            ax = sit["axes"][0][0]
            k, lo, hi, idx = ax["count"], ax["min"], ax["max"], ax.get("index", 0)
            problems = []
            N, G = ref.persons.count, ref.populations["household"].count
            if sim.persons.count != k * N or sim.populations["household"].count != k * G:
                problems.append(f"counts {sim.persons.count} persons / {sim.populations['household'].count} households for {k} copies of {N} / {G}")
            else:
                rm = [int(x) for x in ref.populations["household"].members_entity_id]
                rr = [r.key for r in ref.populations["household"].members_role]
                gm = [int(x) for x in sim.populations["household"].members_entity_id]
                gr = [r.key for r in sim.populations["household"].members_role]
                want_m = [c * G + m for c in range(k) for m in rm]
                if gm != want_m:
                    problems.append(f"memberships {gm}, the {k} copies have {want_m}")
                if gr != rr * k:
                    problems.append(f"roles {gr}, the copies have {rr * k}")
                per = ax.get("period", "2018-01")
                from openfisca_core import periods
                got = sim.get_array(ax["name"], periods.period(per))
                refv = ref.get_array(ax["name"], periods.period(per))
                want = []
                for c in range(k):
                    for i in range(N):
                        want.append(lo + c * (hi - lo) / (k - 1) if i == idx else (float(refv[i]) if refv is not None else 0.0))
                if got is None or [round(float(x), 4) for x in got] != [round(x, 4) for x in want]:
                    problems.append(f"{ax['name']} along the axis: {None if got is None else [float(x) for x in got]}, the copies have {want}")
                other = sim.get_array("hm", periods.period("2018-01"))
                refo = ref.get_array("hm", periods.period("2018-01"))
                if refo is not None and (other is None or [float(x) for x in other] != [float(x) for x in refo] * k):
                    problems.append(f"hm: {None if other is None else [float(x) for x in other]}, the copies have {[float(x) for x in refo] * k}")
            if problems:
                return {"kind": "return", "value": {"ok": False, "problems": problems[:3], "situation": sit}}
        return {"kind": "return", "value": {"ok": True, "situations": n}}
    except BaseException as ex:
        return {"kind": "raise", "exc": type(ex).__name__, "mro": [c.__name__ for c in type(ex).__mro__],
                "msg": (str(ex)[:300] + " on " + str(sit)[:300]), "tb": traceback.format_exc()[-1500:]}


def run_values(call):
    """values of every declared type through the builder, in one process and in a fixed order (so that a reading remembered from one
    variable cannot leak into another): well-formed ones land at their entity and period, ill-formed ones are situation errors"""
    import datetime
    import numpy
    from openfisca_core import entities, errors, periods, taxbenefitsystems, variables
    from openfisca_core.indexed_enums import Enum
    from openfisca_core.simulations import SimulationBuilder
    try:
        person = entities.build_entity(key="person", plural="persons", label="", is_person=True)
        tbs = taxbenefitsystems.TaxBenefitSystem([person])
        M = periods.DateUnit.MONTH

        class Housing(Enum):
            owner = "o"
            tenant = "t"

        class Transport(Enum):
            car = "c"
            tenant = "x"      # the same word names another member here
            bike = "b"
            owner = "y"

        def var(name, vt, **kw):
            tbs.add_variable(type(name, (variables.Variable,), dict(value_type=vt, entity=person, definition_period=M, **kw)))
        var("housing", Enum, possible_values=Housing, default_value=Housing.owner)
        var("transport", Enum, possible_values=Transport, default_value=Transport.car)
        var("amount", float)
        var("count_", int)
        var("born", datetime.date)
        var("text", str)
        var("yes", bool)
        problems = []
        steps = [("housing", "tenant", "Housing.tenant"), ("transport", "tenant", "Transport.tenant"), ("transport", "owner", "Transport.owner"),
                 ("housing", "owner", "Housing.owner"), ("housing", "car", "refuse"), ("transport", "bike", "Transport.bike"), ("housing", "bike", "refuse"),
                 ("amount", 12.5, 12.5), ("amount", "12.5 * 2", 25.0), ("amount", "twelve", "refuse"), ("count_", 3, 3), ("count_", "three", "refuse"),
                 ("born", "1980-02-29", "1980-02-29"), ("born", "1981-02-29", "refuse"), ("born", "1980-13-01", "refuse"), ("text", "abc", "abc"),
                 ("yes", True, True), ("housing", 7, "refuse"), ("amount", "", "refuse" if False else None)]
        for name, value, want in steps:
            if want is None:
                continue
            sit = {"persons": {"a": {name: {"2018-01": value}}, "b": {}}}
            try:
                sim = SimulationBuilder().build_from_entities(tbs, sit)
            except errors.SituationParsingError:
                if want != "refuse":
                    problems.append(f"{name} = {value!r}: a well-formed value was refused")
                continue
            except Exception as e:
                problems.append(f"{name} = {value!r}: {type(e).__name__} instead of a situation error")
                continue
            if want == "refuse":
                problems.append(f"{name} = {value!r}: accepted, stored {sim.get_array(name, periods.period('2018-01'))!r}")
                continue
            arr = sim.get_array(name, periods.period("2018-01"))
            got = arr.decode()[0] if hasattr(arr, "decode") else arr[0]
            shown = str(got) if name in ("housing", "transport", "born") else got
            if (shown != want) if not isinstance(want, float) else abs(float(got) - want) > 1e-6:
                problems.append(f"{name} = {value!r}: stored {shown!r}, declared {want!r}")
        return {"kind": "return", "value": {"ok": not problems, "problems": problems[:4]}}
    except BaseException as ex:
        return {"kind": "raise", "exc": type(ex).__name__, "mro": [c.__name__ for c in type(ex).__mro__],
                "msg": str(ex)[:300], "tb": traceback.format_exc()[-1500:]}


def run_groups(call):
    """situations with group memberships through the real builder"""
    from openfisca_core.simulations import SimulationBuilder
    from openfisca_core import errors
    n = 0
    try:
        for sit in call["situations"]:
            n += 1
            tbs = system()
            person_ids = list(sit["persons"].keys())
            exp = expected_groups(person_ids, sit.get("households", {}))
            try:
                sim = SimulationBuilder().build_from_entities(tbs, sit)
            except errors.SituationParsingError:
                if exp == "refuse":
                    continue
                return {"kind": "return", "value": {"ok": False, "problem": "a well-formed situation was refused", "situation": sit}}
            if exp == "refuse":
                return {"kind": "return", "value": {"ok": False, "problem": "an ill-formed situation was accepted", "situation": sit}}
            declared, mem, role, own = exp
            hh = sim.populations["household"]
            got_mem = [int(x) for x in hh.members_entity_id]
            got_role = [r.key for r in hh.members_role]
            problems = []
            if list(sim.persons.ids) != person_ids or sim.persons.count != len(person_ids):
                problems.append(f"persons ids/count {list(sim.persons.ids)} / {sim.persons.count}")
            if hh.count != len(declared) + len(own):
                problems.append(f"{hh.count} groups for {len(declared)} declared + {len(own)} persons left out")
            if list(hh.ids)[:len(declared)] != declared:
                problems.append(f"group ids {list(hh.ids)}")
            for i, p in enumerate(person_ids):
                if p in mem:
                    if got_mem[i] != mem[p] or got_role[i] != role[p]:
                        problems.append(f"{p}: group {got_mem[i]} role {got_role[i]}, declared group {mem[p]} role {role[p]}")
                else:
                    if got_mem[i] < len(declared) or got_role[i] != "first_parent":
                        problems.append(f"{p} was left out of households but is in group {got_mem[i]} ({got_role[i]}), not in a new group of their own")
            new_groups = [got_mem[i] for i, p in enumerate(person_ids) if p not in mem]
            if len(set(new_groups)) != len(new_groups):
                problems.append("two persons left out share a group")
            if problems:
                return {"kind": "return", "value": {"ok": False, "problems": problems[:3], "situation": sit}}
        return {"kind": "return", "value": {"ok": True, "situations": n}}
    except BaseException as ex:
        return {"kind": "raise", "exc": type(ex).__name__, "mro": [c.__name__ for c in type(ex).__mro__],
                "msg": (str(ex)[:300] + " on " + str(sit)[:300]), "tb": traceback.format_exc()[-1500:]}
