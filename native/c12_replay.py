"""Native replay for C12: small situations through the real SimulationBuilder, compared with what they declare."""
import traceback


def system():
    import numpy
    from openfisca_core import entities, periods, taxbenefitsystems, variables
    person = entities.build_entity(key="person", plural="persons", label="", is_person=True)
    household = entities.build_entity(key="household", plural="households", label="",
                                      roles=[{"key": "parent", "plural": "parents", "max": 2, "subroles": ["first_parent", "second_parent"]},
                                             {"key": "child", "plural": "children"}])
    tbs = taxbenefitsystems.TaxBenefitSystem([person, household])

    from openfisca_core import holders

    def mk(name, defp, ent, vt=float):
        attrs = {"value_type": vt, "entity": ent, "definition_period": periods.DateUnit(defp)}
        if defp != "eternity":
            attrs["set_input"] = holders.set_input_divide_by_period
        tbs.add_variable(type(name, (variables.Variable,), attrs))
    mk("vm", "month", person)
    mk("vy", "year", person)
    mk("ve", "eternity", person)
    mk("hm", "month", household)
    return tbs


def run(call):
    from openfisca_core.simulations import SimulationBuilder
    from openfisca_core import periods
    try:
        mode = call["mode"]
        tbs = system()
        if mode == "two-values":
            key = call["key"]
            var, read = ("ve", "ETERNITY") if key.lower() == "eternity" else ("vy", "2018") if "2018-" not in key and "2018" in key else ("vm", "2018-01")
            if key in ("2018", "year:2018") and var == "vy":
                read = "2018"
            situation = {"persons": {"a": {var: {key: 100}}, "b": {var: {key: 200}}, "c": {}}}
            sim = SimulationBuilder().build_from_entities(tbs, situation)
            got = sim.get_array(var, periods.period(read))
            g = None if got is None else [float(x) for x in got]
            return {"kind": "return", "value": {"ok": g == [100.0, 200.0, 0.0], "got": g, "expected": [100.0, 200.0, 0.0], "situation": situation}}
        if mode == "two-periods":
            # a short and a long period starting together: the short one keeps its own values, the long one fills the rest
            ka, kb = call["first"], call["second"]
            na, nb = int(ka.split(":")[2]), int(kb.split(":")[2])
            ns, nl = min(na, nb), max(na, nb)
            total = {ns: 200.0 * ns, nl: 100.0 * nl}
            situation = {"persons": {"a": {"vm": {ka: total[na], kb: total[nb]}}}}
            sim = SimulationBuilder().build_from_entities(tbs, situation)
            start = periods.period("2018-01")
            got = [float(sim.get_array("vm", start.offset(k))[0]) if sim.get_array("vm", start.offset(k)) is not None else None for k in range(nl)]
            rest = (total[nl] - total[ns]) / (nl - ns)
            want = [200.0] * ns + [rest] * (nl - ns)
            ok = all(g is not None and abs(g - w) < 1e-3 for g, w in zip(got, want))
            return {"kind": "return", "value": {"ok": ok, "got": got[:12], "expected": want[:12], "situation": situation}}
        raise ValueError(mode)
    except BaseException as ex:
        return {"kind": "raise", "exc": type(ex).__name__, "mro": [c.__name__ for c in type(ex).__mro__],
                "msg": str(ex)[:300], "tb": traceback.format_exc()[-1500:]}
