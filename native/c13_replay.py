"""Native scenarios for C13 (clone independence) on a two-entity rule system built here."""
import traceback


def build():
    import numpy
    from openfisca_core import entities, periods, taxbenefitsystems, variables
    from openfisca_core.simulations import SimulationBuilder
    person = entities.build_entity(key="person", plural="persons", label="", is_person=True)
    household = entities.build_entity(key="household", plural="households", label="",
                                      roles=[{"key": "member", "plural": "members", "label": "m"}])
    tbs = taxbenefitsystems.TaxBenefitSystem([person, household])

    class salary(variables.Variable):
        value_type = float
        entity = person
        definition_period = periods.DateUnit.MONTH

    class rent(variables.Variable):
        value_type = float
        entity = household
        definition_period = periods.DateUnit.MONTH

    class total(variables.Variable):
        value_type = float
        entity = household
        definition_period = periods.DateUnit.MONTH

        def formula(household, period):
            return household.sum(household.members("salary", period))
    for v in (salary, rent, total):
        tbs.add_variable(v)
    sim = SimulationBuilder().build_from_dict(tbs, {
        "persons": {"a": {"salary": {"2020-01": 100}}, "b": {"salary": {"2020-01": 50}}},
        "households": {"h": {"members": ["a", "b"], "rent": {"2020-01": 700}}}})
    return tbs, sim


def run(scenario):
    import numpy
    try:
        tbs, sim = build()
        clone = sim.clone()
        bad = []
        if scenario == "write-on-clone-person-variable":
            clone.set_input("salary", "2020-02", numpy.array([1.0, 2.0]))
            if sim.get_array("salary", "2020-02") is not None:
                bad.append("an input set on the clone is readable from the original")
        elif scenario == "delete-on-clone-person-variable":
            clone.delete_arrays("salary")
            if sim.get_array("salary", "2020-01") is None:
                bad.append("deleting on the clone removed the original's input")
        elif scenario == "write-on-clone-group-variable":
            clone.set_input("rent", "2020-02", numpy.array([9.0]))
            if sim.get_array("rent", "2020-02") is not None:
                bad.append("a group input set on the clone is readable from the original")
        elif scenario == "group-holder-binding":
            h = clone.household.get_holder("rent")
            if h.population is not clone.household:
                bad.append("clone's group holder belongs to the original population")
            if h.simulation is not clone:
                bad.append("clone's group holder refers to the original simulation")
        elif scenario == "person-holder-binding":
            h = clone.persons.get_holder("salary")
            if h.population is not clone.persons or h.simulation is not clone:
                bad.append("clone's person holder refers to the original")
        elif scenario == "members-binding":
            if clone.household.members is not clone.persons:
                bad.append("clone's group population has the original persons as members")
            clone.set_input("salary", "2020-01", numpy.array([1000.0, 1000.0]))
            got = clone.calculate("total", "2020-01")
            if float(got[0]) != 2000.0:
                bad.append(f"group formula on the clone read the original's persons: total={got.tolist()}")
        elif scenario == "marks-shared":
            if clone.invalidated_caches is sim.invalidated_caches:
                from openfisca_core import periods
                sim.invalidate_cache_entry("salary", periods.period("2020-01"))
                clone.calculate("rent", "2020-01")       # any top-level request purges the clone's marks
                if clone.get_array("salary", "2020-01") is None:
                    bad.append("a cache entry invalidated on the original was purged from the clone")
                else:
                    bad.append("the two simulations share one invalidated_caches set")
        elif scenario == "disk-backed-delete-on-clone":
            from openfisca_core.experimental import MemoryConfig
            tbs, sim = build()
            sim.memory_config = MemoryConfig(max_memory_occupation=0)
            sim.persons._holders.pop("salary", None)
            sim.set_input("salary", "2020-01", numpy.array([100.0, 50.0]))
            h = sim.persons.get_holder("salary")
            if h._disk_storage is None or not h._disk_storage.get_known_periods():
                raise RuntimeError("scenario did not put the value on disk")
            clone = sim.clone()
            clone.delete_arrays("salary")
            if sim.get_array("salary", "2020-01") is None:
                bad.append("deleting a disk-backed value on the clone removed it from the original")
        elif scenario == "projection-used-before-cloning":
            tbs, sim = build()
            sim.persons.household("rent", "2020-01")            # a formula used person.household before the simulation is cloned
            clone = sim.clone()
            clone.delete_arrays("rent")
            clone.set_input("rent", "2020-01", numpy.array([900.0]))
            got = clone.persons.household("rent", "2020-01").tolist()
            if got != [900.0, 900.0]:
                bad.append(f"person.household on the clone reads the original's households: {got}, the clone holds 900")
            if sim.persons.household("rent", "2020-01").tolist() != [700.0, 700.0]:
                bad.append("the original's projection changed")
        elif scenario == "rewrite-on-clone-same-period":
            clone.delete_arrays("salary", "2020-02")
            sim.set_input("salary", "2020-02", numpy.array([1.0, 2.0]))
            clone2 = sim.clone()
            clone2.persons.get_holder("salary")._memory_storage.put(numpy.array([7.0, 8.0], dtype=numpy.float32), __import__("openfisca_core").periods.period("2020-02"))
            if sim.get_array("salary", "2020-02").tolist() != [1.0, 2.0]:
                bad.append(f"storing a new value for a period on the clone rewrote the array the original holds: {sim.get_array('salary', '2020-02').tolist()}")
        elif scenario == "set-input-again-on-clone":
            # the same variable and period given again on one side (an input overwritten) must not show on the other side
            clone.set_input("salary", "2020-01", numpy.array([1.0, 2.0], dtype=numpy.float32))
            if sim.get_array("salary", "2020-01").tolist() != [100.0, 50.0]:
                bad.append(f"an input given again on the clone changed the original's value: {sim.get_array('salary', '2020-01').tolist()}")
            sim.set_input("rent", "2020-01", numpy.array([9.0], dtype=numpy.float32))
            if clone.get_array("rent", "2020-01").tolist() != [700.0]:
                bad.append(f"an input given again on the original changed the clone's value: {clone.get_array('rent', '2020-01').tolist()}")
        elif scenario == "eternal-variable":
            from openfisca_core import variables, periods
            tbs, sim = build()

            class birth(variables.Variable):
                value_type = int
                entity = tbs.person_entity
                definition_period = periods.DateUnit.ETERNITY
            tbs.add_variable(birth)
            sim.set_input("birth", periods.period(periods.DateUnit.ETERNITY), numpy.array([1980, 1990]))
            clone = sim.clone()
            if clone.calculate("birth", "2020-01").tolist() != [1980, 1990]:
                bad.append(f"an eternal variable's input is not readable at an ordinary period on the clone: {clone.calculate('birth', '2020-01').tolist()}")
        elif scenario == "same-content":
            for name, p in (("salary", "2020-01"), ("rent", "2020-01")):
                a, b = sim.get_array(name, p), clone.get_array(name, p)
                if a is None or b is None or a.tolist() != b.tolist():
                    bad.append(f"{name} differs right after cloning")
        else:
            raise ValueError(scenario)
        return {"kind": "return", "value": {"ok": not bad, "detail": bad}}
    except BaseException as ex:
        return {"kind": "raise", "exc": type(ex).__name__, "mro": [c.__name__ for c in type(ex).__mro__],
                "msg": str(ex)[:300], "tb": traceback.format_exc()[-1500:]}
