"""Native replay for C06: build a real Parameter with a given history, call the real _get_at_instant / update and
compare every probe date with the specification (most recent entry on or before the date)."""
import os
import sys
import traceback

sys.path.insert(0, os.path.dirname(os.path.dirname(os.path.abspath(__file__))))
from pyvc import calmodel as M  # noqa: E402


def kstr(k):
    return "%04d-%02d-%02d" % (k // 10000, k // 100 % 100, k % 100)


def oracle(hist, d):
    """hist: list of (key:int, value) in any order; most recent entry on or before d"""
    best = None
    for k, v in hist:
        if k <= d and (best is None or k > best[0]):
            best = (k, v)
    return None if best is None else best[1]


def build(hist):
    from openfisca_core.parameters import Parameter, ParameterAtInstant
    p = Parameter("p", {"2000-01-01": {"value": 0}})
    p.values_list = [ParameterAtInstant("p[%s]" % kstr(k), kstr(k), data={"value": v}) for k, v in hist]
    return p


def run(mode, hist, args):
    from openfisca_core import periods
    hist = [(int(k), v) for k, v in hist]
    try:
        p = build(hist)
        if mode == "spellings":
            # the same date through every accepted spelling of an instant gives the same value, on the parameter and on a group holding it
            import datetime
            from openfisca_core.parameters import ParameterNode
            node = ParameterNode("g", data={"p": {"values": {kstr(k): {"value": v} for k, v in hist}}})
            bad = []
            for k, _ in hist + [(20150608, None), (20151231, None), (20160104, None)]:
                d = datetime.date(k // 10000, k // 100 % 100, k % 100)
                iso = d.isocalendar()
                spell = [kstr(k), periods.Instant((d.year, d.month, d.day)), periods.period(kstr(k)), d, "%04d-W%02d-%d" % (iso[0], iso[1], iso[2])]
                exp = oracle(hist, k)
                for sp in spell:
                    for who, reader in (("parameter", p), ("group member", node.p)):
                        try:
                            got = reader(sp) if who == "parameter" else node(sp).p if exp is not None else exp
                        except Exception as ex:
                            got = f"{type(ex).__name__}"
                        if got != exp:
                            bad.append({"spelling": repr(sp), "through": who, "got": got, "expected": exp})
            return {"kind": "return", "value": {"ok": not bad, "mismatches": bad[:4]}}
        if mode == "get":
            d = int(args["d"])
            got = p._get_at_instant(kstr(d))
            exp = oracle(hist, d)
            return {"kind": "return", "value": {"ok": got == exp, "got": got, "expected": exp}}
        kw = {}
        s = e = None
        if args.get("period") is not None:
            pp = args["period"]
            per = periods.Period((periods.DateUnit(pp["unit"]), periods.Instant(tuple(pp["start"])), pp["size"]))
            kw["period"] = per
            s = pp["start"]
            y, m, d = pp["start"]
            t = 12 * y + m - 1
            if pp["unit"] in ("year", "month"):
                t2 = t + (12 if pp["unit"] == "year" else 1) * pp["size"]
                end = M.om(t2) + min(d, M.dim(t2)) - 1
            elif pp["unit"] == "week":
                end = M.ordinal(y, m, d) + 7 * pp["size"]
            else:
                end = M.ordinal(y, m, d) + pp["size"]
            e = M.civil(end)
        if args.get("start") is not None:
            kw["start"] = periods.Instant(tuple(args["start"]))
            s = args["start"]
        if args.get("stop") is not None:
            kw["stop"] = periods.Instant(tuple(args["stop"]))
            e = M.civil(M.ordinal(*args["stop"]) + 1)
        newv = args["value"]
        kw["value"] = newv
        p.update(**kw)
        sk = s[0] * 10000 + s[1] * 100 + s[2]
        ek = None if e is None else e[0] * 10000 + e[1] * 100 + e[2]
        probes = set()
        for k, _ in hist:
            probes.update((k - 1, k, k + 1))
        probes.update((sk - 1, sk, sk + 1))
        if ek is not None:
            probes.update((ek - 1, ek, ek + 1))
        bad = []
        for d in sorted(x for x in probes if 10000101 <= x <= 99991231):
            inside = d >= sk and (ek is None or d < ek)
            exp = newv if inside else oracle(hist, d)
            got = p._get_at_instant(kstr(d))
            if got != exp:
                bad.append({"date": kstr(d), "got": got, "expected": exp})
        keys = [v.instant_str for v in p.values_list]
        if any(a <= b for a, b in zip(keys, keys[1:])):
            bad.append({"not-strictly-decreasing": keys})
        return {"kind": "return", "value": {"ok": not bad, "mismatches": bad[:5]}}
    except BaseException as ex:
        return {"kind": "raise", "exc": type(ex).__name__, "mro": [c.__name__ for c in type(ex).__mro__],
                "msg": str(ex)[:300], "tb": traceback.format_exc()[-1200:]}
