"""Native replay for C03: a one-variable rule system whose formula encodes the requested period, so sums
and quotients can be compared with an independent evaluation over pyvc.calmodel."""
import os
import sys
import traceback

sys.path.insert(0, os.path.dirname(os.path.dirname(os.path.abspath(__file__))))
from pyvc import calmodel as M  # noqa: E402


def fval(unit, y, m, d):
    if unit == "eternity":
        return 7
    return M.ordinal(y, m, d) % 997 + 1


def build(defp):
    import numpy
    from openfisca_core import entities, periods, taxbenefitsystems, variables
    from openfisca_core.simulations import SimulationBuilder
    person = entities.build_entity(key="person", plural="persons", label="", is_person=True)
    tbs = taxbenefitsystems.TaxBenefitSystem([person])

    class v(variables.Variable):
        value_type = int
        entity = person
        definition_period = periods.DateUnit(defp)

        def formula(population, period):
            u = str(period.unit.value if hasattr(period.unit, "value") else period.unit)
            return numpy.array([fval(u, *period.start)])
    tbs.add_variable(v)
    sim = SimulationBuilder().build_default_simulation(tbs, count=1)
    return tbs, sim


def decode_period(p):
    from openfisca_core import periods
    return periods.Period((periods.DateUnit(p["unit"]), periods.Instant(tuple(p["start"])), p["size"]))


def pieces(defp, p):
    y, m, d = p["start"]
    unit, size = p["unit"], p["size"]
    o0 = M.ordinal(y, m, d)
    t0 = 12 * y + m - 1
    if unit == "year":
        t1 = t0 + 12 * size
    elif unit == "month":
        t1 = t0 + size
    if unit in ("year", "month"):
        end = M.om(t1) + min(d, M.dim(t1)) - 1
    elif unit == "week":
        end = o0 + 7 * size
    else:
        end = o0 + size
    if defp == "year":
        return [((t0 + 12 * i) // 12, (t0 + 12 * i) % 12 + 1, d) for i in range(size)]
    if defp == "month":
        n = 12 * size if unit == "year" else size
        return [((t0 + i) // 12, (t0 + i) % 12 + 1, d) for i in range(n)]
    if defp == "week":
        return [M.civil(o0 + 7 * i) for i in range(size)]
    return [M.civil(o) for o in range(o0, end)]


def enclosing(defp, p):
    y, m, d = p["start"]
    if defp == "year":
        t0 = 12 * y
        count = {"year": 1, "month": 12, "day": M.om(t0 + 12) - M.om(t0)}[p["unit"]]
        return (y, 1, 1), count
    if defp == "month":
        return (y, m, 1), {"month": 1, "day": M.dim(12 * y + m - 1)}[p["unit"]]
    if defp == "week":
        return M.start_of_week(y, m, d), {"week": 1, "weekday": 7}[p["unit"]]
    return (y, m, d), 1


def run(mode, defp, p):
    try:
        tbs, sim = build(defp)
        period = decode_period(p)
        if mode == "check":
            sim._check_period_consistency(period, tbs.get_variable("v"))
            return {"kind": "return", "value": None}
        if mode == "add":
            got = sim.calculate_add("v", period)
            claimed = p["unit"] != "eternity" and defp != "eternity"
            exp = None
            try:
                exp = sum(fval(defp, *s) for s in pieces(defp, p)) if claimed else None
            except Exception:
                exp = None
            g = got.tolist() if hasattr(got, "tolist") else got
            ok = exp is not None and g == [exp]
            if ok and claimed:
                # the request must not have rewritten what the holder keeps for the pieces
                from openfisca_core import periods
                for s in pieces(defp, p)[:40]:
                    piece = periods.Period((periods.DateUnit(defp), periods.Instant(tuple(s)), 1))
                    again = sim.calculate("v", piece).tolist()
                    if again != [fval(defp, *s)]:
                        return {"kind": "return", "value": {"ok": False, "got": f"{defp} {s} reads {again} after the ADD request", "expected": [fval(defp, *s)]}}
            return {"kind": "return", "value": {"ok": ok, "got": g, "expected": exp}}
        if mode == "divide":
            got = sim.calculate_divide("v", period)
            exp = None
            try:
                s, count = enclosing(defp, p)
                exp = fval(defp, *s) / count
            except Exception:
                exp = None
            g = got.tolist() if hasattr(got, "tolist") else got
            return {"kind": "return", "value": {"ok": exp is not None and g == [exp], "got": g, "expected": exp}}
        if mode == "plain":
            got = sim.calculate("v", period)
            return {"kind": "return", "value": {"got": got.tolist()}}
        raise ValueError(mode)
    except BaseException as e:
        return {"kind": "raise", "exc": type(e).__name__, "mro": [c.__name__ for c in type(e).__mro__],
                "msg": str(e)[:300], "tb": traceback.format_exc()[-1200:]}
