"""Native replay for C08: real tax scales against the statement's mathematics (exact rationals for the oracle)."""
import traceback
from fractions import Fraction as Fr


def oracle_rounded(t, v, b, factor, decimals):
    """the statement's sum with a threshold factor and rounding: scaled thresholds, parts and products rounded (numpy.round)"""
    import numpy
    rnd = (lambda x: float(numpy.round(x, decimals))) if decimals is not None else (lambda x: x)
    n = len(t)
    th = [rnd(factor * float(x)) for x in t] + [float("inf")]
    return sum(rnd(float(v[k]) * rnd(max(min(float(b), th[k + 1]) - th[k], 0.0))) for k in range(n))


def oracle(kind, t, v, b):
    n = len(t)
    if kind == "marginal_rate":
        return sum(v[k] * max((min(b, t[k + 1]) if k + 1 < n else b) - t[k], 0) for k in range(n))
    if kind == "marginal_amount":
        return sum(v[k] for k in range(n) if t[k] < b)
    if kind == "single_amount":
        if b < t[0]:
            return 0
        k = max(k for k in range(n) if t[k] <= b)
        return v[k]
    if kind == "linear_average":
        if n == 1:
            return b * v[0]
        for k in range(n - 1):
            if t[k] <= b < t[k + 1]:
                return b * (v[k] + (b - t[k]) * (v[k + 1] - v[k]) / (t[k + 1] - t[k]))
        return None
    raise ValueError(kind)


def run(call):
    import numpy
    from openfisca_core import taxscales
    try:
        kind = call["kind"]
        cls = {"marginal_rate": taxscales.MarginalRateTaxScale, "marginal_amount": taxscales.MarginalAmountTaxScale,
               "single_amount": taxscales.SingleAmountTaxScale, "linear_average": taxscales.LinearAverageRateTaxScale}[kind]
        s = cls()
        t = [Fr(x).limit_denominator(1000) for x in call["thresholds"]]
        v = [Fr(x).limit_denominator(1000) for x in call["values"]]
        for a, b in zip(t, v):
            s.add_bracket(float(a), float(b))
        bases = [Fr(x).limit_denominator(1000) for x in call["bases"]]
        factor, decimals = call.get("factor"), call.get("decimals")
        if factor is not None or decimals is not None:
            got = s.calc(numpy.array([float(b) for b in bases]), factor=float(factor or 1.0), round_base_decimals=decimals)
        else:
            got = s.calc(numpy.array([float(b) for b in bases]))
        bad = []
        for b, g in zip(bases, got):
            exp = oracle(kind, t, v, b) if factor is None and decimals is None else oracle_rounded(t, v, b, float(factor or 1.0), decimals)
            if exp is None:
                continue
            if abs(float(g) - float(exp)) > 1e-6 * max(1.0, abs(float(exp))):
                bad.append({"base": float(b), "got": float(g), "expected": float(exp)})
        return {"kind": "return", "value": {"ok": not bad, "mismatches": bad[:4]}}
    except BaseException as ex:
        return {"kind": "raise", "exc": type(ex).__name__, "mro": [c.__name__ for c in type(ex).__mro__],
                "msg": str(ex)[:300], "tb": traceback.format_exc()[-1200:]}


def run_add(call):
    """add_bracket on the real class: the threshold -> value view is updated at one key, thresholds stay strictly increasing"""
    from openfisca_core import taxscales
    try:
        rates = call["second"] == "rates"
        s = (taxscales.MarginalRateTaxScale if rates else taxscales.MarginalAmountTaxScale)()
        t = [float(Fr(x).limit_denominator(1000)) for x in call["thresholds"]]
        v = [float(Fr(x).limit_denominator(1000)) for x in call["values"]]
        s.thresholds = list(t)
        setattr(s, call["second"], list(v))
        nt, nv = float(Fr(call["t"]).limit_denominator(1000)), float(Fr(call["r"]).limit_denominator(1000))
        s.add_bracket(nt, nv)
        want = dict(zip(t, v))
        want[nt] = want.get(nt, 0) + nv
        got_t, got_v = list(s.thresholds), list(getattr(s, call["second"]))
        ok = (len(got_t) == len(got_v) and all(a < b for a, b in zip(got_t, got_t[1:])) and dict(zip(got_t, got_v)) == want
              and len(got_t) == len(want))
        return {"kind": "return", "value": {"ok": ok, "thresholds": got_t, "values": got_v, "expected_view": sorted(want.items())}}
    except BaseException as ex:
        return {"kind": "raise", "exc": type(ex).__name__, "mro": [c.__name__ for c in type(ex).__mro__],
                "msg": str(ex)[:300], "tb": traceback.format_exc()[-1200:]}


def run_brackets(call):
    """bracket_indices / marginal_rates / rate_from_tax_base / threshold_from_tax_base on the real class with and without a factor:
    the bracket reported for a base is the one containing it ([factor x t_k, factor x t_k+1)), a vector gives what each base alone
    gives; and a history: calc, change the scale in place, calc again - every calc is the mathematical value of the scale as it is."""
    import numpy
    from openfisca_core import taxscales
    try:
        bad = []
        t, v = [float(x) for x in call["thresholds"]], [float(x) for x in call["values"]]
        bases = [float(x) for x in call["bases"]]
        for factor in call.get("factors", [1.0]):
            s = taxscales.MarginalRateTaxScale()
            for a, b in zip(t, v):
                s.add_bracket(a, b)
            vec = numpy.array(bases)
            kw = {} if factor == 1.0 and not call.get("always_factor") else {"factor": factor}
            idx = s.bracket_indices(vec, **kw)
            rates = s.marginal_rates(vec, **kw)
            for j, b in enumerate(bases):
                if b < factor * t[0]:
                    continue
                k = max(q for q in range(len(t)) if factor * t[q] <= b)
                if int(idx[j]) != k:
                    bad.append(f"bracket_indices(factor={factor})[base {b}] = {int(idx[j])}, the bracket containing it is {k}")
                if abs(float(rates[j]) - v[k]) > 1e-9:
                    bad.append(f"marginal_rates(factor={factor})[base {b}] = {float(rates[j])}, the rate of its bracket is {v[k]}")
                alone = s.bracket_indices(numpy.array([b]), **kw)
                if int(alone[0]) != int(idx[j]):
                    bad.append(f"bracket_indices(factor={factor}) of base {b}: {int(idx[j])} in the vector, {int(alone[0])} alone")
            if factor == 1.0:
                for j, b in enumerate(bases):
                    if b >= t[0]:
                        k = max(q for q in range(len(t)) if t[q] <= b)
                        if abs(float(s.rate_from_tax_base(numpy.array(bases))[j]) - v[k]) > 1e-9 or abs(float(s.threshold_from_tax_base(numpy.array(bases))[j]) - t[k]) > 1e-9:
                            bad.append(f"rate / threshold from tax base {b} are not those of bracket {k}")
        # history on each kind of scale: calc, in-place change, calc
        for kind, cls in (("marginal_rate", taxscales.MarginalRateTaxScale), ("linear_average", taxscales.LinearAverageRateTaxScale)):
            s = cls()
            for a, b in zip(t, v):
                s.add_bracket(a, b)
            vec = numpy.array(bases)
            s.calc(vec)
            if kind == "marginal_rate":
                s.marginal_rates(vec), s.rate_from_tax_base(vec), s.threshold_from_tax_base(vec), s.bracket_indices(vec)
            s.multiply_rates(2.0, inplace=True)
            v2 = [2.0 * x for x in v]
            got = s.calc(vec)
            if kind == "marginal_rate":
                for nm, want in (("marginal_rates", v2), ("rate_from_tax_base", v2), ("threshold_from_tax_base", t)):
                    res = getattr(s, nm)(vec)
                    for j, b in enumerate(bases):
                        if b >= t[0]:
                            k = max(q for q in range(len(t)) if t[q] <= b)
                            if abs(float(res[j]) - want[k]) > 1e-9:
                                bad.append(f"{nm} after an earlier look-up and an in-place multiply_rates(2): base {b} gives {float(res[j])}, bracket {k} of the scale as it is now has {want[k]}")
                                break
            for b, g in zip(bases, got):
                exp = oracle(kind, [Fr(x).limit_denominator(1000) for x in t], [Fr(x).limit_denominator(1000) for x in v2], Fr(b).limit_denominator(1000))
                if exp is not None and abs(float(g) - float(exp)) > 1e-6 * max(1.0, abs(float(exp))):
                    bad.append(f"{kind}: calc after an in-place multiply_rates(2) gives {float(g)} for base {b}, the scale as it is now gives {float(exp)}")
                    break
            s.multiply_thresholds(3.0, inplace=True)
            t3 = [3.0 * x for x in t]
            got = s.calc(vec)
            for b, g in zip(bases, got):
                exp = oracle(kind, [Fr(x).limit_denominator(1000) for x in t3], [Fr(x).limit_denominator(1000) for x in v2], Fr(b).limit_denominator(1000))
                if exp is not None and abs(float(g) - float(exp)) > 1e-6 * max(1.0, abs(float(exp))):
                    bad.append(f"{kind}: calc after an in-place multiply_thresholds(3) gives {float(g)} for base {b}, the scale as it is now gives {float(exp)}")
                    break
        return {"kind": "return", "value": {"ok": not bad, "mismatches": bad[:4]}}
    except BaseException as ex:
        return {"kind": "raise", "exc": type(ex).__name__, "mro": [c.__name__ for c in type(ex).__mro__],
                "msg": str(ex)[:300], "tb": traceback.format_exc()[-1200:]}
