#!/venv/bin/python
"""Validates the assumed contracts of pendulum / datetime / calendar (pyvc/calmodel.py) against the real
libraries. Prints one JSON line {name, ok, cases, detail}. Runs under /venv/bin/python."""
import calendar
import datetime
import json
import os
import random
import sys

sys.path.insert(0, os.path.dirname(os.path.dirname(os.path.abspath(__file__))))
from pyvc import calmodel as M  # noqa: E402

import pendulum  # noqa: E402


def main():
    tier = sys.argv[1] if len(sys.argv) > 1 else "quick"
    seed = int(sys.argv[2]) if len(sys.argv) > 2 else 0
    rnd = random.Random(seed)
    n = 20000 if tier == "quick" else 400000
    cases = 0
    bad = []

    def rand_date():
        y = rnd.choice([rnd.randint(1, 9999), rnd.randint(1890, 2110)])
        m = rnd.randint(1, 12)
        d = rnd.randint(1, M.dim(12 * y + m - 1))
        return y, m, d
    for _ in range(n):
        y, m, d = rand_date()
        kind = rnd.randint(0, 5)
        try:
            pd = pendulum.date(y, m, d)
            if kind == 0:
                k = dict(years=rnd.randint(-40, 40), months=rnd.randint(-30, 30), weeks=rnd.randint(-60, 60), days=rnd.randint(-800, 800))
                exp = M.add(y, m, d, **k)
                mid = M.add(y, m, d, years=k["years"], months=k["months"])
                if not (1 <= exp[0] <= 9999) or not (1 <= mid[0] <= 9999):
                    continue   # assumption of every claim: all (intermediate) dates within years 1..9999
                r = pd.add(**k)
                got = (r.year, r.month, r.day)
                what = ("add", k)
            elif kind == 1:
                exp = M.start_of_week(y, m, d); what = "start_of week"
                if exp[0] < 1:
                    continue
                r = pd.start_of("week"); got = (r.year, r.month, r.day)
            elif kind == 2:
                exp = M.end_of_week(y, m, d); what = "end_of week"
                if exp[0] > 9999:
                    continue
                r = pd.end_of("week"); got = (r.year, r.month, r.day)
            elif kind == 3:
                r = pd.end_of("month"); got = (r.year, r.month, r.day); exp = M.end_of_month(y, m, d); what = "end_of month"
            elif kind == 4:
                y2, m2, d2 = rand_date()
                o = pendulum.date(y2, m2, d2)
                got = ((pd - o).days, pd.diff(o).in_weeks())
                dd = M.ordinal(y, m, d) - M.ordinal(y2, m2, d2)
                exp = (dd, M.in_weeks(dd)); what = ("sub/diff", (y2, m2, d2))
            else:
                got = (tuple(datetime.date(y, m, d).isocalendar()), calendar.monthrange(y, m)[1], pd.isoformat() if y >= 1000 else None)
                exp = (M.isocalendar(y, m, d), M.dim(12 * y + m - 1), "%04d-%02d-%02d" % (y, m, d) if y >= 1000 else None)
                what = "isocalendar/monthrange/isoformat"
        except (ValueError, OverflowError) as e:
            bad.append(((y, m, d), "exception", repr(e)))
            continue
        cases += 1
        if got != exp:
            bad.append(((y, m, d), what, got, exp))
    # invalid dates are refused
    for y, m, d in [(2021, 2, 29), (2020, 2, 30), (2021, 13, 1), (2021, 0, 1), (2021, 4, 31), (0, 1, 1), (10000, 1, 1), (2021, 1, 0)]:
        cases += 1
        try:
            pendulum.date(y, m, d)
            if not M.valid(y, m, d):
                bad.append(((y, m, d), "accepted invalid"))
        except ValueError:
            if M.valid(y, m, d):
                bad.append(((y, m, d), "refused valid"))
    # pendulum.parse(text, exact=True) on the period grammar's date shapes and near misses
    texts = []
    years = [1000, 1999, 2004, 2009, 2014, 2015, 2016, 2020, 2021, 2026, 9999] + [rnd.randint(1000, 9999) for _ in range(8 if tier == "quick" else 200)]
    for yy in years:
        texts.append("%04d" % yy)
        texts += ["%04d-%02d" % (yy, mm) for mm in range(0, 20)] + ["%04d-%02d" % (yy, 99)]
        texts += ["%04d-%02d-%02d" % (yy, mm, dd) for mm in (0, 1, 2, 4, 12, 13) for dd in (0, 1, 28, 29, 30, 31, 32, 99)]
        texts += ["%04d-W%02d" % (yy, ww) for ww in list(range(0, 3)) + list(range(50, 56)) + [99]]
        texts += ["%04d-W%02d-%d" % (yy, ww, wd) for ww in (0, 1, 26, 52, 53, 54) for wd in range(0, 10)]
        texts += ["%04d-%d" % (yy, wd) for wd in (0, 1, 7, 8)]
    import re as _re
    for t in texts:
        cases += 1
        exp = M.parse_iso(t)
        try:
            r = pendulum.parse(t, exact=True)
            got = (r.year, r.month, r.day) if isinstance(r, datetime.date) and not isinstance(r, datetime.datetime) else ("not-a-date", repr(r))
        except ValueError:
            got = None
        if got != exp:
            bad.append((t, "parse", got, exp))
    # ParserError is a ValueError
    from pendulum.parsing.exceptions import ParserError
    if not issubclass(ParserError, ValueError):
        bad.append("ParserError is not a ValueError")
    print(json.dumps({"name": "pendulum/datetime/calendar vs pyvc.calmodel", "ok": not bad, "cases": cases,
                      "detail": repr(bad[:5])}))


main()
