"""Native replay for C05: print / parse on the real periods package."""
import traceback


def run(call):
    from openfisca_core import periods
    try:
        mode = call["mode"]
        if mode == "strings":
            return run_strings(call)
        if mode == "round-trip":
            unit = call["unit"]
            if unit == "eternity":
                p = periods.Period.eternity()
            else:
                p = periods.Period((periods.DateUnit(unit), periods.Instant(tuple(call["start"])), call["size"]))
            text = str(p)
            q = periods.period(text)
            want_unit, want_size = (("year", 1) if unit == "month" and call["size"] == 12 else (unit, call["size"]))
            ok = (str(q.unit) == want_unit and (unit == "eternity" or (tuple(q.start) == tuple(call["start"]) and q.size == want_size)) and str(q) == text)
            return {"kind": "return", "value": {"ok": ok, "text": text, "parsed": repr(q), "printed-again": str(q)}}
        if mode == "must-refuse":
            try:
                q = periods.period(call["text"])
            except ValueError as e:
                return {"kind": "return", "value": {"ok": True, "refused": type(e).__name__}}
            return {"kind": "return", "value": {"ok": False, "text": call["text"], "accepted-as": repr(q), "which-prints": str(q)}}
        if mode == "instant":
            i = periods.Instant(tuple(call["start"]))
            text = str(i)
            j = periods.instant(text)
            return {"kind": "return", "value": {"ok": tuple(j) == tuple(i), "text": text, "parsed": repr(j)}}
        raise ValueError(mode)
    except BaseException as ex:
        return {"kind": "raise", "exc": type(ex).__name__, "mro": [c.__name__ for c in type(ex).__mro__],
                "msg": str(ex)[:300], "tb": traceback.format_exc()[-1500:]}


# ---------------------------------------------------------------------------------------------------------------
# bounded stand-in: every string of a stated finite set is either refused or a legitimate spelling
# ---------------------------------------------------------------------------------------------------------------
import datetime as _dt
import re as _re

_ORDER = {"weekday": 0, "day": 0, "week": 1, "month": 2, "year": 3}


def _date_precision(text):
    """('year'|'month'|'day'|'week'|'weekday', exists) for the five ISO shapes, None for anything else"""
    m = _re.fullmatch(r"(\d{4})(?:-(\d{2})(?:-(\d{2}))?)?", text)
    if m:
        y = int(m.group(1))
        if m.group(3):
            try:
                _dt.date(y, int(m.group(2)), int(m.group(3)))
                return "day", y >= 1
            except ValueError:
                return "day", False
        if m.group(2):
            return "month", 1 <= int(m.group(2)) <= 12 and y >= 1
        return "year", y >= 1
    m = _re.fullmatch(r"(\d{4})-W(\d{2})(?:-(\d))?", text)
    if m:
        y, w = int(m.group(1)), int(m.group(2))
        wd = int(m.group(3)) if m.group(3) else 1
        try:
            _dt.date.fromisocalendar(y, w, wd)
            ok = True
        except ValueError:
            ok = False
        return ("weekday" if m.group(3) else "week"), ok
    return None


def must_refuse(s):
    """the refusal list of the statement; None where the statement says nothing either way"""
    if s.lower() == "eternity":
        return False
    parts = s.split(":")
    if len(parts) > 3:
        return True
    if len(parts) == 1:
        dp = _date_precision(s)
        return True if dp is None or not dp[1] else False
    unit = parts[0]
    if unit not in _ORDER:
        return True
    dp = _date_precision(parts[1])
    if dp is None or not dp[1]:
        return True
    if _ORDER[unit] < _ORDER[dp[0]]:
        return True                                  # a unit finer than the precision of the date
    if len(parts) == 3 and not _re.fullmatch(r"\s*[+-]?\d+(_\d+)*\s*", parts[2]):
        return True                                  # not an integer literal
    return None if len(parts) == 3 and int(parts[2].replace("_", "")) < 1 else False


def strings(tier, seed):
    import random
    from openfisca_core import periods
    rnd = random.Random(seed)
    base = set()
    starts = [(2014, 1, 1), (2014, 2, 1), (2016, 2, 29), (2014, 12, 29), (2015, 1, 5), (2021, 1, 1), (2020, 12, 28), (1000, 1, 1), (9998, 12, 27)]
    for y, m, d in starts:
        for unit in ("year", "month", "day", "week", "weekday"):
            for size in (1, 2, 3, 12, 24):
                try:
                    base.add(str(periods.Period((periods.DateUnit(unit), periods.Instant((y, m, d)), size))))
                except Exception:
                    pass
    base |= {"ETERNITY", "eternity", "week:2014-02", "month:2014", "day:2014-W05", "year:2014-03:2", "month:2014-02:3:1", "weekday:2014-W05-3:2"}
    base = sorted(base)
    if tier == "quick":
        base = base[::3]
    alpha = "0123456789-:Wdwy "
    out = set(base)
    for s in base:
        for i in range(len(s) + 1):
            for c in alpha:
                out.add(s[:i] + c + s[i:])
            if i < len(s):
                out.add(s[:i] + s[i + 1:])
                for c in alpha:
                    out.add(s[:i] + c + s[i + 1:])
    # short strings over the core alphabet
    core = "0129-:W"
    for L in range(0, 5 if tier == "quick" else 6):
        if L <= 4:
            import itertools
            for t in itertools.product(core, repeat=L):
                out.add("".join(t))
        else:
            for _ in range(20000):
                out.add("".join(rnd.choice(core) for _ in range(L)))
    return sorted(out)


def run_strings(call):
    from openfisca_core import periods
    n = 0
    try:
        for s in strings(call.get("tier", "quick"), call.get("seed", 0)):
            n += 1
            try:
                p = periods.period(s)
            except ValueError:
                continue
            want = must_refuse(s)
            if want:
                return {"kind": "return", "value": {"ok": False, "text": s, "problem": "should be refused, was accepted as " + repr(p)}}
            if p.unit != "eternity" and (p.start.year < 1000 or p.start.date.isocalendar()[0] < 1000 or p.start.date.isocalendar()[0] > 9999):
                continue                             # years below 1000 print without padding: outside the statement's range
            if p.unit != "eternity" and p.size < 1:
                continue                             # sizes below one: the statement speaks of positive sizes only
            # an accepted text denotes a period whose canonical text is stable
            t1 = str(p)
            p2 = periods.period(t1)
            if str(p2) != t1:
                return {"kind": "return", "value": {"ok": False, "text": s, "problem": f"accepted as {p!r} which prints {t1!r}, parsed back as {p2!r} printing {str(p2)!r}"}}
        return {"kind": "return", "value": {"ok": True, "strings": n}}
    except BaseException as ex:
        return {"kind": "raise", "exc": type(ex).__name__, "mro": [c.__name__ for c in type(ex).__mro__],
                "msg": (str(ex)[:300] + " on " + repr(s)), "tb": traceback.format_exc()[-1500:]}
