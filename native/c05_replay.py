"""Native replay for C05: print / parse on the real periods package."""
import traceback


def run(call):
    from openfisca_core import periods
    try:
        mode = call["mode"]
        if mode == "round-trip":
            unit = call["unit"]
            if unit == "eternity":
                p = periods.Period.eternity()
            else:
                p = periods.Period((periods.DateUnit(unit), periods.Instant(tuple(call["start"])), call["size"]))
            text = str(p)
            q = periods.period(text)
            want_unit, want_size = (("year", 1) if unit == "month" and call["size"] == 12 else (unit, call["size"]))
            ok = (str(q.unit) == want_unit and (unit == "eternity" or (tuple(q.start) == tuple(call["start"]) and q.size == want_size)) and str(q) == text)
            return {"kind": "return", "value": {"ok": ok, "text": text, "parsed": repr(q), "printed-again": str(q)}}
        if mode == "must-refuse":
            try:
                q = periods.period(call["text"])
            except ValueError as e:
                return {"kind": "return", "value": {"ok": True, "refused": type(e).__name__}}
            return {"kind": "return", "value": {"ok": False, "text": call["text"], "accepted-as": repr(q), "which-prints": str(q)}}
        if mode == "instant":
            i = periods.Instant(tuple(call["start"]))
            text = str(i)
            j = periods.instant(text)
            return {"kind": "return", "value": {"ok": tuple(j) == tuple(i), "text": text, "parsed": repr(j)}}
        raise ValueError(mode)
    except BaseException as ex:
        return {"kind": "raise", "exc": type(ex).__name__, "mro": [c.__name__ for c in type(ex).__mro__],
                "msg": str(ex)[:300], "tb": traceback.format_exc()[-1500:]}
