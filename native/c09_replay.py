"""Native replay for C09: the real transformations, judged by the laws of the statement (calc of the result against calc of
the operands on a grid of bases that includes every threshold)."""
import traceback


def mk(thresholds, rates, cls=None):
    from openfisca_core import taxscales
    s = (cls or taxscales.MarginalRateTaxScale)()
    s.thresholds = [float(x) for x in thresholds]
    s.rates = [float(x) for x in rates]
    return s


def grid(*scales, factor=1.0):
    pts = {0.0, 1.0, 1e6}
    for s in scales:
        for t in s.thresholds:
            if t != float("inf"):
                pts |= {t, t + 0.5, t - 0.5, t * factor}
    return sorted(p for p in pts if p >= 0)


def close(a, b):
    import numpy
    return bool(numpy.allclose(numpy.asarray(a, dtype=float), numpy.asarray(b, dtype=float), rtol=1e-9, atol=1e-9))


def run(call):
    if call.get("op") == "batch":
        n = 0
        for c in call["calls"]:
            out = run(c)
            n += 1
            if out["kind"] != "return" or not out["value"]["ok"]:
                if out["kind"] == "return":
                    out["value"]["failing_call"] = c
                else:
                    out["msg"] = out.get("msg", "") + " on " + str(c)[:200]
                return out
        return {"kind": "return", "value": {"ok": True, "inputs": n}}
    import numpy
    from openfisca_core import taxscales
    try:
        op = call["op"]
        s = mk(call["thresholds"], call["rates"])
        before = (list(s.thresholds), list(s.rates))
        f = float(call.get("factor", 1.0))
        bases = numpy.array(grid(s, factor=f) + [float(x) for x in call.get("bases", [])])
        tax0 = s.calc(bases)
        bad = []
        untouched = True
        if op == "multiply_rates":
            r = s.multiply_rates(f, inplace=call["inplace"])
            if not close(r.calc(bases), f * tax0):
                bad.append("tax of the result is not factor x tax")
            untouched = not call["inplace"]
            if call["inplace"] and r is not s:
                bad.append("in place did not return the operand")
        elif op == "multiply_thresholds":
            r = s.multiply_thresholds(f, inplace=call["inplace"])
            if not close(r.calc(bases * f), f * tax0):
                bad.append("tax of the result on factor x base is not factor x tax")
            untouched = not call["inplace"]
        elif op == "scale_tax_scales":
            r = s.scale_tax_scales(f)
            if not close(r.calc(bases * f), f * tax0):
                bad.append("tax of the result on factor x base is not factor x tax")
        elif op == "copy":
            r = s.copy()
            if not close(r.calc(bases), tax0):
                bad.append("the copy taxes differently")
            r.add_bracket(12345.0, 0.5)
            r.rates[0] += 1
        elif op == "add_tax_scale":
            o = mk(call["thresholds2"], call["rates2"])
            obefore = (list(o.thresholds), list(o.rates))
            bases = numpy.array(grid(s, o))
            want = s.calc(bases) + o.calc(bases)
            s.add_tax_scale(o)
            if not close(s.calc(bases), want):
                bad.append(f"combined tax is not the sum of the taxes: {s.calc(bases).tolist()} vs {want.tolist()} on {bases.tolist()}")
            if (list(o.thresholds), list(o.rates)) != obefore:
                bad.append("the added scale was altered")
            untouched = False
            if not all(a < b for a, b in zip(s.thresholds, s.thresholds[1:])) or len(s.thresholds) != len(s.rates):
                bad.append("combined scale is not well formed")
        elif op == "combine_bracket":
            lo, hi, rate = float(call["low"]), call["high"], float(call["rate"])
            bases = numpy.array(sorted(set(grid(s) + [lo, lo + 0.25] + ([float(hi), float(hi) - 0.25] if hi else []))))
            one = mk([0.0, lo] + ([float(hi)] if hi else []), [0.0, rate] + ([0.0] if hi else [])) if lo > 0 else \
                mk([lo] + ([float(hi)] if hi else []), [rate] + ([0.0] if hi else []))
            want = s.calc(bases) + one.calc(bases)
            s.combine_bracket(rate, lo, float(hi) if hi else False)
            if not close(s.calc(bases), want):
                bad.append(f"tax after combine_bracket is not tax + rate x part of the base in [low, high): {s.calc(bases).tolist()} vs {want.tolist()} on {bases.tolist()}")
            untouched = False
        elif op == "inverse":
            inv = s.inverse()
            gross = bases
            net = gross - s.calc(gross)
            if not close(inv.calc(net), gross):
                bad.append(f"inverse does not map net back to gross: {inv.calc(net).tolist()} vs {gross.tolist()}")
        elif op == "combine_tax_scales":
            # a parameter group holding several marginal-rate scales (and something that is not one): the combined scale taxes every base
            # by the sum of their taxes
            from openfisca_core.parameters import ParameterNode
            from openfisca_core.taxscales import helpers as H
            def scale_data(ts, rs):
                return {"brackets": [{"threshold": {"2000-01-01": {"value": t}}, "rate": {"2000-01-01": {"value": r}}} for t, r in zip(ts, rs)]}
            others = [([0.0, 5.0, 15.0], [0.05, 0.1, 0.3]), ([2.0, 30.0], [0.2, 0.0])]
            node = ParameterNode("taxes", data={"a": scale_data(s.thresholds, s.rates), "x": {"values": {"2000-01-01": {"value": 3}}},
                                                "b": scale_data(*others[0]), "c": scale_data(*others[1])})
            view = node.get_at_instant("2020-01-01")
            combined = H.combine_tax_scales(view)
            scales = [s] + [mk(*o) for o in others]
            gb = numpy.array(grid(*scales))
            want = sum(sc.calc(gb) for sc in scales)
            if not close(combined.calc(gb), want):
                bad.append(f"the combined scale taxes {combined.calc(gb).tolist()}, the member scales together {want.tolist()} on {gb.tolist()}")
        elif op == "inverse_history":
            # inverse(), an in-place change of the scale (and of a copy of it), inverse() again: always the inverse of the scale as it is
            s.inverse()
            cp = s.copy()
            s.multiply_rates(0.5, inplace=True)
            for which, sc in (("the scale after multiply_rates(0.5) in place", s), ("a copy taken before, scaled by scale_tax_scales(2)", cp.scale_tax_scales(2.0))):
                gross = numpy.array(grid(sc))
                net = gross - sc.calc(gross)
                if not close(sc.inverse().calc(net), gross):
                    bad.append(f"inverse of {which} does not map net back to gross: {sc.inverse().calc(net).tolist()} vs {gross.tolist()}")
            untouched = False
        elif op == "average_round_trip":
            back = s.to_average().to_marginal()
            if not close(back.calc(bases), tax0):
                bad.append(f"to_average().to_marginal() taxes differently: {back.calc(bases).tolist()} vs {tax0.tolist()} on {bases.tolist()}")
        else:
            raise ValueError(op)
        if untouched and (list(s.thresholds), list(s.rates)) != before:
            bad.append("the operand was altered")
        return {"kind": "return", "value": {"ok": not bad, "problems": bad[:3]}}
    except BaseException as ex:
        return {"kind": "raise", "exc": type(ex).__name__, "mro": [c.__name__ for c in type(ex).__mro__],
                "msg": str(ex)[:300], "tb": traceback.format_exc()[-1200:]}
