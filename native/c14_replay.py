"""Native scenarios for C14 (derived systems leave the base untouched)."""
import traceback


def build():
    from openfisca_core import entities, periods, taxbenefitsystems, variables
    from openfisca_core.parameters import ParameterNode
    person = entities.build_entity(key="person", plural="persons", label="", is_person=True)
    tbs = taxbenefitsystems.TaxBenefitSystem([person])

    class salary(variables.Variable):
        value_type = float
        entity = person
        definition_period = periods.DateUnit.MONTH

    class tax(variables.Variable):
        value_type = float
        entity = person
        definition_period = periods.DateUnit.MONTH
        label = "Income tax"

        def formula_2000(person, period, parameters):
            return person("salary", period) * parameters(period).taxes.rate
    tbs.add_variable(salary)
    tbs.add_variable(tax)
    tbs.parameters = ParameterNode("", data={"taxes": {"rate": {"values": {"2010-01-01": {"value": 0.1}, "2015-01-01": {"value": 0.2}}}}})
    return tbs, person


def run(scenario):
    from openfisca_core import periods, reforms, variables
    try:
        tbs, person = build()
        bad = []
        if scenario == "clone-entities":
            copy_ = tbs.clone()

            class extra(variables.Variable):
                value_type = float
                entity = person
                definition_period = periods.DateUnit.MONTH
            copy_.add_variable(extra)
            if any(e._tax_benefit_system is not tbs for e in tbs.entities):
                bad.append("after clone() the original's entities are bound to the copy")
            if tbs.person_entity.get_variable("extra") is not None:
                bad.append("a variable added to the copy is visible through the original's person entity")
            if any(e._tax_benefit_system is not copy_ for e in copy_.entities):
                bad.append("the copy's entities are not bound to the copy")
        elif scenario == "parameter-alias":
            copy_ = tbs.clone()
            copy_.parameters.taxes.rate.values_history.update(start="2016-01-01", value=0.9)
            if tbs.parameters.taxes.rate.get_at_instant("2017-01-01") != 0.2:
                bad.append("editing the copy's parameter through values_history changed the original")
        elif scenario == "neutralize-updated-variable":
            class tax(variables.Variable):
                def formula_2015(person, period, parameters):
                    return person("salary", period) * 0.5

            class r(reforms.Reform):
                def apply(self):
                    self.update_variable(tax)
                    self.neutralize_variable("tax")
            ref = r(tbs)
            if not ref.get_variable("tax").is_neutralized:
                bad.append("variable not neutralised")
            if tbs.get_variable("tax").is_neutralized or list(tbs.get_variable("tax").formulas) != ["2000-01-01"]:
                bad.append("baseline variable changed")
        elif scenario == "reform-leaves-base":
            def modifier(params):
                params.taxes.rate.update(start="2016-01-01", value=0.9)
                return params

            class r(reforms.Reform):
                def apply(self):
                    self.modify_parameters(modifier)
                    self.neutralize_variable("salary")
            ref = r(tbs)
            if tbs.parameters.taxes.rate.get_at_instant("2017-01-01") != 0.2:
                bad.append("baseline parameters changed")
            if tbs.get_variable("salary").is_neutralized:
                bad.append("baseline variable neutralised")
            if any(e._tax_benefit_system is not tbs for e in tbs.entities):
                bad.append("baseline entities re-bound")
        else:
            raise ValueError(scenario)
        return {"kind": "return", "value": {"ok": not bad, "detail": bad}}
    except BaseException as ex:
        return {"kind": "raise", "exc": type(ex).__name__, "mro": [c.__name__ for c in type(ex).__mro__],
                "msg": str(ex)[:300], "tb": traceback.format_exc()[-1500:]}
