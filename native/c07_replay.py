"""Native scenarios for C07: reads of parameters after the tree was replaced through the documented routes."""
import os
import tempfile
import traceback


def run(scenario):
    from openfisca_core import entities, reforms, taxbenefitsystems
    from openfisca_core.parameters import ParameterNode
    try:
        person = entities.build_entity(key="person", plural="persons", label="", is_person=True)
        tbs = taxbenefitsystems.TaxBenefitSystem([person])
        tbs.parameters = ParameterNode("", data={"rate": {"values": {"2010-01-01": {"value": 0.1}}}})
        bad = []
        if scenario == "reload-after-read":
            before = tbs.get_parameters_at_instant("2015-01-01").rate
            with tempfile.TemporaryDirectory(dir="/var/tmp") as d:
                open(os.path.join(d, "rate.yaml"), "w").write("values:\n  2010-01-01:\n    value: 0.7\n")
                tbs.load_parameters(d)
            after = tbs.get_parameters_at_instant("2015-01-01").rate
            direct = tbs.parameters.rate.get_at_instant("2015-01-01")
            if after != direct:
                bad.append(f"view read after load_parameters gives {after}, the current tree defines {direct} (read before: {before})")
        elif scenario == "modifier-after-read-in-apply":
            def modifier(params):
                params.rate.update(start="2012-01-01", value=0.9)
                return params

            class r(reforms.Reform):
                def apply(self):
                    self.seen_before = self.get_parameters_at_instant("2015-01-01").rate
                    self.modify_parameters(modifier)
            ref = r(tbs)
            after = ref.get_parameters_at_instant("2015-01-01").rate
            direct = ref.parameters.rate.get_at_instant("2015-01-01")
            if after != direct:
                bad.append(f"reform view gives {after}, its current tree defines {direct}")
            if tbs.get_parameters_at_instant("2015-01-01").rate != 0.1:
                bad.append("baseline view changed")
        elif scenario == "two-systems":
            other = taxbenefitsystems.TaxBenefitSystem([person])
            other.parameters = ParameterNode("", data={"rate": {"values": {"2010-01-01": {"value": 0.5}}}})
            a = tbs.get_parameters_at_instant("2015-01-01").rate
            b = other.get_parameters_at_instant("2015-01-01").rate
            if (a, b) != (0.1, 0.5):
                bad.append(f"two systems read {a} and {b}")
        else:
            raise ValueError(scenario)
        return {"kind": "return", "value": {"ok": not bad, "detail": bad}}
    except BaseException as ex:
        return {"kind": "raise", "exc": type(ex).__name__, "mro": [c.__name__ for c in type(ex).__mro__],
                "msg": str(ex)[:300], "tb": traceback.format_exc()[-1500:]}
