"""Native scenarios for C07: reads of parameters after the tree was replaced through the documented routes."""
import os
import tempfile
import traceback


def run_date_vectors():
    """a group whose members are named before_X / after_X / after_Y indexed by an array of dates, at day, month, year and second
    resolution: element i is the value the tree defines (at the date of the view) for the member whose range contains dates[i]"""
    import datetime
    import numpy
    from openfisca_core.parameters import ParameterNode
    bad = []
    marks = [(1951, 7, 1), (1952, 1, 15), (1953, 3, 1), (1955, 1, 1)]
    data = {"before_1951_07_01": {"values": {"2000-01-01": {"value": 60}}}}
    for k, (y, m, d) in enumerate(marks):
        data["after_%04d_%02d_%02d" % (y, m, d)] = {"values": {"2000-01-01": {"value": 61 + k}, "2019-01-01": {"value": 71 + k}}}
    tree = ParameterNode("", data={"age": data})
    days = [datetime.date(1950, 1, 1), datetime.date(1951, 6, 30), datetime.date(1951, 7, 1), datetime.date(1951, 7, 2), datetime.date(1952, 1, 1),
            datetime.date(1952, 1, 14), datetime.date(1952, 1, 15), datetime.date(1953, 2, 28), datetime.date(1953, 3, 1), datetime.date(1954, 12, 31),
            datetime.date(1955, 1, 1), datetime.date(1990, 5, 5)]
    for instant in ("2010-01-01", "2020-01-01"):
        view = tree.get_at_instant(instant).age
        leaves = [tree.age.children["before_1951_07_01"].get_at_instant(instant)] + \
            [tree.age.children["after_%04d_%02d_%02d" % mk].get_at_instant(instant) for mk in marks]
        for unit in ("D", "M", "Y", "s"):
            keys = numpy.array([d.isoformat() for d in days], dtype="datetime64[D]").astype(f"datetime64[{unit}]")
            got = view[keys]
            for j, key in enumerate(keys):
                day = key.astype("datetime64[D]").astype(datetime.date)      # numpy's meaning of a coarse date: the first day of the unit
                want = leaves[sum(1 for mk in marks if datetime.date(*mk) <= day)]
                if float(got[j]) != float(want):
                    bad.append(f"view at {instant}, key {key} ({unit}): {float(got[j])}, the tree defines {float(want)} for {day}")
        one = view[numpy.array(["1952-01-15"], dtype="datetime64[D]")]
        if float(one[0]) != float(leaves[2]):
            bad.append(f"one-element key at {instant}: {float(one[0])} instead of {float(leaves[2])}")
    return bad


def run(scenario):
    if scenario == "date-vectors":
        try:
            bad = run_date_vectors()
            return {"kind": "return", "value": {"ok": not bad, "detail": bad[:4]}}
        except BaseException as ex:
            return {"kind": "raise", "exc": type(ex).__name__, "mro": [c.__name__ for c in type(ex).__mro__],
                    "msg": str(ex)[:300], "tb": traceback.format_exc()[-1500:]}
    from openfisca_core import entities, reforms, taxbenefitsystems
    from openfisca_core.parameters import ParameterNode
    try:
        person = entities.build_entity(key="person", plural="persons", label="", is_person=True)
        tbs = taxbenefitsystems.TaxBenefitSystem([person])
        tbs.parameters = ParameterNode("", data={"rate": {"values": {"2010-01-01": {"value": 0.1}}}})
        bad = []
        if scenario == "reload-after-read":
            before = tbs.get_parameters_at_instant("2015-01-01").rate
            with tempfile.TemporaryDirectory(dir="/var/tmp") as d:
                open(os.path.join(d, "rate.yaml"), "w").write("values:\n  2010-01-01:\n    value: 0.7\n")
                tbs.load_parameters(d)
            after = tbs.get_parameters_at_instant("2015-01-01").rate
            direct = tbs.parameters.rate.get_at_instant("2015-01-01")
            if after != direct:
                bad.append(f"view read after load_parameters gives {after}, the current tree defines {direct} (read before: {before})")
        elif scenario == "modifier-after-read-in-apply":
            def modifier(params):
                params.rate.update(start="2012-01-01", value=0.9)
                return params

            class r(reforms.Reform):
                def apply(self):
                    self.seen_before = self.get_parameters_at_instant("2015-01-01").rate
                    self.modify_parameters(modifier)
            ref = r(tbs)
            after = ref.get_parameters_at_instant("2015-01-01").rate
            direct = ref.parameters.rate.get_at_instant("2015-01-01")
            if after != direct:
                bad.append(f"reform view gives {after}, its current tree defines {direct}")
            if tbs.get_parameters_at_instant("2015-01-01").rate != 0.1:
                bad.append("baseline view changed")
        elif scenario == "two-systems":
            other = taxbenefitsystems.TaxBenefitSystem([person])
            other.parameters = ParameterNode("", data={"rate": {"values": {"2010-01-01": {"value": 0.5}}}})
            a = tbs.get_parameters_at_instant("2015-01-01").rate
            b = other.get_parameters_at_instant("2015-01-01").rate
            if (a, b) != (0.1, 0.5):
                bad.append(f"two systems read {a} and {b}")
        else:
            raise ValueError(scenario)
        return {"kind": "return", "value": {"ok": not bad, "detail": bad}}
    except BaseException as ex:
        return {"kind": "raise", "exc": type(ex).__name__, "mro": [c.__name__ for c in type(ex).__mro__],
                "msg": str(ex)[:300], "tb": traceback.format_exc()[-1500:]}
