#!/venv/bin/python
"""Validates the assumed numpy.save / numpy.load round trip per dtype (DESIGN 2.7) and the EnumArray view/re-wrap."""
import json
import os
import random
import sys
import tempfile

import numpy as np


def main():
    seed = int(sys.argv[2]) if len(sys.argv) > 2 else 0
    rnd = random.Random(seed)
    bad, cases, expected_fail = [], 0, []
    from openfisca_core import indexed_enums

    class E(indexed_enums.Enum):
        A = "a"
        B = "b"
        C = "c"
    with tempfile.TemporaryDirectory(dir="/var/tmp") as d:
        for i in range(40):
            n = rnd.randint(0, 6)
            arrays = {
                "bool": np.array([rnd.random() < 0.5 for _ in range(n)], dtype=np.bool_),
                "int32": np.array([rnd.randint(-10**6, 10**6) for _ in range(n)], dtype=np.int32),
                "float32": np.array([rnd.uniform(-1e6, 1e6) for _ in range(n)], dtype=np.float32),
                "date": np.array(["2020-01-%02d" % rnd.randint(1, 28) for _ in range(n)], dtype="datetime64[D]"),
                "enum": E.encode(np.array([rnd.randint(0, 2) for _ in range(n)])),
            }
            for k, a in arrays.items():
                cases += 1
                path = os.path.join(d, f"{k}{i}") + ".npy"
                raw = a.view(np.ndarray) if isinstance(a, indexed_enums.EnumArray) else a
                np.save(path, raw)
                b = np.load(path)
                if k == "enum":
                    b = indexed_enums.EnumArray(b, E)
                    ok = isinstance(b, indexed_enums.EnumArray) and b.possible_values is E and (b.view(np.ndarray) == raw).all()
                else:
                    ok = b.dtype == a.dtype and (b == a).all()
                if not ok or len(b) != n:
                    bad.append((k, a.tolist()))
        # object dtype (string variables) is expected NOT to round trip with allow_pickle=False
        path = os.path.join(d, "obj.npy")
        np.save(path, np.array(["x", "yy"], dtype=object))
        try:
            np.load(path)
            expected_fail.append("object arrays loaded without pickle (unexpected)")
        except ValueError:
            pass
    print(json.dumps({"name": "numpy.save/load round trip per dtype + EnumArray re-wrap", "ok": not bad, "cases": cases,
                      "detail": repr(bad[:3]) + " object-dtype: not loadable without pickle (as recorded)" + repr(expected_fail)}))


main()
