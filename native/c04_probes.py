"""Native probe scenarios for the period-arithmetic contracts (C04): the real Period / Instant methods on a fixed family of
periods, judged by the calendar through `datetime` only (set of days from the start through `size` units later minus one day).
Evaluated in two orders inside one process, so that a result depending on what was asked before shows. Used only to attach
a failing input to an obligation that failed or could not be generated: never a verdict of their own."""
import datetime
import traceback


def add_months(d, n):
    t = d.year * 12 + d.month - 1 + n
    y, m = divmod(t, 12)
    m += 1
    last = (datetime.date(y + (m == 12), m % 12 + 1, 1) - datetime.timedelta(days=1)).day
    return datetime.date(y, m, min(d.day, last))


def end_exclusive(unit, start, size):
    if unit == "year":
        return add_months(start, 12 * size)
    if unit == "month":
        return add_months(start, size)
    if unit == "week":
        return start + datetime.timedelta(days=7 * size)
    return start + datetime.timedelta(days=size)


FAMILY = [("month", (2022, 1, 1), 3), ("month", (2022, 1, 15), 3), ("month", (2020, 2, 1), 1), ("month", (2019, 11, 1), 3), ("month", (2020, 12, 1), 2),
          ("month", (2020, 1, 31), 1), ("year", (2019, 7, 1), 1), ("year", (2020, 2, 1), 1), ("year", (2020, 2, 29), 1), ("year", (2021, 1, 1), 2),
          ("year", (2022, 1, 1), 1), ("week", (2022, 1, 3), 1), ("week", (2022, 1, 1), 1), ("week", (2020, 12, 14), 6), ("week", (2015, 9, 28), 70),
          ("week", (2019, 12, 30), 1), ("day", (2020, 2, 28), 3), ("day", (2021, 12, 31), 2), ("weekday", (2022, 1, 5), 4), ("month", (2022, 1, 1), 12)]


def check_all(order):
    from openfisca_core import periods
    P, In, U = periods.Period, periods.Instant, periods.DateUnit
    problems = []
    fam = [FAMILY[i] for i in order]
    objs = [P((U(u), In(s), n)) for u, s, n in fam]
    for (u, s, n), p in zip(fam, objs):
        start = datetime.date(*s)
        endx = end_exclusive(u, start, n)
        last = endx - datetime.timedelta(days=1)
        tag = f"{u}:{start.isoformat()}:{n}"
        st = p.stop
        if tuple(st) != (last.year, last.month, last.day):
            problems.append(f"{tag}.stop = {tuple(st)}, the last day is {last.isoformat()}")
        ndays = (endx - start).days
        if u in ("year", "month", "day") and p.size_in_days != ndays:
            problems.append(f"{tag}.size_in_days = {p.size_in_days}, the period has {ndays} days")
        if p.days != ndays:
            problems.append(f"{tag}.days = {p.days}, the period has {ndays} days")
        if u in ("year", "month"):
            months = n * (12 if u == "year" else 1)
            if p.size_in_months != months:
                problems.append(f"{tag}.size_in_months = {p.size_in_months}, expected {months}")
        # containment of its own first and last day, and of the day after
        for d, want in ((start, True), (last, True), (endx, False)):
            q = P((U.DAY, In((d.year, d.month, d.day)), 1))
            if bool(p.contains(q)) != want:
                problems.append(f"{tag}.contains({d.isoformat()}) = {p.contains(q)}")
        # tiling by the natural sub-units, from aligned starts
        subs = []
        if u == "year" and s[2] == 1:
            subs = [("month", months)]
        if u in ("year", "month") and s[2] == 1:
            subs.append(("day", ndays))
        if u == "week" and start.isoweekday() == 1:
            subs = [("week", n), ("weekday", 7 * n)]
        if u == "month" and s[2] == 1:
            subs.append(("month", n))
        for su, cnt in subs:
            try:
                pieces = p.get_subperiods(U(su))
            except Exception as e:
                problems.append(f"{tag}.get_subperiods({su}) raised {type(e).__name__}: {e}")
                continue
            cur = start
            ok = len(pieces) == cnt
            for q in pieces:
                qs = datetime.date(*q.start)
                if qs != cur or q.size != 1 or str(q.unit) != su:
                    ok = False
                    break
                cur = end_exclusive(su, qs, 1)
            if not ok or cur != endx:
                problems.append(f"{tag}.get_subperiods({su}) does not tile the period: {[str(x) for x in pieces][:6]}... ({len(pieces)} pieces, expected {cnt})")
        # shifting by n units and back (no clipping for these starts)
        if s[2] <= 28:
            for k in (1, 2, -1):
                back = p.offset(k).offset(-k)
                if tuple(back.start) != s or back.size != n or back.unit != p.unit:
                    problems.append(f"{tag}.offset({k}).offset({-k}) = {back!r}")
                fw = p.offset(k)
                want = end_exclusive(u, start, k) if k > 0 else None
                if want is not None and datetime.date(*fw.start) != want:
                    problems.append(f"{tag}.offset({k}) starts {tuple(fw.start)}, expected {want.isoformat()}")
        # intersection with a date range inside the period
        if ndays >= 3:
            a, b = start + datetime.timedelta(days=1), last
            r = p.intersection(In((a.year, a.month, a.day)), In((b.year, b.month, b.day)))
            if r is None or datetime.date(*r.start) != a or datetime.date(*r.stop) != b:
                problems.append(f"{tag}.intersection({a}, {b}) = {r!r}")
        if len(problems) > 6:
            break
    return problems


def run(call):
    try:
        n = len(FAMILY)
        problems = check_all(list(range(n)))
        if not problems:
            problems = check_all(list(reversed(range(n))))
        if not problems:
            problems = check_all([i for i in range(n) if i % 2] + [i for i in range(n) if not i % 2])
        return {"kind": "return", "value": {"ok": not problems, "problems": problems[:4]}}
    except BaseException as ex:
        return {"kind": "raise", "exc": type(ex).__name__, "mro": [c.__name__ for c in type(ex).__mro__],
                "msg": str(ex)[:400], "tb": traceback.format_exc()[-1500:]}
