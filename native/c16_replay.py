"""Native replay for C16: preset some pieces of a long period, call the real set_input helper through
Holder.set_input, then read every piece back and compare with the specification."""
import os
import sys
import traceback

sys.path.insert(0, os.path.dirname(os.path.dirname(os.path.abspath(__file__))))
from pyvc import calmodel as M  # noqa: E402


def pieces(defp, p):
    y, m, d = p["start"]
    unit, size = p["unit"], p["size"]
    o0 = M.ordinal(y, m, d)
    t0 = 12 * y + m - 1
    if defp == "year":
        return [((t0 + 12 * i) // 12, (t0 + 12 * i) % 12 + 1, d) for i in range(size)]
    if defp == "month":
        n = 12 * size if unit == "year" else size
        return [((t0 + i) // 12, (t0 + i) % 12 + 1, d) for i in range(n)]
    if defp == "week":
        return [M.civil(o0 + 7 * i) for i in range(size)]
    if unit in ("year", "month"):
        t1 = t0 + (12 if unit == "year" else 1) * size
        end = M.om(t1) + min(d, M.dim(t1)) - 1
    elif unit == "week":
        end = o0 + 7 * size
    else:
        end = o0 + size
    return [M.civil(o) for o in range(o0, end)]


def run(mode, defp, p, amount, known):
    """known: {piece index: [values per entity]}"""
    import numpy
    from openfisca_core import entities, holders, periods, taxbenefitsystems, variables
    from openfisca_core.simulations import SimulationBuilder
    try:
        person = entities.build_entity(key="person", plural="persons", label="", is_person=True)
        tbs = taxbenefitsystems.TaxBenefitSystem([person])
        rule = holders.set_input_divide_by_period if mode == "divide" else holders.set_input_dispatch_by_period

        class v(variables.Variable):
            value_type = float
            entity = person
            definition_period = periods.DateUnit(defp)
            set_input = rule
        tbs.add_variable(v)
        N = len(amount)
        sim = SimulationBuilder().build_default_simulation(tbs, count=N)
        holder = sim.persons.get_holder("v")
        ps = pieces(defp, p)
        du = periods.DateUnit(defp)
        mk = lambda s: periods.Period((du, periods.Instant(tuple(s)), 1))
        known = {int(k): x for k, x in known.items()}
        for k, vals in known.items():
            holder._set(mk(ps[k]), numpy.array(vals, dtype=numpy.float32))
        period = periods.Period((periods.DateUnit(p["unit"]), periods.Instant(tuple(p["start"])), p["size"]))
        holder.set_input(period, numpy.array(amount, dtype=numpy.float64))
        bad = []
        unknown = [k for k in range(len(ps)) if k not in known]
        for e in range(N):
            rest = amount[e] - sum(known[k][e] for k in known)
            total = 0.0
            for k, s in enumerate(ps):
                got = float(holder.get_array(mk(s))[e])
                total += got
                if k in known:
                    exp = known[k][e]
                elif mode == "divide":
                    exp = rest / len(unknown)
                else:
                    exp = amount[e]
                if abs(got - exp) > 1e-3 * max(1.0, abs(exp)):
                    bad.append({"entity": e, "piece": list(s), "got": got, "expected": exp})
            if mode == "divide" and abs(total - amount[e]) > 1e-3 * max(1.0, abs(amount[e])):
                bad.append({"entity": e, "sum": total, "amount": amount[e]})
        return {"kind": "return", "value": {"ok": not bad, "mismatches": bad[:4]}}
    except BaseException as ex:
        return {"kind": "raise", "exc": type(ex).__name__, "mro": [c.__name__ for c in type(ex).__mro__],
                "msg": str(ex)[:300], "tb": traceback.format_exc()[-1200:]}
