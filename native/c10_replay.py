"""Native replay for C10 on a real GroupPopulation built from explicit membership arrays."""
import traceback


def build(eid, count, inrole):
    import numpy
    from openfisca_core import entities, taxbenefitsystems
    from openfisca_core.simulations import SimulationBuilder
    person = entities.build_entity(key="person", plural="persons", label="", is_person=True)
    household = entities.build_entity(key="household", plural="households", label="",
                                      roles=[{"key": "parent", "plural": "parents", "subroles": ["first_parent", "second_parent"]},
                                             {"key": "child", "plural": "children"},
                                             {"key": "referent", "plural": "referents", "max": 1}])
    tbs = taxbenefitsystems.TaxBenefitSystem([person, household])
    sim = SimulationBuilder().build_default_simulation(tbs, count=len(eid))
    hh = sim.populations["household"]
    hh.count = count
    hh.ids = [str(i) for i in range(count)]
    hh.members_entity_id = numpy.array(eid, dtype=int)
    hh._members_position = None
    hh._ordered_members_map = None
    ent = tbs.group_entities[0]
    # holders of the role "parent" hold one of its sub-roles, as the builder assigns them
    subs = [ent.FIRST_PARENT, ent.SECOND_PARENT]
    hh.members_role = [subs[k % 2] if r else ent.CHILD for k, r in enumerate(inrole)]
    return sim, hh, ent


def run(call):
    import numpy
    try:
        eid, count, inrole = call["eid"], call["count"], call["inrole"]
        sim, hh, ent = build(eid, count, inrole)
        vals = numpy.array([float(v) for v in call.get("values", [1.0] * len(eid))], dtype=float)
        role = ent.PARENT if call.get("role") else None
        op = call["op"]
        if op == "sum":
            got = hh.sum(vals, role=role)
            exp = [sum(v for v, g, r in zip(vals, eid, inrole) if g == k and (role is None or r)) for k in range(count)]
        elif op == "nb_persons":
            got = hh.nb_persons(role=role)
            exp = [sum(1 for g, r in zip(eid, inrole) if g == k and (role is None or r)) for k in range(count)]
        elif op == "value_from_person":
            # the unique role: at most one holder per group (the scenario must respect it)
            hh.members_role = [ent.REFERENT if r else ent.CHILD for r in inrole]
            got = hh.value_from_person(vals, ent.REFERENT, default=-1.0)
            exp = [next((v for v, g, r in zip(vals, eid, inrole) if g == k and r), -1.0) for k in range(count)]
        elif op == "all":
            bools = numpy.array([v > 0 for v in vals])
            got = hh.all(bools, role=role)
            exp = [all(b for b, g, r in zip(bools, eid, inrole) if g == k and (role is None or r)) for k in range(count)]
            g = [bool(x) for x in got]
            return {"kind": "return", "value": {"ok": g == exp, "got": g, "expected": exp}}
        elif op == "project":
            garr = numpy.array([100.0 * (k + 1) for k in range(count)])
            got = [float(x) for x in hh.project(garr, role=role)]
            exp = [float(garr[g]) if (role is None or r) else 0.0 for g, r in zip(eid, inrole)]
            return {"kind": "return", "value": {"ok": got == exp, "got": got, "expected": exp}}
        elif op == "all_numeric":
            # all() of a numeric array: true where every member (in the role) has a non-zero value
            got = hh.all(vals, role=role)
            exp = [all(v != 0 for v, g, r in zip(vals, eid, inrole) if g == k and (role is None or r)) for k in range(count)]
            g = [bool(x) for x in got]
            return {"kind": "return", "value": {"ok": g == exp, "got": g, "expected": exp}}
        elif op in ("max", "min"):
            got = getattr(hh, op)(vals, role=role)
            fn = max if op == "max" else min
            neutral = float("-inf") if op == "max" else float("inf")
            exp = []
            for k in range(count):
                members = [v for v, g, r in zip(vals, eid, inrole) if g == k and (role is None or r)]
                exp.append(fn(members) if members else neutral)
            g = [float(x) for x in got]
            ok = len(g) == count and all(a == b for a, b in zip(g, exp))
            return {"kind": "return", "value": {"ok": ok, "got": [repr(x) for x in g], "expected": [repr(x) for x in exp]}}
        elif op == "value_nth_person":
            n = call["n"]
            got = hh.value_nth_person(n, vals, default=-1.0)
            exp = []
            for k in range(count):
                members = [v for v, g in zip(vals, eid) if g == k]
                exp.append(members[n] if len(members) > n else -1.0)
        elif op == "projector_chains":
            # household.first_person(...) and person.household.first_person(...) on one simulation, in both orders: each chain projects
            # through its own parents (group-sized result / person-sized result)
            bad = []
            for order in ((0, 1), (1, 0)):
                sim2, hh2, _ = build(eid, count, inrole)
                pers = sim2.persons
                exp_g = [next((v for v, g in zip(vals, eid) if g == k), 0.0) for k in range(count)]
                exp_p = [exp_g[g] for g in eid]
                for which in order:
                    if which == 0:
                        r = [float(x) for x in hh2.first_person.filled_array(0.0) + hh2.value_from_first_person(vals)] if False else \
                            [float(x) for x in hh2.value_from_first_person(vals)]
                        pr = hh2.first_person
                        got = [float(x) for x in pr.transform_and_bubble_up(vals)]
                        if got != exp_g:
                            bad.append(f"household.first_person gives {got}, expected {exp_g} (order {order})")
                    else:
                        pr = pers.household.first_person
                        got = [float(x) for x in pr.transform_and_bubble_up(vals)]
                        if got != exp_p:
                            bad.append(f"person.household.first_person gives {got}, expected {exp_p} (order {order})")
            return {"kind": "return", "value": {"ok": not bad, "wrong": bad[:3]}}
        elif op == "get_rank":
            # inrole doubles as the condition; judged by the statement: -1 outside the condition; within a group the ranks of the
            # members in the condition are a permutation of 0..m-1 that follows the criterion
            cond = numpy.array(inrole, dtype=bool)
            got = [int(x) for x in sim.persons.get_rank(hh, vals, condition=cond)]
            bad = []
            if len(got) != len(eid):
                bad.append("length")
            for k in range(count):
                mem = [i for i in range(len(eid)) if eid[i] == k and inrole[i]]
                if sorted(got[i] for i in mem) != list(range(len(mem))):
                    bad.append(f"group {k}: ranks {[got[i] for i in mem]} are not a permutation of 0..{len(mem) - 1}")
                for i in mem:
                    for j in mem:
                        if vals[i] < vals[j] and not got[i] < got[j]:
                            bad.append(f"group {k}: criterion {vals[i]} < {vals[j]} but ranks {got[i]}, {got[j]}")
            bad += [f"person {i} outside the condition has rank {got[i]}" for i in range(len(eid)) if not inrole[i] and got[i] != -1]
            return {"kind": "return", "value": {"ok": not bad, "got": got, "wrong": bad[:4]}}
        else:
            raise ValueError(op)
        g = [float(x) for x in got]
        ok = len(g) == count and all(a == b or abs(a - b) < 1e-9 for a, b in zip(g, exp))     # (a == b: equal infinities)
        return {"kind": "return", "value": {"ok": ok, "got": g, "expected": [float(x) for x in exp], "groups": count}}
    except BaseException as ex:
        return {"kind": "raise", "exc": type(ex).__name__, "mro": [c.__name__ for c in type(ex).__mro__],
                "msg": str(ex)[:300], "tb": traceback.format_exc()[-1200:]}
