"""Native replay for C15: encode through the real indexed_enums code and compare with the specification."""
import traceback


def make_enum(n, name="H"):
    from openfisca_core import indexed_enums
    return indexed_enums.Enum(name, {f"m{i}": f"value {i}" for i in range(n)})


def run(call):
    import numpy
    from openfisca_core.indexed_enums import _utils
    try:
        mode = call["mode"]
        if mode == "encode-foreign-member":
            H, G = make_enum(3, "H"), make_enum(3, "G")
            vals = [G.m1, H.m0] if call.get("first") else [H.m0, G.m1]
            arr = numpy.array(vals, dtype=object) if call.get("as_array") else vals
            r = H.encode(arr)
            return {"kind": "return", "value": {"ok": False, "encoded": [int(x) for x in r]}}
        if mode == "names":
            from openfisca_core import indexed_enums
            names = call["names"]
            H = indexed_enums.Enum("H", {nm: "value " + nm for nm in names})
            vals = list(call["values"])
            arr = numpy.array(vals) if call.get("as_array") else vals
            r = _utils._str_to_index(H, arr)
            if len(r) != len(vals):
                return {"kind": "return", "value": {"ok": all(v in names for v in vals) is False, "dropped": len(vals) - len(r)}}
            bad = [(v, int(x)) for v, x in zip(vals, r) if not (0 <= int(x) < len(names)) or names[int(x)] != v]
            return {"kind": "return", "value": {"ok": not bad, "name-vs-index": bad[:4], "declared": names}}
        if mode == "encode-names":
            from openfisca_core import indexed_enums
            names = call["names"]
            H = indexed_enums.Enum("H", {nm: "value " + nm for nm in names})
            vals = list(call["values"])
            arr = numpy.array(vals) if call.get("as_array") else vals
            must_raise = any(v not in names for v in vals)
            try:
                r = H.encode(arr)
            except IndexError as e:
                return {"kind": "return", "value": {"ok": must_raise, "raised": type(e).__name__}}
            bad = [(v, int(x)) for v, x in zip(vals, r) if not (0 <= int(x) < len(names)) or names[int(x)] != v]
            return {"kind": "return", "value": {"ok": not must_raise and len(r) == len(vals) and not bad, "encoded": [int(x) for x in r], "input": vals, "declared": names}}
        n = max(1, int(call["n"]))
        H = make_enum(n)
        vals = [int(v) for v in call["values"]]
        arr = numpy.array(vals) if call.get("as_array") else vals
        if mode == "ints":
            r = _utils._int_to_index(H, arr)
            if len(r) != len(vals):
                return {"kind": "return", "value": {"ok": True, "dropped": len(vals) - len(r)}}
            bad = [(v, int(x)) for v, x in zip(vals, r) if int(x) != v or not (0 <= int(x) < n)]
            return {"kind": "return", "value": {"ok": not bad, "input-vs-index": bad[:4], "n": n}}
        if mode == "encode-ints":
            must_raise = any(v < 0 or v >= n for v in vals)
            try:
                r = H.encode(arr)
            except IndexError as e:
                return {"kind": "return", "value": {"ok": must_raise, "raised": type(e).__name__}}
            bad = [(v, int(x)) for v, x in zip(vals, r) if int(x) != v or not (0 <= int(x) < n)]
            return {"kind": "return", "value": {"ok": not must_raise and not bad, "encoded": [int(x) for x in r], "input": vals, "n": n}}
        raise ValueError(mode)
    except BaseException as ex:
        return {"kind": "raise", "exc": type(ex).__name__, "mro": [c.__name__ for c in type(ex).__mro__],
                "msg": str(ex)[:300], "tb": traceback.format_exc()[-1200:]}
