"""Native replay for C15: encode through the real indexed_enums code and compare with the specification."""
import traceback


def make_enum(n, name="H"):
    from openfisca_core import indexed_enums
    return indexed_enums.Enum(name, {f"m{i}": f"value {i}" for i in range(n)})


def run_declarations(call):
    """enumerations as declared (with and without aliases), and pairs of distinct enumerations: the class tables agree with the member
    indices, every member / name / index round-trips, members of ANOTHER enumeration are refused. Each problem has an id naming
    the specific declaration it was found on."""
    import numpy
    from openfisca_core import indexed_enums as E
    problems = []

    def declare(clsname, members):
        # members: list of (name, value); a repeated value declares an alias
        return E.Enum.__class__.__prepare__ and type(E.Enum)(clsname, (E.Enum,), _body(clsname, members))

    def _body(clsname, members):
        d = type(E.Enum).__prepare__(clsname, (E.Enum,))
        for k, v in members:
            d[k] = v
        return d
    decls = {"plain": [("a", "A"), ("b", "B"), ("c", "C")], "alias-in-the-middle": [("a", "A"), ("a_bis", "A"), ("b", "B"), ("c", "C")],
             "alias-at-the-end": [("a", "A"), ("b", "B"), ("b_bis", "B")], "one-member": [("only", "O")]}
    try:
        for did, members in decls.items():
            H = declare("H_" + did.replace("-", "_"), members)
            canon = [m for m in H]
            for i, m in enumerate(canon):
                if m.index != i:
                    problems.append({"id": f"tables:{did}", "text": f"{did}: member {m.name} has index {m.index}, it is member number {i}"})
            if len(H.indices) != len(canon) or [str(x) for x in H.names] != [m.name for m in canon] or list(H.enums) != canon:
                problems.append({"id": f"tables:{did}", "text": f"{did}: tables indices={list(H.indices)} names={list(H.names)} enums={list(H.enums)} for members {canon}"})
            for route, vals in (("members", canon), ("names", [m.name for m in canon]), ("indices", [m.index for m in canon])):
                try:
                    back = list(H.encode(list(vals)).decode())
                except Exception as e:
                    problems.append({"id": f"round-trip:{did}:{route}", "text": f"{did}: encoding its {route} raised {type(e).__name__}: {e}"})
                    continue
                if back != canon:
                    problems.append({"id": f"round-trip:{did}:{route}", "text": f"{did}: {route} {vals} decode to {back}"})
            for bad in ([len(canon)], [-1], ["zzz"]):
                try:
                    r = H.encode(bad)
                    problems.append({"id": f"refusal:{did}:{bad[0]}", "text": f"{did}: {bad} was encoded to {list(r)}"})
                except Exception:
                    pass
            for empty in ([], numpy.array([], dtype=int)):
                try:
                    if list(H.encode(empty).decode()) != [] or list(H.encode(empty).decode_to_str()) != []:
                        problems.append({"id": f"empty:{did}", "text": f"{did}: an empty input does not decode to nothing"})
                except Exception as e:
                    problems.append({"id": f"empty:{did}", "text": f"{did}: encoding / decoding an empty input raised {type(e).__name__}"})
        pairs = {"other-name-other-members": (("H1", [("a", "A"), ("b", "B")]), ("G1", [("x", "X"), ("y", "Y")])),
                 "other-name-same-member-names": (("Consent", [("yes", "Y"), ("no", "N")]), ("Residency", [("yes", "1"), ("no", "2")])),
                 "same-name-other-members": (("Status", [("a", "A"), ("b", "B")]), ("Status", [("x", "X"), ("y", "Y")])),
                 "same-name-same-member-names-other-order": (("Zone", [("one", "1"), ("two", "2")]), ("Zone", [("two", "2"), ("one", "1")]))}
        for pid, ((n1, m1), (n2, m2)) in pairs.items():
            H, G = declare(n1, m1), declare(n2, m2)
            foreign = list(G)
            for how, val in (("list", [foreign[0], foreign[1]]), ("array", numpy.array([foreign[1], foreign[0]], dtype=object)), ("mixed", [list(H)[0], foreign[1]])):
                try:
                    r = H.encode(val)
                    problems.append({"id": f"foreign:{pid}", "text": f"{pid}: {n1}.encode of members of another enumeration {n2} ({how}) gave {[int(x) for x in r]} instead of raising"})
                    break
                except Exception:
                    pass
        return {"kind": "return", "value": {"ok": not problems, "problems": problems}}
    except BaseException as ex:
        return {"kind": "raise", "exc": type(ex).__name__, "mro": [c.__name__ for c in type(ex).__mro__],
                "msg": str(ex)[:300], "tb": traceback.format_exc()[-1200:]}


def run(call):
    if call.get("mode") == "declarations":
        return run_declarations(call)
    import numpy
    from openfisca_core.indexed_enums import _utils
    try:
        mode = call["mode"]
        if mode == "encode-foreign-member":
            H, G = make_enum(3, "H"), make_enum(3, "G")
            vals = [G.m1, H.m0] if call.get("first") else [H.m0, G.m1]
            arr = numpy.array(vals, dtype=object) if call.get("as_array") else vals
            r = H.encode(arr)
            return {"kind": "return", "value": {"ok": False, "encoded": [int(x) for x in r]}}
        if mode == "encode-unsupported":
            # sequences holding an element of an unsupported type (a float, a name among indices, an index among names): every one
            # must be refused, wherever the unsupported element stands
            H = make_enum(3, "H")
            accepted = []
            for vals in call["sequences"]:
                try:
                    r = H.encode(list(vals))
                    accepted.append({"input": vals, "encoded": [int(x) for x in r]})
                except Exception:
                    pass
            return {"kind": "return", "value": {"ok": not accepted, "accepted-though-not-all-elements-are-members-names-or-indices": accepted[:4]}}
        if mode == "names":
            from openfisca_core import indexed_enums
            names = call["names"]
            if call.get("earlier_names"):
                # history: an enumeration of the same name declared with other names / another order was encoded before
                H0 = indexed_enums.Enum("H", {nm: "value " + nm for nm in call["earlier_names"]})
                _utils._str_to_index(H0, list(call["earlier_names"]))
            H = indexed_enums.Enum("H", {nm: "value " + nm for nm in names})
            vals = list(call["values"])
            arr = numpy.array(vals) if call.get("as_array") else vals
            r = _utils._str_to_index(H, arr)
            if len(r) != len(vals):
                return {"kind": "return", "value": {"ok": all(v in names for v in vals) is False, "dropped": len(vals) - len(r)}}
            bad = [(v, int(x)) for v, x in zip(vals, r) if not (0 <= int(x) < len(names)) or names[int(x)] != v]
            return {"kind": "return", "value": {"ok": not bad, "name-vs-index": bad[:4], "declared": names}}
        if mode == "encode-names":
            from openfisca_core import indexed_enums
            names = call["names"]
            H = indexed_enums.Enum("H", {nm: "value " + nm for nm in names})
            vals = list(call["values"])
            arr = numpy.array(vals) if call.get("as_array") else vals
            must_raise = any(v not in names for v in vals)
            try:
                r = H.encode(arr)
            except IndexError as e:
                return {"kind": "return", "value": {"ok": must_raise, "raised": type(e).__name__}}
            bad = [(v, int(x)) for v, x in zip(vals, r) if not (0 <= int(x) < len(names)) or names[int(x)] != v]
            return {"kind": "return", "value": {"ok": not must_raise and len(r) == len(vals) and not bad, "encoded": [int(x) for x in r], "input": vals, "declared": names}}
        n = max(1, int(call["n"]))
        H = make_enum(n)
        vals = [int(v) for v in call["values"]]
        arr = numpy.array(vals) if call.get("as_array") else vals
        if mode == "ints":
            r = _utils._int_to_index(H, arr)
            if len(r) != len(vals):
                return {"kind": "return", "value": {"ok": True, "dropped": len(vals) - len(r)}}
            bad = [(v, int(x)) for v, x in zip(vals, r) if int(x) != v or not (0 <= int(x) < n)]
            return {"kind": "return", "value": {"ok": not bad, "input-vs-index": bad[:4], "n": n}}
        if mode == "encode-ints":
            must_raise = any(v < 0 or v >= n for v in vals)
            try:
                r = H.encode(arr)
            except IndexError as e:
                return {"kind": "return", "value": {"ok": must_raise, "raised": type(e).__name__}}
            bad = [(v, int(x)) for v, x in zip(vals, r) if int(x) != v or not (0 <= int(x) < n)]
            return {"kind": "return", "value": {"ok": not must_raise and not bad, "encoded": [int(x) for x in r], "input": vals, "n": n}}
        raise ValueError(mode)
    except BaseException as ex:
        return {"kind": "raise", "exc": type(ex).__name__, "mro": [c.__name__ for c in type(ex).__mro__],
                "msg": str(ex)[:300], "tb": traceback.format_exc()[-1200:]}
