"""Native scenarios for C19 (dump / restore)."""
import tempfile
import traceback


def round_trip():
    """a simulation with roles of different key lengths and sub-roles, an enum, an eternal, a week-defined and an end-dated variable:
    dumped, restored, compared entity by entity and holder by holder; then the same calculations on both"""
    import numpy
    from openfisca_core import entities, periods, taxbenefitsystems, variables
    from openfisca_core.indexed_enums import Enum
    from openfisca_core.simulations import SimulationBuilder
    from openfisca_core.tools import simulation_dumper
    person = entities.build_entity(key="person", plural="persons", label="", is_person=True)
    household = entities.build_entity(key="household", plural="households", label="",
                                      roles=[{"key": "kid", "plural": "kids"}, {"key": "adult", "plural": "adults", "subroles": ["first_adult", "second_adult"]},
                                             {"key": "dependent", "plural": "dependents"}])
    tbs = taxbenefitsystems.TaxBenefitSystem([person, household])
    M, W, Y, ET = periods.DateUnit.MONTH, periods.DateUnit.WEEK, periods.DateUnit.YEAR, periods.DateUnit.ETERNITY

    class Status(Enum):
        owner = "o"
        tenant = "t"
        free = "f"

    def var(name, vt, ent, dp, **kw):
        return type(name, (variables.Variable,), dict(value_type=vt, entity=ent, definition_period=dp, **kw))

    def nb_dependents(household, period):
        return household.nb_persons(household.entity.DEPENDENT)

    def pay_total(household, period):
        return household.sum(household.members("pay", period))
    vs = [var("salary", float, person, M), var("age", int, person, M), var("birth", int, person, ET), var("pay", float, person, W),
          var("status", Enum, household, M, possible_values=Status, default_value=Status.tenant), var("rent", float, household, M),
          var("allowance", float, household, M, end="2016-11-30"), var("flag", bool, person, Y),
          var("nb_dependents", int, household, M, formula=nb_dependents), var("pay_total", float, household, W, formula=pay_total)]
    for v in vs:
        tbs.add_variable(v)
    sim = SimulationBuilder().build_from_dict(tbs, {
        "persons": {"z": {"salary": {"2020-01": 10}, "age": {"2020-01": 40}, "birth": {"ETERNITY": 1980}, "pay": {"2020-W01": 700, "2020-W02": 50}, "flag": {"2020": True}},
                    "a": {"salary": {"2020-01": 20, "2020-02": 21}, "age": {"2020-01": 7}, "birth": {"ETERNITY": 2013}, "pay": {"2020-W01": 20}},
                    "m": {"salary": {"2020-01": 30}, "age": {"2020-01": 70}, "birth": {"ETERNITY": 1950}},
                    "k": {"salary": {"2020-01": 40}, "age": {"2020-01": 3}, "birth": {"ETERNITY": 2017}}},
        "households": {"h2": {"adults": ["m"], "kids": ["k"], "status": {"2020-01": "owner"}, "rent": {"2020-01": 7}},
                       "h1": {"adults": ["z"], "dependents": ["a"], "status": {"2020-01": "free"}, "rent": {"2020-01": 5}},
                       "h3": {"adults": [], "rent": {"2020-01": 9}}}})
    sim.calculate("allowance", "2017-01")         # a value cached for a period after the variable's end date
    sim.calculate("nb_dependents", "2020-01")
    bad = []
    with tempfile.TemporaryDirectory(dir="/var/tmp") as d:
        simulation_dumper.dump_simulation(sim, d + "/dump")
        try:
            sim2 = simulation_dumper.restore_simulation(d + "/dump", tbs)
        except Exception as e:
            return [f"restore failed: {type(e).__name__}: {str(e)[:200]}"]
        for key, pop in sim.populations.items():
            pop2 = sim2.populations[key]
            if pop.count != pop2.count or list(pop.ids) != list(pop2.ids):
                bad.append(f"{key}: count / ids differ: {pop2.count} {list(pop2.ids)} vs {pop.count} {list(pop.ids)}")
            if key != "person":
                for attr in ("members_entity_id", "members_position"):
                    if list(getattr(pop, attr)) != list(getattr(pop2, attr)):
                        bad.append(f"{key}.{attr} differs: {list(getattr(pop2, attr))} vs {list(getattr(pop, attr))}")
                if [str(r) for r in pop.members_role] != [str(r) for r in pop2.members_role]:
                    bad.append(f"{key}.members_role differs: {[str(r) for r in pop2.members_role]} vs {[str(r) for r in pop.members_role]}")
            for name, holder in pop._holders.items():
                h2 = pop2._holders.get(name)
                known = sorted(str(p) for p in holder.get_known_periods())
                known2 = sorted(str(p) for p in h2.get_known_periods()) if h2 is not None else None
                if known != known2:
                    bad.append(f"{name}: periods held {known2} vs {known}")
                    continue
                for p in holder.get_known_periods():
                    a1, a2 = holder.get_array(p), h2.get_array(p)
                    if a2 is None or type(a1) is not type(a2) or a1.dtype != a2.dtype or a1.tolist() != a2.tolist():
                        bad.append(f"{name}@{p}: restored {a2!r}, original {a1!r}")
        for name, p in (("nb_dependents", "2020-01"), ("pay_total", "2020-W01"), ("pay_total", "2020-W02"), ("salary", "2020-02"), ("status", "2020-01"), ("birth", "2020-01")):
            try:
                r1, r2 = sim.calculate(name, p).tolist(), sim2.calculate(name, p).tolist()
            except Exception as e:
                bad.append(f"{name}@{p}: {type(e).__name__}: {e}")
                continue
            if [str(x) for x in r1] != [str(x) for x in r2]:
                bad.append(f"{name}@{p}: the restored simulation calculates {r2}, the original {r1}")
    return bad


def run(scenario):
    import numpy
    from openfisca_core import entities, periods, taxbenefitsystems, variables
    from openfisca_core.simulations import SimulationBuilder
    from openfisca_core.tools import simulation_dumper
    try:
        person = entities.build_entity(key="person", plural="persons", label="", is_person=True)
        household = entities.build_entity(key="household", plural="households", label="", roles=[{"key": "member", "plural": "members"}])
        tbs = taxbenefitsystems.TaxBenefitSystem([person, household])

        class salary(variables.Variable):
            value_type = float
            entity = person
            definition_period = periods.DateUnit.MONTH

        class rent(variables.Variable):
            value_type = float
            entity = household
            definition_period = periods.DateUnit.MONTH
        tbs.add_variable(salary)
        tbs.add_variable(rent)
        bad = []
        if scenario == "trailing-empty-group":
            sim = SimulationBuilder().build_from_dict(tbs, {
                "persons": {"a": {"salary": {"2020-01": 10}}, "b": {"salary": {"2020-01": 20}}},
                "households": {"h1": {"members": ["a", "b"], "rent": {"2020-01": 5}}, "h2": {"members": [], "rent": {"2020-01": 7}}}})
            with tempfile.TemporaryDirectory(dir="/var/tmp") as d:
                simulation_dumper.dump_simulation(sim, d + "/dump")
                try:
                    sim2 = simulation_dumper.restore_simulation(d + "/dump", tbs)
                except Exception as e:
                    return {"kind": "return", "value": {"ok": False, "detail": [f"restore failed: {type(e).__name__}: {str(e)[:150]}"]}}
                if sim2.household.count != sim.household.count:
                    bad.append(f"restored {sim2.household.count} households, original has {sim.household.count}")
                if sim2.get_array("rent", "2020-01").tolist() != sim.get_array("rent", "2020-01").tolist():
                    bad.append("rent differs")
        elif scenario == "round-trip":
            bad = round_trip()
        elif scenario == "restore-twice":
            # the same directory restored, replaced by another dump (moved into place), restored again: the second restore holds the
            # second dump's values
            import os
            import shutil
            def sim_with(v):
                return SimulationBuilder().build_from_dict(tbs, {
                    "persons": {"a": {"salary": {"2020-01": v}}, "b": {"salary": {"2020-01": 2 * v}}},
                    "households": {"h1": {"members": ["a", "b"], "rent": {"2020-01": v + 1}}}})
            with tempfile.TemporaryDirectory(dir="/var/tmp") as d:
                simulation_dumper.dump_simulation(sim_with(10), d + "/dump")
                s1 = simulation_dumper.restore_simulation(d + "/dump", tbs)
                first = s1.get_array("salary", "2020-01").tolist()
                simulation_dumper.dump_simulation(sim_with(500), d + "/staging")
                shutil.rmtree(d + "/dump")
                os.rename(d + "/staging", d + "/dump")
                s2 = simulation_dumper.restore_simulation(d + "/dump", tbs)
                got = s2.get_array("salary", "2020-01").tolist()
                if got != [500.0, 1000.0] or s2.get_array("rent", "2020-01").tolist() != [501.0]:
                    bad.append(f"the second restore of the directory holds salary {got} (the first dump had {first}), the dump now in place has [500.0, 1000.0]")
        elif scenario == "no-group-entity":
            tbs1 = taxbenefitsystems.TaxBenefitSystem([person])
            tbs1.add_variable(salary)
            sim = SimulationBuilder().build_from_dict(tbs1, {"persons": {"a": {"salary": {"2020-01": 10}}, "b": {"salary": {"2020-01": 20}}}})
            with tempfile.TemporaryDirectory(dir="/var/tmp") as d:
                simulation_dumper.dump_simulation(sim, d + "/dump")
                try:
                    sim2 = simulation_dumper.restore_simulation(d + "/dump", tbs1)
                except Exception as e:
                    return {"kind": "return", "value": {"ok": False, "detail": [f"a system without group entity: restore failed: {type(e).__name__}: {str(e)[:150]}"]}}
                if sim2.persons.count != 2 or list(sim2.persons.ids) != ["a", "b"] or sim2.get_array("salary", "2020-01").tolist() != [10.0, 20.0]:
                    bad.append("persons / salary differ after restoring a system without group entity")
        else:
            raise ValueError(scenario)
        return {"kind": "return", "value": {"ok": not bad, "detail": bad[:4]}}
    except BaseException as ex:
        return {"kind": "raise", "exc": type(ex).__name__, "mro": [c.__name__ for c in type(ex).__mro__],
                "msg": str(ex)[:300], "tb": traceback.format_exc()[-1500:]}
