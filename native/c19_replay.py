"""Native scenarios for C19 (dump / restore)."""
import tempfile
import traceback


def run(scenario):
    import numpy
    from openfisca_core import entities, periods, taxbenefitsystems, variables
    from openfisca_core.simulations import SimulationBuilder
    from openfisca_core.tools import simulation_dumper
    try:
        person = entities.build_entity(key="person", plural="persons", label="", is_person=True)
        household = entities.build_entity(key="household", plural="households", label="", roles=[{"key": "member", "plural": "members"}])
        tbs = taxbenefitsystems.TaxBenefitSystem([person, household])

        class salary(variables.Variable):
            value_type = float
            entity = person
            definition_period = periods.DateUnit.MONTH

        class rent(variables.Variable):
            value_type = float
            entity = household
            definition_period = periods.DateUnit.MONTH
        tbs.add_variable(salary)
        tbs.add_variable(rent)
        bad = []
        if scenario == "trailing-empty-group":
            sim = SimulationBuilder().build_from_dict(tbs, {
                "persons": {"a": {"salary": {"2020-01": 10}}, "b": {"salary": {"2020-01": 20}}},
                "households": {"h1": {"members": ["a", "b"], "rent": {"2020-01": 5}}, "h2": {"members": [], "rent": {"2020-01": 7}}}})
            with tempfile.TemporaryDirectory(dir="/var/tmp") as d:
                simulation_dumper.dump_simulation(sim, d + "/dump")
                try:
                    sim2 = simulation_dumper.restore_simulation(d + "/dump", tbs)
                except Exception as e:
                    return {"kind": "return", "value": {"ok": False, "detail": [f"restore failed: {type(e).__name__}: {str(e)[:150]}"]}}
                if sim2.household.count != sim.household.count:
                    bad.append(f"restored {sim2.household.count} households, original has {sim.household.count}")
                if sim2.get_array("rent", "2020-01").tolist() != sim.get_array("rent", "2020-01").tolist():
                    bad.append("rent differs")
        else:
            raise ValueError(scenario)
        return {"kind": "return", "value": {"ok": not bad, "detail": bad}}
    except BaseException as ex:
        return {"kind": "raise", "exc": type(ex).__name__, "mro": [c.__name__ for c in type(ex).__mro__],
                "msg": str(ex)[:300], "tb": traceback.format_exc()[-1500:]}
