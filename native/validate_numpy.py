#!/venv/bin/python
"""Validates the assumed numpy contracts of pyvc/nparr.py against real numpy (DESIGN 2.6):
each axiom is an executable statement checked on exhaustive small shapes and random arrays."""
import json
import random
import sys

import numpy as np


def main():
    tier = sys.argv[1] if len(sys.argv) > 1 else "quick"
    seed = int(sys.argv[2]) if len(sys.argv) > 2 else 0
    rnd = random.Random(seed)
    N = 400 if tier == "quick" else 20000
    bad = []
    cases = 0

    def check(name, cond):
        nonlocal cases
        cases += 1
        if not cond:
            bad.append(name)
    for _ in range(N):
        n = rnd.randint(0, 6)
        a = np.array([rnd.randint(-5, 5) for _ in range(n)], dtype=np.float64)
        b = np.array([rnd.randint(-5, 5) for _ in range(n)], dtype=np.float64)
        k = rnd.randint(1, 7)
        # elementwise algebra, scalar broadcasting
        check("sub", all((a - b)[i] == a[i] - b[i] for i in range(n)))
        check("add", all((a + b)[i] == a[i] + b[i] for i in range(n)))
        check("mul", all((a * b)[i] == a[i] * b[i] for i in range(n)))
        check("div-scalar", all((a / k)[i] == a[i] / k for i in range(n)))
        check("cmp", all((a == 0)[i] == (a[i] == 0) for i in range(n)) and all((a >= b)[i] == (a[i] >= b[i]) for i in range(n)))
        check("all", bool((a == 0).all()) == all(a[i] == 0 for i in range(n)))
        check("any", bool((a == 0).any()) == any(a[i] == 0 for i in range(n)))
        # copy is independent; in-place ops keep identity and are seen by aliases
        c = a.copy()
        alias = c
        c -= b
        check("copy-independent", all(a[i] == (c + b)[i] for i in range(n)))
        check("inplace-identity", alias is c)
        # array / asarray of a list keep the values; asarray of an array is the array
        lst = [float(x) for x in a]
        check("array-of-list", list(np.array(lst)) == lst and len(np.array(lst)) == n)
        check("asarray-identity", np.asarray(a) is a)
        check("astype-keeps-values", all(a.astype(np.float32)[i] == a[i] for i in range(n)))
        check("len-size", len(a) == a.size == n and a.ndim == 1)
        check("full", list(np.full(n, 3.5)) == [3.5] * n and list(np.zeros(n)) == [0.0] * n)
        if n:
            idx = np.array([rnd.randint(-n, n - 1) for _ in range(rnd.randint(0, 5))], dtype=int)
            check("fancy", all(a[idx][i] == a[idx[i]] for i in range(len(idx))) and len(a[idx]) == len(idx))
        # group reductions
        G = rnd.randint(0, 5)
        ids = np.array([rnd.randint(0, max(G - 1, 0)) for _ in range(n)], dtype=int) if G else np.array([], dtype=int)
        w2 = a[:len(ids)]
        ml = rnd.randint(0, 7)
        bc = np.bincount(ids, weights=w2, minlength=ml)
        check("bincount-length", len(bc) == max(ml, (int(ids.max()) + 1) if len(ids) else 0))
        check("bincount-sum", all(abs(bc[g] - sum(w2[i] for i in range(len(ids)) if ids[i] == g)) < 1e-9 for g in range(len(bc))))
        check("bincount-count", list(np.bincount(ids, minlength=ml)) == [sum(1 for x in ids if x == g) for g in range(max(ml, (int(ids.max()) + 1) if len(ids) else 0))])
        m = np.array([rnd.random() < 0.5 for _ in range(len(ids))], dtype=bool)
        bm = np.bincount(ids[m], weights=w2[m], minlength=ml)
        check("bincount-masked", all(abs(bm[g] - sum(w2[i] for i in range(len(ids)) if ids[i] == g and m[i])) < 1e-9 for g in range(len(bm))))
        check("where", all(np.where(m, w2, 0)[i] == (w2[i] if m[i] else 0) for i in range(len(ids))))
        if n:
            check("max", a.max() == max(a) and np.max(a) in list(a))
            z = np.zeros(n); z[rnd.randint(0, n - 1)] += 1
            check("item-assign", z.sum() == 1)
        check("mask-select", list(a[a > 0]) == [x for x in a if x > 0] and (len(a[a > 0]) == n) == all(x > 0 for x in a))
        # 2-D algebra used by the tax scales
        nb = rnd.randint(1, 4)
        t = np.array(sorted(rnd.sample(range(0, 20), nb)), dtype=float)
        rates = np.array([rnd.randint(0, 5) / 10 for _ in range(nb)])
        if n:
            base1 = np.tile(a, (nb, 1)).T
            check("tile-T", base1.shape == (n, nb) and all(base1[i, k] == a[i] for i in range(n) for k in range(nb)))
            fac = np.ones(n) * 2.0
            th1 = np.outer(fac, np.array([*t, np.inf]))
            check("outer-inf", th1.shape == (n, nb + 1) and all(th1[i, k] == 2.0 * t[k] for i in range(n) for k in range(nb)) and all(np.isinf(th1[i, nb]) for i in range(n)))
            aa = np.maximum(np.minimum(base1, th1[:, 1:]) - th1[:, :-1], 0)
            check("min-max-slices", all(aa[i, k] == max(min(a[i], th1[i, k + 1]) - th1[i, k], 0) for i in range(n) for k in range(nb)))
            d = np.dot(rates, aa.T)
            check("dot-vM", all(abs(d[i] - sum(rates[k] * aa[i, k] for k in range(nb))) < 1e-9 for i in range(n)))
            check("dot-Mv", all(abs(np.dot(aa, rates)[i] - sum(aa[i, k] * rates[k] for k in range(nb))) < 1e-9 for i in range(n)))
            check("rowsum", list((base1 - th1[:, :-1] >= 0).sum(axis=1)) == [sum(1 for k in range(nb) if a[i] - th1[i, k] >= 0) for i in range(n)])
            check("hstack", list(np.hstack((t, np.inf)))[:-1] == list(t) and np.isinf(np.hstack((t, np.inf))[-1]))
            check("eps-small", np.finfo(np.float64).eps < 1e-15)
            g = np.array([-np.inf, *t, np.inf])
            dg = np.digitize(a, g)
            check("digitize", all(1 <= dg[i] <= nb + 1 and g[dg[i] - 1] <= a[i] < g[dg[i]] for i in range(n)))
        ints = np.array([rnd.randint(-300, 600) for _ in range(n)])
        check("astype-uint8-wraps", all(int(ints.astype(np.uint8)[i]) == int(ints[i]) % 256 for i in range(n)))
    print(json.dumps({"name": "numpy array algebra axioms (pyvc/nparr.py) vs numpy " + np.__version__, "ok": not bad,
                      "cases": cases, "detail": repr(sorted(set(bad))[:6])}))


main()
