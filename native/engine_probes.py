"""Native probe scenarios for the engine contracts (C01 / C02 / C17 / C18): small rule systems and request histories on the
real code, judged by the statements (fresh-simulation equivalence, precedence, configuration independence, reusability
after a failure). Used only to attach a failing input to an obligation that already failed: never a verdict of their own."""
import itertools
import traceback

FAIL = {"on": False}


def build(config="plain"):
    import numpy
    from openfisca_core import entities, periods, taxbenefitsystems, variables, holders
    from openfisca_core.simulations import SimulationBuilder
    from openfisca_core.indexed_enums import Enum
    person = entities.build_entity(key="person", plural="persons", label="", is_person=True)
    tbs = taxbenefitsystems.TaxBenefitSystem([person])
    M = periods.DateUnit.MONTH

    class Status(Enum):
        a = "a"
        b = "b"

    class salary(variables.Variable):
        value_type = float
        entity = person
        definition_period = M
        set_input = holders.set_input_divide_by_period

    class base(variables.Variable):
        value_type = int
        entity = person
        definition_period = M

        def formula(p, period):
            return p.filled_array(7)

    class tax(variables.Variable):
        value_type = float
        entity = person
        definition_period = M
        end = "2030-12-31"

        def formula_2000(p, period):
            return p("salary", period) * 0.1

        def formula_2015(p, period):
            return p("salary", period) * 0.2

    class net(variables.Variable):
        value_type = float
        entity = person
        definition_period = M

        def formula(p, period):
            return p("salary", period) - p("tax", period) + p("base", period)

    class status(variables.Variable):
        value_type = Enum
        possible_values = Status
        default_value = Status.b
        entity = person
        definition_period = M

    class fragile(variables.Variable):
        value_type = int
        entity = person
        definition_period = M

        def formula(p, period):
            v = p("base", period) + 1
            if FAIL["on"] == "interrupt":
                raise KeyboardInterrupt()
            if FAIL["on"]:
                raise RuntimeError("injected failure")
            return v

    class wrapper(variables.Variable):
        value_type = int
        entity = person
        definition_period = M

        def formula(p, period):
            return p("fragile", period) * 2

    class stock(variables.Variable):
        value_type = float
        entity = person
        definition_period = M

        def formula(p, period):
            return p("stock", period.last_month) + p("flow", period)

    class flow(variables.Variable):
        value_type = float
        entity = person
        definition_period = M

        def formula(p, period):
            return p.filled_array(1.0)

    class yearly(variables.Variable):
        value_type = float
        entity = person
        definition_period = periods.DateUnit.YEAR

        def formula(p, period):
            return p("net", period, options=[periods.ADD]) if hasattr(periods, "ADD") else p.filled_array(0.0)
    class deep(variables.Variable):
        value_type = float
        entity = person
        definition_period = M

        def formula(p, period):
            return p("net", period) + p("tax", period)

    class flags(variables.Variable):
        value_type = int
        entity = person
        definition_period = M

        def formula(p, period):
            return (p("base", period) > 1) + (p("base", period) > 2)
    class loop_a(variables.Variable):
        value_type = int
        entity = person
        definition_period = M

        def formula(p, period):
            return p("loop_b", period) + 1

    class loop_b(variables.Variable):
        value_type = int
        entity = person
        definition_period = M

        def formula(p, period):
            return p("loop_a", period) + 1

    class wrongsize(variables.Variable):
        value_type = float
        entity = person
        definition_period = M

        def formula(p, period):
            return numpy.zeros(p.count + 1) if FAIL["on"] == "size" else p.filled_array(3.0)

    class label(variables.Variable):
        value_type = str
        entity = person
        definition_period = M

    class flag(variables.Variable):
        value_type = bool
        entity = person
        definition_period = M

    class wide(variables.Variable):
        value_type = int
        entity = person
        definition_period = M

        def formula(p, period):
            return numpy.array([3_000_000_000, 7], dtype=numpy.int64)

    class twice_wide(variables.Variable):
        value_type = float
        entity = person
        definition_period = M

        def formula(p, period):
            return p("wide", period) * 2.0

    class midmonth(variables.Variable):
        value_type = int
        entity = person
        definition_period = M

        def formula_2015_03_15(p, period):
            return p.filled_array(20)

        def formula_2014_01_01(p, period):
            return p.filled_array(10)
    tbs.add_variables(salary, base, tax, net, status, fragile, wrapper, stock, flow, flags, deep, label, flag, wide, twice_wide, midmonth, loop_a, loop_b, wrongsize)
    if config == "neutralized":
        tbs.neutralize_variable("tax")
    if config == "neutralized-status":
        tbs.neutralize_variable("status")
    if config == "blacklist":
        tbs.cache_blacklist = {"base", "tax"}
    sim = SimulationBuilder().build_default_simulation(tbs, count=2)
    if config == "trace":
        sim.trace = True
    if config == "disk":
        from openfisca_core.experimental import MemoryConfig
        sim.memory_config = MemoryConfig(max_memory_occupation=0)
        for pop in sim.populations.values():
            pop._holders = {}
        sim._holders = {} if hasattr(sim, "_holders") else None
    if config == "blacklist":
        sim.opt_out_cache = True
    return tbs, sim


def inputs(sim):
    import numpy
    sim.set_input("salary", "2016-01", numpy.array([1000.0, 2000.0]))
    sim.set_input("salary", "2016-02", numpy.array([1100.0, 2100.0]))
    sim.set_input("salary", "2010-01", numpy.array([500.0, 600.0]))
    sim.set_input("stock", "2015-12", numpy.array([100.0, 200.0]))


REQUESTS = [("net", "2016-01"), ("tax", "2016-02"), ("tax", "2010-01"), ("net", "2016-02"), ("base", "2016-01"), ("stock", "2016-02"),
            ("stock", "2016-01"), ("wrapper", "2016-01"), ("tax", "2031-01"), ("status", "2016-01")]


def fresh_value(name, period, config="plain"):
    tbs, sim = build(config)
    inputs(sim)
    return sim.calculate(name, period).tolist()


def norm(v):
    return [str(x) if not isinstance(x, (int, float)) else float(x) for x in v]


def scenario_precedence():
    problems = []
    tbs, sim = build()
    inputs(sim)
    import numpy
    sim.set_input("tax", "2016-01", numpy.array([1.0, 2.0]))
    if sim.calculate("tax", "2016-01").tolist() != [1.0, 2.0]:
        problems.append("a supplied input does not take precedence over the formula")
    if norm(sim.calculate("tax", "2016-02").tolist()) != norm([220.0, 420.0]):
        problems.append(f"formula in force in 2016 not used: {sim.calculate('tax', '2016-02').tolist()}")
    if norm(sim.calculate("tax", "2010-01").tolist()) != norm([50.0, 60.0]):
        problems.append(f"formula in force in 2010 not used: {sim.calculate('tax', '2010-01').tolist()}")
    if sim.calculate("tax", "2031-01").tolist() != [0.0, 0.0]:
        problems.append("after its end date a variable does not yield its default")
    r = sim.calculate("status", "2016-01")
    if type(r).__name__ != "EnumArray" or [str(x) for x in r.decode()] != ["Status.b", "Status.b"]:
        problems.append(f"an enum variable without formula does not yield an enum array of its default: {r!r}")
    if str(sim.calculate("base", "2016-01").dtype) != "int32" or str(sim.calculate("net", "2016-01").dtype) != "float32":
        problems.append("results do not have the declared dtype")
    if norm(sim.calculate("stock", "2016-01").tolist()) != [101.0, 201.0]:
        problems.append(f"a recurrence does not start from the input supplied for the month before: stock@2016-01 = {sim.calculate('stock', '2016-01').tolist()}, expected [101, 201]")
    if sim.persons.get_holder("stock").get_array(__import__("openfisca_core").periods.period("2015-12")) is None:
        problems.append("the input supplied for stock@2015-12 was deleted")
    r = sim.calculate("flags", "2016-01")
    if str(r.dtype) != "int32" or r.tolist() != [1, 1]:
        problems.append(f"an int variable whose formula adds two comparisons yields {r!r}")
    r = sim.calculate("label", "2016-01")
    if r.dtype != object or r.tolist() != ["", ""]:
        problems.append(f"a text variable without formula does not yield its default '' : {r!r}")
    r = sim.calculate("flag", "2016-01")
    if r.dtype != bool or r.tolist() != [False, False]:
        problems.append(f"a boolean variable without formula does not yield its default False: {r!r}")
    a, b = sim.calculate("wide", "2016-01"), sim.calculate("wide", "2016-01")
    if str(a.dtype) != "int32" or a.tolist() != b.tolist():
        problems.append(f"an int variable whose formula returns a wider integer array: first read {a!r}, second read {b!r}")
    tbs5, sim5 = build()
    first = sim5.calculate("twice_wide", "2016-01").tolist()
    tbs6, sim6 = build()
    sim6.calculate("wide", "2016-01")
    if first != sim6.calculate("twice_wide", "2016-01").tolist():
        problems.append(f"a dependant of an int variable depends on whether that variable was computed before: {first} vs {sim6.calculate('twice_wide', '2016-01').tolist()}")
    if sim.calculate("midmonth", "2015-03").tolist() != [10, 10] or sim.calculate("midmonth", "2015-04").tolist() != [20, 20]:
        problems.append(f"a formula starting on 2015-03-15 is in force for 2015-03: {sim.calculate('midmonth', '2015-03').tolist()} (the formula in force at the period's start gives 10)")
    # ADD over a year twice, then the first month again
    for k in range(2):
        y = sim.calculate_add("base", "2016")
        if y.tolist() != [84, 84]:
            problems.append(f"calculate_add(base, 2016) #{k + 1} = {y.tolist()}, expected [84, 84]")
    if sim.calculate("base", "2016-01").tolist() != [7, 7]:
        problems.append(f"base@2016-01 reads {sim.calculate('base', '2016-01').tolist()} after a yearly sum")
    tbs3, sim3 = build("blacklist")
    inputs(sim3)
    sim3.set_input("tax", "2016-01", numpy.array([1.0, 2.0]))
    if sim3.calculate("tax", "2016-01").tolist() != [1.0, 2.0] or norm(sim3.calculate("net", "2016-01").tolist()) != [1006.0, 2005.0]:
        problems.append(f"with the cache opted out, an input on a blacklisted variable is not read: tax = {sim3.calculate('tax', '2016-01').tolist()}")
    tbs4, sim4 = build("neutralized-status")
    r = sim4.calculate("status", "2016-01")
    if type(r).__name__ != "EnumArray":
        problems.append(f"a neutralised enum variable yields {r!r}, not an enum array")
    tbs2, sim2 = build("neutralized")
    inputs(sim2)
    sim2.set_input("tax", "2016-01", numpy.array([1.0, 2.0]))
    if sim2.calculate("tax", "2016-01").tolist() != [0.0, 0.0]:
        problems.append("a neutralised variable does not yield its default")
    for s_, bad in ((sim2, "2016"), (sim2, "month:2016-01:3"), (sim, "2016")):
        try:
            r = s_.calculate("tax", bad)
            problems.append(f"a plain request of the monthly variable tax for the period {bad} returned {r.tolist()} instead of being refused")
        except ValueError:
            pass
    return problems


def scenario_order(config="plain"):
    problems = []
    expected = {}
    for name, period in REQUESTS:
        if name == "wrapper":
            FAIL["on"] = False
        expected[(name, period)] = norm(fresh_value(name, period))
    for seq in list(itertools.permutations(REQUESTS[:6], 3))[::7] + [tuple(REQUESTS)]:
        tbs, sim = build(config)
        inputs(sim)
        for name, period in seq:
            got = norm(sim.calculate(name, period).tolist())
            if got != expected[(name, period)]:
                problems.append(f"[{config}] after {list(seq)}: {name}@{period} = {got}, a fresh simulation gives {expected[(name, period)]}")
                return problems
            if sim.tracer.stack:
                problems.append(f"[{config}] the evaluation stack is not empty after a request: {sim.tracer.stack}")
                return problems
        # every value still readable is what a fresh simulation computes
        for name, period in REQUESTS:
            h = sim.persons.get_holder(name)
            from openfisca_core import periods as P
            a = h.get_array(P.period(period))
            if a is not None and norm(a.tolist()) != expected[(name, period)] and name != "stock":
                problems.append(f"[{config}] after {list(seq)}: the holder of {name} keeps {norm(a.tolist())} for {period}, a fresh simulation gives {expected[(name, period)]}")
                return problems
    return problems


def scenario_failure(config="plain"):
    problems = []
    tbs, sim = build(config)
    inputs(sim)
    FAIL["on"] = True
    try:
        try:
            sim.calculate("wrapper", "2016-01")
            problems.append("the injected failure did not propagate")
        except RuntimeError:
            pass
    finally:
        FAIL["on"] = False
    if sim.tracer.stack:
        problems.append(f"[{config}] the evaluation stack is not empty after a failed request: {sim.tracer.stack}")
    from openfisca_core import periods as P
    for name in ("wrapper", "fragile"):
        if sim.persons.get_holder(name).get_array(P.period("2016-01")) is not None:
            problems.append(f"[{config}] a value was recorded for {name}, whose computation did not complete")
    for name, period in REQUESTS:
        got = norm(sim.calculate(name, period).tolist())
        exp = norm(fresh_value(name, period))
        if got != exp:
            problems.append(f"[{config}] after a failed request {name}@{period} = {got}, a fresh simulation gives {exp}")
            break
    # a formula whose result has not one value per entity: refused, nothing recorded, and the request succeeds once it is repaired
    FAIL["on"] = "size"
    try:
        try:
            r = sim.calculate("wrongsize", "2016-01")
            problems.append(f"[{config}] a formula result of the wrong length was accepted: {r.tolist()}")
        except ValueError:
            pass
    finally:
        FAIL["on"] = False
    if sim.persons.get_holder("wrongsize").get_array(P.period("2016-01")) is not None:
        problems.append(f"[{config}] a formula result of the wrong length was recorded")
    try:
        if sim.calculate("wrongsize", "2016-01").tolist() != [3.0, 3.0]:
            problems.append(f"[{config}] once the formula is repaired the request does not give its value")
    except Exception as e:
        problems.append(f"[{config}] once the formula is repaired the request still fails: {type(e).__name__}")
    if config == "trace":
        trees = sim.tracer.trees
        if len(trees) != 3 + len(REQUESTS):
            problems.append(f"[trace] {len(trees)} trees for {1 + len(REQUESTS)} top-level requests: later requests were not logged at top level")
    return problems


def scenario_trace():
    problems = []
    tbs, sim = build("trace")
    inputs(sim)
    sim.calculate("net", "2016-01")
    tree = sim.tracer.trees[-1]
    kids = [(c.name, str(c.period)) for c in tree.children]
    if kids != [("salary", "2016-01"), ("tax", "2016-01"), ("base", "2016-01")]:
        problems.append(f"the trace of net lists {kids}, the formula read salary, tax, base at 2016-01 in that order")
    flat = sim.tracer.get_flat_trace()
    dep = flat.get("net<2016-01>", {}).get("dependencies")
    if dep != ["salary<2016-01>", "tax<2016-01>", "base<2016-01>"]:
        problems.append(f"the flat trace of net lists {dep}")
    sim.calculate("net", "2016-01")
    if len(sim.tracer.trees) != 2 or sim.tracer.trees[-1].children:
        problems.append("a cached re-read is not logged as a request without reads of its own")
    # a variable first computed deep in a tree and read again from the cache closer to the root keeps the reads of its computation
    tbs, sim = build("trace")
    inputs(sim)
    sim.calculate("deep", "2016-01")
    dep = sim.tracer.get_flat_trace().get("tax<2016-01>", {}).get("dependencies")
    if dep != ["salary<2016-01>"]:
        problems.append(f"the flat trace of tax lists {dep}, its formula read salary<2016-01>")
    return problems


def scenario_interrupt_and_cycle():
    problems = []
    from openfisca_core import errors, periods as P_
    for spelling in ("2016-01", P_.period("2016-01")):
        tbs, sim = build()
        try:
            r = sim.calculate("loop_a", spelling)
            problems.append(f"a circular definition asked for the period {spelling!r} returned {r.tolist()} instead of a circular-definition error")
        except errors.CycleError:
            pass
        if sim.tracer.stack:
            problems.append("the evaluation stack is not empty after a refused circular request")
    tbs, sim = build()
    inputs(sim)
    FAIL["on"] = "interrupt"
    try:
        try:
            sim.calculate("wrapper", "2016-01")
        except KeyboardInterrupt:
            pass
    finally:
        FAIL["on"] = False
    if sim.tracer.stack:
        problems.append(f"the evaluation stack is not empty after an interrupted request: {sim.tracer.stack}")
    else:
        try:
            if sim.calculate("wrapper", "2016-01").tolist() != [16, 16]:
                problems.append("the request does not succeed once the interruption is gone")
        except Exception as e:
            problems.append(f"after an interrupted request the same request fails with {type(e).__name__}: {e}")
    return problems


def scenario_delete(config="plain"):
    """deleting one definition period / a longer period removes exactly the stored periods inside, under the storage setting"""
    import numpy
    from openfisca_core import periods as P
    problems = []
    for target, gone, kept in (("2016-01", ["2016-01"], ["2016-02", "2010-01"]), ("2016", ["2016-01", "2016-02"], ["2010-01"])):
        tbs, sim = build(config)
        inputs(sim)
        sim.delete_arrays("salary", target)
        h = sim.persons.get_holder("salary")
        for p in gone:
            if h.get_array(P.period(p)) is not None:
                problems.append(f"[{config}] after delete_arrays(salary, {target}) the value for {p} is still readable")
        for p in kept:
            if h.get_array(P.period(p)) is None:
                problems.append(f"[{config}] delete_arrays(salary, {target}) also removed {p}")
    # some periods held in memory and others on disk: both kinds go
    tbs, sim = build("plain")
    inputs(sim)
    h = sim.persons.get_holder("salary")
    h._disk_storage = h.create_disk_storage()
    h._on_disk_storable = True
    h._disk_storage.put(numpy.array([7.0, 8.0], dtype=numpy.float32), P.period("2016-03"))
    sim.delete_arrays("salary", "2016")
    for p in ("2016-01", "2016-02", "2016-03"):
        if h.get_array(P.period(p)) is not None:
            problems.append(f"[memory and disk] after delete_arrays(salary, 2016) the value for {p} is still readable")
    if h.get_array(P.period("2010-01")) is None:
        problems.append("[memory and disk] delete_arrays(salary, 2016) also removed 2010-01")
    return problems


def build_spiral(unit, stride, max_loops):
    """a(P) = 5 + b(P shifted back by `stride` units); b(P) = 6 + a(P): a quasi-circular chain across periods"""
    from openfisca_core import entities, periods, taxbenefitsystems, variables
    from openfisca_core.simulations import SimulationBuilder
    person = entities.build_entity(key="person", plural="persons", label="", is_person=True)
    tbs = taxbenefitsystems.TaxBenefitSystem([person])
    U = periods.DateUnit(unit)

    class sp_a(variables.Variable):
        value_type = int
        entity = person
        definition_period = U

        def formula(p, period):
            return 5 + p("sp_b", period.offset(-stride))

    class sp_b(variables.Variable):
        value_type = int
        entity = person
        definition_period = U

        def formula(p, period):
            return 6 + p("sp_a", period)
    tbs.add_variables(sp_a, sp_b)
    sim = SimulationBuilder().build_default_simulation(tbs, count=1)
    sim.max_spiral_loops = max_loops
    return sim


def scenario_spirals():
    """quasi-circular chains (monthly and daily, strides 1 and 2, one or two allowed re-entries, with and without an input lying
    between two periods of the chain): after each top-level request every input is still readable with its value, and every other
    readable value is what a fresh simulation given the inputs and the other readable values computes (the statement's closing
    clause, checked on these histories only)"""
    from openfisca_core import periods as P
    problems = []
    setups = [("month", 1, 1, "2013-06", None), ("month", 1, 2, "2013-06", None), ("month", 2, 1, "2013-06", ("sp_a", "2013-05", 100)),
              ("month", 2, 2, "2013-07", ("sp_a", "2013-04", 100)), ("day", 1, 1, "2013-03-01", None), ("day", 1, 2, "2013-03-02", None),
              ("day", 2, 1, "2013-03-02", ("sp_a", "2013-03-01", 100)), ("month", 1, 1, "2013-06", ("sp_b", "2013-04", 50))]
    for unit, stride, loops, first, given in setups:
        tag = f"[{unit} chain, stride {stride}, max_spiral_loops {loops}, input {given}]"
        sim = build_spiral(unit, stride, loops)
        if given:
            sim.set_input(given[0], given[1], [given[2]])
        requests = [("sp_a", first), ("sp_b", str(P.period(first).offset(-1))), ("sp_a", str(P.period(first).offset(1)))]
        for name, per in requests:
            sim.calculate(name, per)
            readable = {}
            for v in ("sp_a", "sp_b"):
                h = sim.persons.get_holder(v)
                for kp in h.get_known_periods():
                    readable[(v, str(kp))] = h.get_array(kp).tolist()
            if given and readable.get((given[0], str(P.period(given[1])))) != [given[2]]:
                problems.append(f"{tag} after calculate({name}, {per}) the input {given[0]}@{given[1]} = {given[2]} reads {readable.get((given[0], str(P.period(given[1]))))}")
                break
            for (v, kp), val in readable.items():
                if given and (v, kp) == (given[0], str(P.period(given[1]))):
                    continue
                fresh = build_spiral(unit, stride, loops)
                for (v2, kp2), val2 in readable.items():
                    if (v2, kp2) != (v, kp):
                        fresh.set_input(v2, kp2, val2)
                want = fresh.calculate(v, kp).tolist()
                if want != val:
                    problems.append(f"{tag} after calculate({name}, {per}) the simulation keeps {v}@{kp} = {val}; a fresh simulation given the inputs and the other readable values computes {want}")
                    break
            if problems:
                break
        if problems:
            break
    return problems


def storage_delete_problems():
    """deleting a period from a store removes exactly the stored periods it contains: day, week, weekday, month and year periods,
    in memory and on disk"""
    import numpy
    import shutil
    import tempfile
    from openfisca_core import periods as P
    from openfisca_core.data_storage import InMemoryStorage, OnDiskStorage
    problems = []
    stored = ["2020-02-28", "2020-02-29", "2020-03-01", "2020-02", "2020-03", "2020", "2021", "week:2020-W09", "week:2020-W10", "weekday:2020-W09-5", "2020-03-02",
              "month:2020-02:3", "year:2020-03"]
    for target in ["2020-02-29", "2020-02", "2020", "week:2020-W09", "weekday:2020-W09-5", "month:2020-02:2", "day:2020-02-28:3", "year:2020:2"]:
        t = P.period(target)
        t0, t1 = t.start.date, t.stop.date
        for kind in ("memory", "disk"):
            d = tempfile.mkdtemp(prefix="pyvc_store_") if kind == "disk" else None
            try:
                st = OnDiskStorage(d) if kind == "disk" else InMemoryStorage()
                for k, ptxt in enumerate(stored):
                    st.put(numpy.array([float(k)]), P.period(ptxt))
                st.delete(t)
                for k, ptxt in enumerate(stored):
                    q = P.period(ptxt)
                    inside = t0 <= q.start.date and q.stop.date <= t1
                    got = st.get(q)
                    if inside and got is not None:
                        problems.append(f"[{kind} store] after delete({target}) the stored period {ptxt}, which lies inside, is still there")
                    if not inside and (got is None or got.tolist() != [float(k)]):
                        problems.append(f"[{kind} store] delete({target}) also removed or changed the stored period {ptxt}, which does not lie inside")
            finally:
                st = None     # (the disk store removes its directory when it is collected)
                if d:
                    shutil.rmtree(d, ignore_errors=True)
            if problems:
                return problems
    return problems


def storage_reread_problems():
    """a period stored, read, stored again (with and without a deletion in between) and read again gives the array stored last"""
    import numpy
    import shutil
    import tempfile
    from openfisca_core import periods as P
    from openfisca_core.data_storage import InMemoryStorage, OnDiskStorage
    problems = []
    for kind in ("memory", "disk"):
        for with_delete in (False, True):
            d = tempfile.mkdtemp(prefix="pyvc_store_") if kind == "disk" else None
            try:
                st = OnDiskStorage(d) if kind == "disk" else InMemoryStorage()
                p = P.period("2020-02")
                st.put(numpy.array([1.0, 2.0]), p)
                st.get(p)
                if with_delete:
                    st.delete(p)
                st.put(numpy.array([3.0, 4.0]), p)
                got = st.get(p)
                if got is None or got.tolist() != [3.0, 4.0]:
                    problems.append(f"[{kind} store] put, get, {'delete, ' if with_delete else ''}put again, get: reads {None if got is None else got.tolist()}, the array stored last is [3.0, 4.0]")
            finally:
                st = None
                if d:
                    shutil.rmtree(d, ignore_errors=True)
    return problems


def scenario_trace_values():
    """the value recorded for a request in the trace is the value that request returned - also when the same variable and period was
    traced before with another value (input deleted and given anew in between)"""
    import numpy
    problems = []
    tbs, sim = build("trace")
    inputs(sim)
    first = sim.calculate("net", "2016-01")
    sim.delete_arrays("net", "2016-01")
    sim.delete_arrays("salary", "2016-01")
    sim.set_input("salary", "2016-01", numpy.array([3000.0, 4000.0]))
    second = sim.calculate("net", "2016-01")
    node = sim.tracer.trees[-1]
    if node.value is None or node.value.tolist() != second.tolist():
        problems.append(f"the trace records {None if node.value is None else node.value.tolist()} for net@2016-01, the request returned {second.tolist()} (an earlier request had returned {first.tolist()})")
    kid = [c for c in node.children if c.name == "salary"]
    if not kid or kid[0].value.tolist() != [3000.0, 4000.0]:
        problems.append(f"the trace records {kid[0].value.tolist() if kid else None} for the read of salary@2016-01, the read returned [3000.0, 4000.0]")
    return problems


def run(call):
    try:
        which = call.get("scenarios") or ["precedence", "order", "order-trace", "order-disk", "order-blacklist", "failure", "failure-trace", "trace",
                                          "delete", "delete-disk", "interrupt-and-cycle", "trace-values", "storage-delete", "storage-reread", "spirals"]
        problems = []
        for s in which:
            if s == "precedence":
                problems += scenario_precedence()
            elif s.startswith("order"):
                problems += scenario_order(s.split("-", 1)[1] if "-" in s else "plain")
            elif s.startswith("failure"):
                problems += scenario_failure(s.split("-", 1)[1] if "-" in s else "plain")
            elif s == "trace":
                problems += scenario_trace()
            elif s == "trace-values":
                problems += scenario_trace_values()
            elif s == "interrupt-and-cycle":
                problems += scenario_interrupt_and_cycle()
            elif s == "storage-delete":
                problems += storage_delete_problems()
            elif s == "storage-reread":
                problems += storage_reread_problems()
            elif s == "spirals":
                problems += scenario_spirals()
            elif s.startswith("delete"):
                problems += scenario_delete(s.split("-", 1)[1] if "-" in s else "plain")
            if problems:
                break
        return {"kind": "return", "value": {"ok": not problems, "problems": problems[:3]}}
    except BaseException as ex:
        return {"kind": "raise", "exc": type(ex).__name__, "mro": [c.__name__ for c in type(ex).__mro__],
                "msg": str(ex)[:400], "tb": traceback.format_exc()[-1500:]}
