#!/venv/bin/python
"""Native replay, stage 1: rebuild the inputs of a counterexample, call the REAL function from /repo and
print the outcome as JSON. Runs under /venv/bin/python with PYTHONPATH=/repo (no z3 needed).

usage: harness.py <replay.json>   (prints one JSON object on the last line of stdout)"""
import importlib
import json
import sys
import traceback


def decode(v):
    from openfisca_core import periods
    if isinstance(v, dict) and "t" in v:
        t = v["t"]
        if t == "Instant":
            return periods.Instant(tuple(v["v"]))
        if t == "Period":
            return periods.Period((periods.DateUnit(v["unit"]), periods.Instant(tuple(v["start"])), v["size"]))
        if t == "DateUnit":
            return periods.DateUnit(v["v"])
        if t == "tuple":
            return tuple(decode(x) for x in v["v"])
        if t == "list":
            return [decode(x) for x in v["v"]]
        if t == "dict":
            return {k: decode(x) for k, x in v["v"].items()}
        if t == "real":
            from fractions import Fraction
            return float(Fraction(v["v"][0], v["v"][1]))
        raise ValueError(f"unknown tag {t}")
    return v


def encode(v):
    import datetime
    from openfisca_core import periods
    if isinstance(v, periods.Period):
        return {"t": "Period", "unit": str(v[0].value if hasattr(v[0], "value") else v[0]), "start": [int(x) for x in v[1]], "size": int(v[2])}
    if isinstance(v, periods.Instant):
        return {"t": "Instant", "v": [int(x) for x in v]}
    if isinstance(v, periods.DateUnit):
        return {"t": "DateUnit", "v": v.value}
    if isinstance(v, datetime.date):
        return {"t": "date", "v": [v.year, v.month, v.day]}
    if isinstance(v, bool) or v is None or isinstance(v, (int, str)):
        return v
    if isinstance(v, float):
        return {"t": "float", "v": v}
    if isinstance(v, tuple):
        return {"t": "tuple", "v": [encode(x) for x in v]}
    if isinstance(v, list):
        return {"t": "list", "v": [encode(x) for x in v]}
    if isinstance(v, dict):
        return {"t": "dict", "v": {str(k): encode(x) for k, x in v.items()}}
    try:
        import numpy
        if isinstance(v, numpy.ndarray):
            return {"t": "array", "dtype": str(v.dtype), "v": v.tolist()}
        if isinstance(v, numpy.generic):
            return encode(v.item())
    except ImportError:
        pass
    return {"t": "repr", "v": repr(v)}


def resolve(qual):
    parts = qual.split(".")
    for i in range(len(parts), 0, -1):
        try:
            obj = importlib.import_module(".".join(parts[:i]))
        except ImportError:
            continue
        for p in parts[i:]:
            obj = getattr(obj, p) if not isinstance(obj, type) or p not in vars(obj) else vars(obj)[p]
        return obj, parts[i:]
    raise ImportError(qual)


def run(call):
    custom = call.get("script")
    if custom:
        ns = {"decode": decode, "encode": encode, "call": call}
        exec(compile(custom, "<replay-script>", "exec"), ns)
        return ns["outcome"]
    kind = call.get("kind", "function")
    args = [decode(a) for a in call.get("args", [])]
    kwargs = {k: decode(v) for k, v in call.get("kwargs", {}).items()}
    name = call["callee"].rsplit(".", 1)[1]
    try:
        if kind == "property":
            r = getattr(decode(call["self"]), name)
        elif kind == "method":
            r = getattr(decode(call["self"]), name)(*args, **kwargs)
        else:
            f, _ = resolve(call["callee"])
            r = f(*args, **kwargs)
        return {"kind": "return", "value": encode(r)}
    except BaseException as e:  # the outcome includes exceptions
        return {"kind": "raise", "exc": type(e).__name__, "mro": [c.__name__ for c in type(e).__mro__],
                "msg": str(e)[:300], "tb": traceback.format_exc()[-1500:]}


if __name__ == "__main__":
    data = json.load(open(sys.argv[1]))
    out = run(data["call"])
    print(json.dumps(out))
