"""C15 -- enum values survive encoding and decoding; invalid ones are rejected (DESIGN 4 C15).
Contracts over the numpy array algebra on the real indexed_enums functions. An enumeration is modelled as a class
with a symbolic number n of members (1 <= n <= 256): indices = [0..n), names pairwise distinct, enums[i].index == i."""
from __future__ import annotations

import z3

from pyvc import builtins_ as B
from pyvc import nparr
from pyvc import smt
from pyvc.contract import Contract
from pyvc.values import Builtin, ClassVal, DictVal, ExcVal, ListVal, Obj, Opaque, SeqVal, Sym, SymList, TupleVal, Unsupported

from .common import *  # noqa
from .c18_engine import rec, log_of

IE = "openfisca_core.indexed_enums"
ENUM = f"{IE}.enum.Enum"
EARR = f"{IE}.enum_array.EnumArray"
STR = z3.DeclareSort("Str")


class EnumWorld:
    """two enumerations H (the one under test, n members) and G (another one)"""

    def __init__(self, I, ctx):
        base = I.resolve_qualified(ENUM)
        self.n = ctx.fresh_int("n")
        ctx.assume(z3.And(self.n >= 1, self.n <= 256))
        self.NAME = z3.Function(ctx.fresh_name("NAME"), z3.IntSort(), STR)
        a, b = z3.Ints("a_nm b_nm")
        ctx.assume(z3.ForAll([a, b], z3.Implies(z3.And(0 <= a, a < b, b < self.n), self.NAME(a) != self.NAME(b)),
                             patterns=[z3.MultiPattern(self.NAME(a), self.NAME(b))]))
        self.GNAME = z3.Function(ctx.fresh_name("GNAME"), z3.IntSort(), STR)
        self.H = ClassVal("H", None, [base], {})
        self.G = ClassVal("G", None, [base], {})
        n = self.n
        self.H.ns["indices"] = nparr.NArr(n, lambda i: B.wrap(B._z(i)), "uint8", "indices")
        self.H.ns["names"] = nparr.NArr(n, lambda i: Opaque(self.NAME(B._z(i)), "name", {}), "str", "names")
        self.H.ns["enums"] = nparr.NArr(n, lambda i: self.member(self.H, B._z(i)), "object", "enums")
        self.G.ns["indices"] = nparr.NArr(3, lambda i: B.wrap(B._z(i)), "uint8", "indices")

    def member(self, cls, idx):
        nm = self.NAME if cls is self.H else self.GNAME
        return B.SymRec(cls, {"index": B.wrap(idx) if not isinstance(idx, int) else idx, "__owner__": cls.name,
                              "name": Opaque(nm(B._z(idx) if not isinstance(idx, int) else z3.IntVal(idx)), "name", {})})


def is_member_of(v, cls):
    return isinstance(v, B.SymRec) and v.cls is cls


def data_of(r):
    return r if isinstance(r, nparr.NArr) else None


# ----------------------------------------------------------------------
class IntToIndex(Contract):
    name = f"{IE}._utils._int_to_index"
    prop = ("C15",)
    top_level = True
    cases = ("list", "ndarray")
    descr = ("integers are kept only when they designate a member: if nothing was dropped, every result element equals the input "
             "and lies in [0, n)")

    def setup(self, I, ctx, case):
        w = EnumWorld(I, ctx)
        L = ctx.fresh_int("L")
        ctx.assume(L >= 1)
        X = z3.Function(ctx.fresh_name("X"), z3.IntSort(), z3.IntSort())
        if case == "list":
            value = SymList(SeqVal(L, lambda i: Sym(X(B._z(i))), "ints"))
        else:
            value = nparr.NArr(L, lambda i: Sym(X(B._z(i))), "int", "ints")
        return {"enum_class": w.H, "value": value, "__w": w, "__L": L, "__X": X}

    def post(self, I, ctx, a, out, old):
        w, L, X = a["__w"], a["__L"], a["__X"]
        if out[0] != "return" or not isinstance(out[1], nparr.NArr):
            return [("returns-an-index-array", False)]
        r = out[1]
        i = ctx.fresh_int("i")
        rng = z3.And(i >= 0, i < L)
        kept_all = B._z(r.n) == L
        ri = B.zint(r.elem(i))
        return [("never-longer-than-the-input", B._z(r.n) <= L),
                ("when-nothing-is-dropped-every-index-designates-a-member", z3.Implies(z3.And(kept_all, rng), z3.And(ri >= 0, ri < w.n))),
                ("when-nothing-is-dropped-every-index-is-the-input", z3.Implies(z3.And(kept_all, rng), ri == X(i)))]

    def small_model(self, I, case, a):
        return [a["__L"] <= 3, a["__w"].n <= 4]

    def call_descriptor(self, I, case, a, ev):
        L = ev(a["__L"])
        if L > 50:
            return None
        xs = [ev(a["__X"](z3.IntVal(i))) for i in range(L)]
        return {"callee": self.name, "script": NATIVE, "mode": "ints", "n": min(ev(a["__w"].n), 200), "values": xs, "as_array": case == "ndarray"}

    def judge_native(self, I, case, call, nat):
        return judge(nat)


class StrToIndex(Contract):
    name = f"{IE}._utils._str_to_index"
    prop = ("C15",)
    top_level = True
    cases = ("list", "ndarray", "list-after-a-same-named-enumeration-was-encoded")
    descr = ("names are kept only when they are names of members: if nothing was dropped, every result element is the index of "
             "the member bearing the name given (whatever the order in which the enumeration declares its members, and whatever "
             "enumeration of the same name - the metaclass compares and hashes enumerations by name - was looked up before)")

    def setup(self, I, ctx, case):
        w = EnumWorld(I, ctx)
        L = ctx.fresh_int("L")
        ctx.assume(L >= 1)
        V = z3.Function(ctx.fresh_name("V"), z3.IntSort(), STR)
        mk = lambda i: Opaque(V(B._z(i)), "name", {})
        value = SymList(SeqVal(L, mk, "names")) if case != "ndarray" else nparr.NArr(L, mk, "str", "names")
        if case.startswith("list-after"):
            # history: another enumeration with the same class name (as many members, other names / another order) had names
            # looked up before, through the real function
            NAME0 = z3.Function(ctx.fresh_name("NAME_earlier"), z3.IntSort(), STR)
            p, q = z3.Ints("a_n0 b_n0")
            ctx.assume(z3.ForAll([p, q], z3.Implies(z3.And(0 <= p, p < q, q < w.n), NAME0(p) != NAME0(q)), patterns=[z3.MultiPattern(NAME0(p), NAME0(q))]))
            H0 = ClassVal("H", None, list(w.H.bases), {})
            H0.ns["indices"] = w.H.ns["indices"]
            H0.ns["names"] = nparr.NArr(w.n, lambda i: Opaque(NAME0(B._z(i)), "name", {}), "str", "names-earlier")
            V0 = z3.Function(ctx.fresh_name("V_earlier"), z3.IntSort(), STR)
            L0 = ctx.fresh_int("L_earlier")
            ctx.assume(L0 >= 1)
            f, _ = self.target(I)
            ctx.depth += 1
            try:
                I.inline_call(ctx, f, [], {"enum_class": H0, "value": SymList(SeqVal(L0, lambda i: Opaque(V0(B._z(i)), "name", {}), "names-earlier"))})
            finally:
                ctx.depth -= 1
        return {"enum_class": w.H, "value": value, "__w": w, "__L": L, "__V": V}

    def post(self, I, ctx, a, out, old):
        w, L, V = a["__w"], a["__L"], a["__V"]
        if out[0] != "return" or not isinstance(out[1], nparr.NArr):
            return [("returns-an-index-array", False)]
        r = out[1]
        i = ctx.fresh_int("i")
        rng = z3.And(i >= 0, i < L)
        kept_all = B._z(r.n) == L
        ri = B.zint(r.elem(i))
        return [("never-longer-than-the-input", B._z(r.n) <= L),
                ("when-nothing-is-dropped-every-index-designates-a-member", z3.Implies(z3.And(kept_all, rng), z3.And(ri >= 0, ri < w.n))),
                ("when-nothing-is-dropped-every-index-is-the-member-bearing-the-name", z3.Implies(z3.And(kept_all, rng), w.NAME(ri) == V(i)))]

    def small_model(self, I, case, a):
        return [a["__L"] <= 3, a["__w"].n <= 4]

    def call_descriptor(self, I, case, a, ev_):
        return None       # the model's string order is uninterpreted: the probes replay

    def probes(self, case):
        import itertools
        out = []
        for names in (["b", "c", "a"], ["c", "a", "b"], ["d", "b", "a", "c"], ["a", "b"], ["z", "y", "x", "w", "v"]):
            out.append({"callee": self.name, "script": NATIVE, "mode": "names", "names": names, "values": names + names[::-1], "as_array": case == "ndarray"})
            if case.startswith("list-after"):
                out[-1]["earlier_names"] = names[::-1]
                out.append(dict(out[-1], earlier_names=sorted(names)))
        return out

    def judge_native(self, I, case, call, nat):
        return judge(nat)


NATIVE = "import sys; sys.path.insert(0, '/verif/native')\nimport c15_replay\noutcome = c15_replay.run(call)\n"


def judge(nat):
    if nat.get("kind") == "harness-error":
        return "undecided", str(nat)[:300]
    if nat["kind"] == "raise":
        return "violates", "unexpected " + nat.get("exc", "") + ": " + nat.get("msg", "")
    return ("satisfies", "as specified") if nat["value"].get("ok") else ("violates", str(nat["value"])[:300])


class EnumToIndex(Contract):
    name = f"{IE}._utils._enum_to_index"
    prop = ("C15",)
    descr = "members are turned into their indices, in order"

    def setup(self, I, ctx, case):
        w = EnumWorld(I, ctx)
        L = ctx.fresh_int("L")
        ctx.assume(L >= 1)
        X = z3.Function(ctx.fresh_name("XI"), z3.IntSort(), z3.IntSort())
        i = z3.Int("i_x")
        ctx.assume(z3.ForAll([i], z3.And(X(i) >= 0, X(i) < w.n)))
        return {"value": SymList(SeqVal(L, lambda j: w.member(w.H, X(B._z(j))), "members")), "__w": w, "__L": L, "__X": X}

    def post(self, I, ctx, a, out, old):
        L, X = a["__L"], a["__X"]
        if out[0] != "return" or not isinstance(out[1], nparr.NArr):
            return [("returns-an-index-array", False)]
        r = out[1]
        i = ctx.fresh_int("i")
        return [("one-index-per-member", B._z(r.n) == L),
                ("index-of-each-member-in-order", z3.Implies(z3.And(i >= 0, i < L), B.zint(r.elem(i)) == X(i)))]


class EncodeArrayLike(Contract):
    name = f"{ENUM}._encode_array_like"
    prop = ("C15",)
    top_level = True
    cases = ("ints", "members", "names", "member-of-another-enum-second", "member-of-another-enum-first", "floats", "numpy-float-scalars",
             "mixed-int-and-str", "index-then-float", "member-then-index")
    descr = ("a sequence is encoded to the indices of the members it designates, in order; anything that is not a member of this "
             "enumeration (index out of range on either side, member of another enumeration, unsupported element type) raises")
    inline = (f"{IE}._guards.*", f"{IE}._utils.*", f"{EARR}.__new__", f"{IE}._errors.*")

    def setup(self, I, ctx, case):
        w = EnumWorld(I, ctx)
        L = ctx.fresh_int("L")
        ctx.assume(L >= 1)
        X = z3.Function(ctx.fresh_name("X"), z3.IntSort(), z3.IntSort())
        a = {"cls": w.H, "__w": w, "__L": L, "__X": X, "__case": case}
        if case == "ints":
            a["value"] = SymList(SeqVal(L, lambda i: Sym(X(B._z(i))), "ints"))
        elif case == "members":
            i = z3.Int("i_x")
            ctx.assume(z3.ForAll([i], z3.And(X(i) >= 0, X(i) < w.n)))
            a["value"] = SymList(SeqVal(L, lambda j: w.member(w.H, X(B._z(j))), "members"))
        elif case == "names":
            V = z3.Function(ctx.fresh_name("V"), z3.IntSort(), STR)
            a["__V"] = V
            a["value"] = SymList(SeqVal(L, lambda j: Opaque(V(B._z(j)), "name", {"cls": I.builtins["str"]}), "names"))
        elif case == "member-of-another-enum-second":
            ctx.assume(z3.And(X(0) >= 0, X(0) < w.n))
            a["value"] = ListVal([w.member(w.H, X(0)), w.member(w.G, 1)])
        elif case == "member-of-another-enum-first":
            ctx.assume(z3.And(X(1) >= 0, X(1) < w.n))
            a["value"] = ListVal([w.member(w.G, 1), w.member(w.H, X(1))])
        elif case == "floats":
            a["value"] = ListVal([1.5, 2.5])
        elif case == "index-then-float":
            a["value"] = ListVal([0, 1.5])
        elif case == "member-then-index":
            ctx.assume(z3.And(X(0) >= 0, X(0) < w.n))
            a["value"] = ListVal([w.member(w.H, X(0)), 0])
        elif case == "numpy-float-scalars":
            f64 = ClassVal("float64", None, [I.builtins["float"]], {}, external="numpy.float64")
            from pyvc.values import NpScalar
            a["value"] = ListVal([NpScalar(ctx.fresh_real("x%d" % k), "float", f64) for k in range(2)])
        else:
            a["value"] = ListVal([0, "x"])
        return a

    def post(self, I, ctx, a, out, old):
        w, L, X, case = a["__w"], a["__L"], a["__X"], a["__case"]
        if case in ("member-of-another-enum-second", "member-of-another-enum-first"):
            return [("member-of-another-enumeration-refused", out[0] == "raise")]
        if case in ("floats", "mixed-int-and-str", "numpy-float-scalars", "index-then-float", "member-then-index"):
            return [("unsupported-elements-refused", out[0] == "raise" and out[1].cls.name in ("EnumEncodingError", "EnumMemberNotFoundError", "TypeError"))]
        i = ctx.fresh_int("i")
        rng = z3.And(i >= 0, i < L)
        if out[0] == "raise":
            if case == "members":
                return [("members-of-this-enumeration-are-accepted", False)]
            j = z3.Int("j_bad")
            if case == "names":
                k = z3.Int("k_nm")
                return [("raises-only-when-some-name-is-no-member's",
                         z3.And(z3.BoolVal(out[1].cls.name == "EnumMemberNotFoundError"),
                                z3.Exists([j], z3.And(j >= 0, j < L, z3.ForAll([k], z3.Implies(z3.And(k >= 0, k < w.n), w.NAME(k) != a["__V"](j)))))))]
            return [("raises-only-when-some-index-designates-no-member",
                     z3.And(z3.BoolVal(out[1].cls.name == "EnumMemberNotFoundError"),
                            z3.Exists([j], z3.And(j >= 0, j < L, z3.Or(X(j) < 0, X(j) >= w.n)))))]
        r = data_of(out[1])
        if r is None or r.cls_override is None or r.cls_override.name != "EnumArray":
            return [("returns-an-enum-array", False)]
        ri = B.zint(r.elem(i))
        return [("result-belongs-to-this-enumeration", r.attrs.get("possible_values") is w.H),
                ("one-index-per-element", B._z(r.n) == L),
                ("every-index-designates-a-member", z3.Implies(rng, z3.And(ri >= 0, ri < w.n))),
                ("every-index-is-the-member-given", z3.Implies(rng, ri == X(i)) if case != "names" else z3.Implies(rng, w.NAME(ri) == a["__V"](i)))]

    def small_model(self, I, case, a):
        return [a["__L"] <= 3, a["__w"].n <= 4]

    def call_descriptor(self, I, case, a, ev):
        if case == "ints":
            L = ev(a["__L"])
            if L > 50:
                return None
            return {"callee": self.name, "script": NATIVE, "mode": "encode-ints", "n": min(ev(a["__w"].n), 200),
                    "values": [ev(a["__X"](z3.IntVal(i))) for i in range(L)], "as_array": False}
        if case.startswith("member-of-another"):
            return {"callee": self.name, "script": NATIVE, "mode": "encode-foreign-member", "first": case.endswith("first"), "as_array": False}
        return None

    def probes(self, case):
        if case.startswith("member-of-another"):
            return [{"callee": self.name, "script": NATIVE, "mode": "encode-foreign-member", "first": case.endswith("first"), "as_array": False}]
        if case == "names":
            return [{"callee": self.name, "script": NATIVE, "mode": "encode-names", "names": nm, "values": vals, "as_array": False}
                    for nm in (["b", "c", "a"], ["d", "b", "a", "c"]) for vals in (nm[::-1], nm + ["nobody"], ["nobody"] + nm[:1], nm[:1] * 3)]
        if case in ("floats", "mixed-int-and-str", "numpy-float-scalars", "index-then-float", "member-then-index"):
            return [{"callee": self.name, "script": NATIVE, "mode": "encode-unsupported",
                     "sequences": [[0, "x"], ["m0", 1], [0, 1.5], [1, 2.0], [1.5, 2.5], [1.0], [0, 1, 0.5], ["m1", 2.0], [2, "m1"], [0, None]]}]
        return []

    def judge_native(self, I, case, call, nat):
        if call["mode"] == "encode-names":
            return judge(nat)
        if call["mode"] == "encode-foreign-member":
            if nat.get("kind") == "raise":
                return "satisfies", "refused"
            return "violates", "a member of another enumeration was encoded: " + str(nat.get("value"))[:200]
        return judge(nat)


class EncodeArray(EncodeArrayLike):
    name = f"{ENUM}._encode_array"
    cases = ("ints", "members", "names", "member-of-another-enum-second", "member-of-another-enum-first", "floats")
    descr = ("an ndarray is encoded to the indices of the members it designates; anything that is not a member of this "
             "enumeration raises")

    def setup(self, I, ctx, case):
        a = super().setup(I, ctx, case)
        v = a["value"]
        seq = I.as_seq(ctx, v)
        dt = {"ints": "int", "members": "object", "names": "str", "member-of-another-enum-second": "object", "member-of-another-enum-first": "object",
              "floats": "float"}[case]
        a["value"] = nparr.NArr(seq.length, seq.elem, dt, case)
        return a

    def call_descriptor(self, I, case, a, ev):
        d = super().call_descriptor(I, case, a, ev)
        if d:
            d["as_array"] = True
        return d

    def probes(self, case):
        ps = super().probes(case)
        for p in ps:
            p["as_array"] = True
        return ps


class EnumEncode(Contract):
    name = f"{ENUM}.encode"
    prop = ("C15",)
    top_level = True
    cases = ("already-encoded", "empty-list", "sequence", "ndarray")
    descr = "encoding an already encoded array changes nothing; sequences and arrays go to their encoders; empty input gives an empty enum array"
    inline = (f"{EARR}.__new__",)

    def setup(self, I, ctx, case):
        w = EnumWorld(I, ctx)
        earr = I.resolve_qualified(EARR)
        L = ctx.fresh_int("L")
        ctx.assume(L >= 1)
        if case == "already-encoded":
            v = nparr.NArr(L, lambda i: Sym(z3.Int("e")), "uint8", "encoded")
            v.cls_override = earr
            v.attrs["possible_values"] = w.H
        elif case == "empty-list":
            v = ListVal([])
        elif case == "sequence":
            v = SymList(SeqVal(L, lambda i: Sym(z3.Int("x")), "ints"))
        else:
            v = nparr.NArr(L, lambda i: Sym(z3.Int("x")), "int", "ints")
        return {"cls": w.H, "array": v, "__w": w, "__case": case}

    @staticmethod
    def local_contracts():
        mk = lambda I, ctx, a: Opaque(None, "encoded-result", {})
        return {f"{ENUM}._encode_array_like": rec(f"{ENUM}._encode_array_like", "like", [("return", mk), ("raise", "IndexError")]),
                f"{ENUM}._encode_array": rec(f"{ENUM}._encode_array", "array", [("return", mk), ("raise", "IndexError")])}

    def post(self, I, ctx, a, out, old):
        case = a["__case"]
        log = log_of(ctx)
        if case == "already-encoded":
            return [("already-encoded-array-returned-as-it-is", out[0] == "return" and out[1] is a["array"] and not log)]
        if case == "empty-list":
            r = out[1] if out[0] == "return" else None
            return [("empty-input-gives-an-empty-enum-array", isinstance(r, nparr.NArr) and r.cls_override is not None and
                     r.attrs.get("possible_values") is a["cls"] and (isinstance(r.n, int) and r.n == 0) and not log),
                    ("of-the-index-dtype-so-that-it-can-be-decoded", isinstance(r, nparr.NArr) and r.dtype == "uint8")]
        want = "like" if case == "sequence" else "array"
        ok = len(log) == 1 and log[0]["callee"] == want and log[0]["args"]["value"] is a["array"] and log[0]["args"]["cls"] is a["cls"]
        res = [("sent-to-the-right-encoder-once", ok)]
        if ok:
            res.append(("its-outcome-is-the-outcome", (out[0] == "return" and out[1] is log[0].get("value")) or
                        (out[0] == "raise" and out[1] is log[0].get("exc"))))
        return res



ETYPE = f"{IE}._enum_type.EnumType"


class EnumTypeNew(Contract):
    name = f"{ETYPE}.__new__"
    prop = ("C15",)
    top_level = True
    cases = ("plain", "alias-in-the-middle", "alias-at-the-end", "no-member")
    DECLS = {"plain": [("a", "A"), ("b", "B"), ("c", "C")], "alias-in-the-middle": [("a", "A"), ("a_bis", "A"), ("b", "B"), ("c", "C")],
             "alias-at-the-end": [("a", "A"), ("b", "B"), ("b_bis", "B")], "no-member": []}
    descr = ("the tables the metaclass attaches to an enumeration agree with its members: one index per (canonical) member, names[i] "
             "and enums[i] are the name and the member whose index is i - also when the declaration has aliases (which are names of "
             "members, not members); the standard library's class creation enters as an assumed contract (members in declaration "
             "order, aliases only in __members__, len / iteration over canonical members, index = rank, as Enum.__init__ sets it)")

    def setup(self, I, ctx, case):
        from pyvc.values import EnumMember
        from pyvc.interp import hkey
        base = I.resolve_qualified(ENUM)
        meta = I.resolve_qualified(ETYPE)
        cls = ClassVal("H", None, [base], {})
        members, by_value, allnames = {}, {}, DictVal()
        for nm, val in self.DECLS[case]:
            if val not in by_value:
                m = EnumMember(cls, nm, val, index=len(members))
                members[nm] = m
                by_value[val] = m
            allnames.items[hkey(nm)] = by_value[val]
            allnames.keyvals[hkey(nm)] = nm
        cls.enum_members = members if members else None
        cls.ns["__members__"] = allnames
        cls.ns["_member_names_"] = ListVal(list(members))
        ctx.ghost["class_being_created"] = cls
        ctx.assumed_ext.add("enum.EnumMeta.__new__ (standard library): creates the class with its canonical members in declaration order (index = rank, "
                            "set by Enum.__init__), aliases listed only in __members__; len() and iteration range over canonical members")
        # the standard library's metaclass creates the class: assumed
        ext = [c for c in meta.mro() if getattr(c, "external", None) and "EnumMeta" in str(c.external)]
        for c in ext:
            c.ns["__new__"] = Builtin("enum.EnumMeta.__new__", lambda ctx2, mcls, *a, **k: ctx2.ghost["class_being_created"])
        return {"metacls": meta, "name": "H", "bases": TupleVal([base]), "classdict": DictVal(), "__cls": cls, "__members": members, "__case": case}

    def post(self, I, ctx, a, out, old):
        cls, members = a["__cls"], list(a["__members"].values())
        if out[0] != "return" or out[1] is not cls:
            return [("returns-the-class-created", False)]
        if a["__case"] == "no-member":
            return [("a-class-without-members-gets-no-table", "indices" not in cls.ns and "names" not in cls.ns)]
        idx, names, enums = cls.ns.get("indices"), cls.ns.get("names"), cls.ns.get("enums")
        ok = all(isinstance(x, nparr.NArr) for x in (idx, names, enums))
        if not ok:
            return [("three-tables-are-attached", False)]
        n = len(members)
        res = [("one-entry-per-member", z3.And(B._z(idx.n) == n, B._z(names.n) == n, B._z(enums.n) == n)),
               ("index-table-has-the-index-dtype", idx.dtype == "uint8")]
        for i, m in enumerate(members):
            res.append((f"entry-{i}-is-member-{m.name}-under-its-name-and-index",
                        z3.And(B.zint(idx.elem(i)) == m.index, z3.BoolVal(names.elem(i) == m.name), z3.BoolVal(enums.elem(i) is m)) if m.index == i else False))
        return res


EnumTypeNew.probes = lambda self, case: [{"callee": self.name, "script": NATIVE, "mode": "declarations"}]
EnumTypeNew.judge_native = lambda self, I, case, call, nat: _decl_judge(nat)


class EnumArrayDecode(Contract):
    name = f"{EARR}.decode"
    prop = ("C15",)
    top_level = True
    cases = ("decode", "decode_to_str")
    descr = "decoding gives, element by element, the member (or its name) the index designates"

    def target(self, I):
        return super().target(I)

    def setup(self, I, ctx, case):
        w = EnumWorld(I, ctx)
        earr = I.resolve_qualified(EARR)
        L = ctx.fresh_int("L")
        ctx.assume(L >= 0)          # an empty encoded array decodes to no members
        X = z3.Function(ctx.fresh_name("X"), z3.IntSort(), z3.IntSort())
        i = z3.Int("i_x")
        ctx.assume(z3.ForAll([i], z3.And(X(i) >= 0, X(i) < w.n)))
        v = nparr.NArr(L, lambda j: Sym(X(B._z(j))), "uint8", "encoded")
        v.cls_override = earr
        v.attrs["possible_values"] = w.H
        return {"self": v, "__w": w, "__L": L, "__X": X, "__case": case}

    def post(self, I, ctx, a, out, old):
        w, L, X = a["__w"], a["__L"], a["__X"]
        if out[0] != "return" or not isinstance(out[1], nparr.NArr):
            return [("returns-an-array", False)]
        r = out[1]
        i = ctx.fresh_int("i")
        rng = z3.And(i >= 0, i < L)
        e = r.elem(i)
        res = [("one-element-per-index", B._z(r.n) == L)]
        if self.name.endswith("decode_to_str"):
            ok = isinstance(e, Opaque) and e.e is not None and e.e.sort() == STR
            res.append(("name-of-the-designated-member", z3.Implies(rng, e.e == w.NAME(X(i))) if ok else False))
        else:
            ok = is_member_of(e, w.H)
            res.append(("the-designated-member", z3.Implies(rng, B.zint(e.fields["index"]) == X(i)) if ok else False))
        return res


class EnumArrayDecodeToStr(EnumArrayDecode):
    name = f"{EARR}.decode_to_str"
    cases = (None,)


EnumArrayDecode.cases = (None,)

CONTRACTS = [EnumTypeNew(), StrToIndex(), IntToIndex(), EnumToIndex(), EncodeArrayLike(), EncodeArray(), EnumEncode(), EnumArrayDecode(), EnumArrayDecodeToStr()]


def _decl_judge(nat):
    if nat.get("kind") == "harness-error":
        return "undecided", str(nat)[:300]
    if nat["kind"] == "raise":
        return "violates", "raised " + nat.get("exc", "") + ": " + nat.get("msg", "")
    return ("satisfies", "as specified") if nat["value"].get("ok") else ("violates", "; ".join(p["text"] for p in nat["value"].get("problems", []))[:600])


NATIVE_STANDINS = [
    {"name": "enumerations as declared: tables agree with member indices (aliases included), members / names / indices round-trip, members of another enumeration are refused",
     "where": "EnumType.__new__ / __eq__ / __hash__, Enum.encode, EnumArray.decode (the enum metaclass machinery of the standard library is outside the verifier)",
     "bound": "4 declarations (plain, alias in the middle, alias at the end, one member) x 3 routes + refusals + empty inputs; 4 pairs of distinct enumerations "
              "(other / same class name x other / same member names) x 3 input shapes",
     "calls": lambda tier: [{"callee": "EnumType", "script": NATIVE, "mode": "declarations"}],
     "judge": _decl_judge},
]
