"""Storage and holder contracts serving C17 / C01 / C18 / C16 / C19 (DESIGN 4 C17): the abstract view of a holder is
`stored(period)` = in-memory entry if any, else on-disk entry; every storage setting updates and reads that view
identically. Storages are symbolic maps keyed by period; files are a ghost map from path to array."""
from __future__ import annotations

import z3

from pyvc import builtins_ as B
from pyvc import nparr
from pyvc.contract import Contract
from pyvc.values import (Builtin, ClassVal, DictVal, ExcVal, ListVal, MapVal, Obj, Opaque, SetVal, Sym, TupleVal, Unsupported)

from .common import *  # noqa
from . import engine as E
from .c04_periods import sym_period
from .c13_clone import dict_of
from .c18_engine import rec, log_of, MISMATCH

MEM = "openfisca_core.data_storage.in_memory_storage.InMemoryStorage"
DISK = "openfisca_core.data_storage.on_disk_storage.OnDiskStorage"
HOLDER = "openfisca_core.holders.holder.Holder"
VAR = "openfisca_core.variables.variable.Variable"

ARR = E.ARR
PATH = z3.DeclareSort("Path")


def period_key(p):
    u, s, n = period_parts(p)
    y, m, d = ymd(s)
    return (E.UNIT_ID[u], y, m, d, zi(n))


def sym_map(ctx, tag, sort=ARR):
    """symbolic initial content of a period-keyed table"""
    PRES = z3.Function(ctx.fresh_name("PRES_" + tag), *([z3.IntSort()] * 5), z3.BoolSort())
    VALF = z3.Function(ctx.fresh_name("VAL_" + tag), *([z3.IntSort()] * 5), sort)

    def lookup(q):
        k = period_key(q)
        return PRES(*k), Opaque(VALF(*k), "array:" + tag if sort == ARR else "path:" + tag, {})
    m = MapVal(lookup, tag)
    if sort == PATH:
        # representation invariant of OnDiskStorage: the file registered for a period is dir/str(period).npy
        # (instantiated per application by storage_facts, no quantifier given to the solver)
        _DISK_TABLES[VALF.name()] = (PRES, VALF)
    return m


def eternity(I):
    return mk_period(I, "eternity", mk_instant(I, -1, -1, -1), -1)


def unwrap(v):
    return v.val if isinstance(v, B.OptVal) else v


def same_entry(I, ctx, a, b):
    """formula: two lookup results (present, value) agree"""
    pa, va = a
    pb, vb = b
    va, vb = unwrap(va), unwrap(vb)
    eq = B._zb(B.eq_formula(I, ctx, va, vb)) if (va is not None and vb is not None) else z3.BoolVal(va is vb)
    return z3.And(pa == pb, z3.Implies(pa, eq))


def lookup_of(I, ctx, table):
    if isinstance(table, MapVal):
        return table.lookup
    if isinstance(table, DictVal):
        return B.map_from_dict(I, ctx, table).lookup
    raise Unsupported(f"storage table is {table!r}")


def probe_period(I, ctx, unit="month", tag="probe"):
    return sym_period(I, ctx, unit, tag)


class _MemBase(Contract):
    prop = ("C17", "C01", "C19", "C13")
    top_level = True
    inline = ("openfisca_core.periods.helpers.period*",)
    cases = ("dated", "eternal")

    def mk(self, I, ctx, case):
        table = sym_map(ctx, "mem")
        st = Obj(I.resolve_qualified(MEM), {"_arrays": table, "is_eternal": case == "eternal"}, label="memory-storage")
        return st, table.lookup

    def canon(self, I, st, period):
        return eternity(I) if st.fields["is_eternal"] else period


class MemGet(_MemBase):
    name = f"{MEM}.get"
    descr = "reading a period returns the array held for it (the single entry of an eternal variable), None if there is none"

    def setup(self, I, ctx, case):
        st, look0 = self.mk(I, ctx, case)
        return {"self": st, "period": sym_period(I, ctx, "month"), "__look0": look0}

    def outcomes(self, I, ctx, a, old):
        st = a["self"]
        pres, v = lookup_of(I, ctx, st.fields["_arrays"])(self.canon(I, st, a["period"]))
        if ctx.branch(pres):
            return ("return", unwrap(v))
        return ("return", None)

    def post(self, I, ctx, a, out, old):
        st = a["self"]
        if out[0] != "return":
            return [("no-exception", False)]
        pres, v = lookup_of(I, ctx, st.fields["_arrays"])(self.canon(I, st, a["period"]))
        r = unwrap(out[1])
        if r is None:
            return [("none-only-when-nothing-is-held", z3.Not(pres))]
        return [("held", pres), ("returns-the-held-array", B._zb(B.eq_formula(I, ctx, r, unwrap(v))))]


class MemPut(_MemBase):
    name = f"{MEM}.put"
    descr = "storing sets the entry of that period to the array and changes no other entry"

    def setup(self, I, ctx, case):
        st, look0 = self.mk(I, ctx, case)
        return {"self": st, "value": Opaque(ctx.fresh_const("newarr", ARR), "array:new", {}), "period": sym_period(I, ctx, "month"),
                "__look0": look0}

    def outcomes(self, I, ctx, a, old):
        st = a["self"]
        t = st.fields["_arrays"]
        if isinstance(t, DictVal):
            t = st.fields["_arrays"] = B.map_from_dict(I, ctx, t)
        B.map_store(I, ctx, t, self.canon(I, st, a["period"]), a["value"])
        return ("return", None)

    def post(self, I, ctx, a, out, old):
        st = a["self"]
        if out[0] != "return":
            return [("no-exception", False)]
        look = lookup_of(I, ctx, st.fields["_arrays"])
        key = self.canon(I, st, a["period"])
        q = probe_period(I, ctx, "month", "q") if not st.fields["is_eternal"] else eternity(I)
        pres, v = look(key)
        res = [("entry-set", z3.And(pres, B._zb(B.eq_formula(I, ctx, unwrap(v), a["value"]))))]
        other = z3.Not(B._zb(B.eq_formula(I, ctx, q, key)))
        res.append(("other-entries-unchanged", z3.Implies(other, same_entry(I, ctx, look(q), a["__look0"](q)))))
        # arrays handed to / out of a storage are shared (with callers, with the storages of cloned holders): never written in place
        res.append(("no-array-is-written-in-place", not ctx.ghost.get("written_in_place")))
        return res


def _memput_probes(self, case):
    from .c13_clone import _probe
    return [_probe(self.name, "rewrite-on-clone-same-period")]


def _memput_judge(self, I, case, call, nat):
    from .c13_clone import _NativeJudge
    return _NativeJudge.judge_native(self, I, case, call, nat)


MemPut.probes = _memput_probes
MemPut.judge_native = _memput_judge


class MemDelete(_MemBase):
    name = f"{MEM}.delete"
    prop = _MemBase.prop + ("C02",)
    cases = ("dated", "eternal", "everything", "dated-day-from-a-day-store", "dated-month-from-a-month-store")
    descr = ("deleting a period removes exactly the entries whose period it contains (a year from a store of months, a day from a "
             "store of days, a month from a store of months); deleting without period removes all")
    UNITS = {"dated-day-from-a-day-store": ("day", "day"), "dated-month-from-a-month-store": ("month", "month")}

    def setup(self, I, ctx, case):
        st, look0 = self.mk(I, ctx, "eternal" if case == "eternal" else "dated")
        pu, qu = self.UNITS.get(case, ("year", "month"))
        return {"self": st, "period": None if case == "everything" else sym_period(I, ctx, pu), "__look0": look0, "__qunit": qu}

    def post(self, I, ctx, a, out, old):
        st = a["self"]
        if out[0] != "return":
            return [("no-exception", False)]
        look = lookup_of(I, ctx, st.fields["_arrays"])
        q = probe_period(I, ctx, a.get("__qunit", "month"), "q") if not st.fields["is_eternal"] else eternity(I)
        p1, v1 = look(q)
        p0, v0 = a["__look0"](q)
        if a["period"] is None:
            return [("nothing-left", z3.Not(p1))]
        key = self.canon(I, st, a["period"])
        if st.fields["is_eternal"]:
            return [("the-single-entry-is-removed", z3.Not(p1))]
        inside = z3.And(first_day(key) <= first_day(q), last_day(q) <= last_day(key))
        return [("entries-inside-the-period-removed", z3.Implies(inside, z3.Not(p1))),
                ("entries-outside-kept", z3.Implies(z3.Not(inside), same_entry(I, ctx, (p1, v1), (p0, v0))))]


# ----------------------------------------------------------------------
# on-disk storage over a ghost file map
# ----------------------------------------------------------------------
def fs_of(ctx):
    return ctx.ghost.setdefault("fs", {"writes": []})


def install(I):
    """numpy.save / numpy.load over the ghost file map; os.path.join / str(period) as an injective path token;
    EnumArray re-wrapping (assumed contracts, DESIGN 2.7)"""
    np_tab = I.ext["numpy"]

    def np_save(ctx, path, value):
        ctx.assumed_ext.add("numpy.save/numpy.load round trip: load(path) returns the array last saved at that path (per dtype; validated natively for bool/int/float/date/enum, not for object/str)")
        fs_of(ctx)["writes"].append((path, value))

    def np_load(ctx, path, **kw):
        path = unwrap(path)
        fs = fs_of(ctx)
        res = Opaque(FILE0(path_term(path)), "array:file", {})
        for p, v in fs["writes"]:
            hit = B._zb(B.eq_formula(I, ctx, p, path))
            res = B.ite_val(hit, (lambda v=v: v), (lambda r=res: r))
        return res
    np_tab["save"] = Builtin("numpy.save", np_save)
    np_tab["load"] = Builtin("numpy.load", np_load)

    def join(ctx, d, name):
        ctx.assumed_ext.add("os.path.join(dir, name) + '.npy' names one file per (dir, name); str(period) is injective on periods (C05)")
        def binop(ctx2, op, x, y):
            import ast
            if isinstance(op, ast.Add) and y == ".npy":
                return x          # the extension is part of the token
            return B.NOT_IMPLEMENTED
        return Opaque(PJOIN(dir_term(d), name_term(name)), "path", {"binop": binop})
    I.ext["psutil"] = {"virtual_memory": Builtin("psutil.virtual_memory", lambda ctx: Opaque(None, "vmem", {"fields": {"percent": Sym(ctx.fresh_real("mem_pc"))}}))}
    I.ext["os.path"] = {"join": Builtin("os.path.join", join), "isdir": Builtin("isdir", None), "exists": Builtin("exists", None)}


FILE0 = z3.Function("FILE0", PATH, ARR)                 # initial content of files
NAME = z3.DeclareSort("FName")
DIRS = z3.DeclareSort("Dir")
PJOIN = z3.Function("PJOIN", DIRS, NAME, PATH)
PSTR = z3.Function("PSTR", *([z3.IntSort()] * 5), NAME)  # str(period), injective (C05 lemma, assumed here)
EXT = z3.Function("EXT_NPY", PATH, PATH)
_dirs = {}


def dir_term(d):
    if isinstance(d, str):
        if d not in _dirs:
            _dirs[d] = z3.Const("dir_" + str(len(_dirs)), DIRS)
        return _dirs[d]
    raise Unsupported(f"storage dir {d!r}")


def name_term(n):
    if isinstance(n, Opaque) and n.e is not None and n.e.sort() == NAME:
        return n.e
    raise Unsupported(f"file name {n!r}")


def path_term(p):
    if isinstance(p, Opaque) and p.e is not None and p.e.sort() == PATH:
        return p.e
    raise Unsupported(f"path {p!r}")


class PeriodStrToken(Contract):
    """call-site stand-in for Period.__str__ inside the storages: an injective file-name token (assumed: C05)"""
    name = f"{P}.period_.Period.__str__"
    prop = ()

    def outcomes(self, I, ctx, a, old):
        k = period_key(a["self"])
        tok = Opaque(PSTR(*k), "filename", {})

        def binop(ctx2, op, x, y):
            import ast
            if isinstance(op, ast.Add) and y == ".npy":
                return x
            return B.NOT_IMPLEMENTED
        return ("return", tok)

    def post(self, I, ctx, a, out, old):
        return []


_DISK_TABLES = {}


def storage_facts(formulas):
    """lemma instances: injectivity of str(period) and of path joining, and the disk table invariant, per application"""
    pstr, pjoin, valf = {}, {}, {}
    seen = set()

    def walk(e):
        if e.get_id() in seen:
            return
        seen.add(e.get_id())
        if z3.is_app(e):
            d = e.decl()
            if d.eq(PSTR):
                pstr[e.get_id()] = e
            elif d.eq(PJOIN):
                pjoin[e.get_id()] = e
            elif d.name() in _DISK_TABLES and d.eq(_DISK_TABLES[d.name()][1]):
                valf[e.get_id()] = e
            for c in e.children():
                walk(c)
        elif z3.is_quantifier(e):
            walk(e.body())
    for f in formulas:
        walk(f)
    out = []
    for e in valf.values():
        PRES, VALF = _DISK_TABLES[e.decl().name()]
        args = [e.arg(i) for i in range(5)]
        inst = z3.Implies(PRES(*args), e == PJOIN(dir_term("/data/v"), PSTR(*args)))
        out.append(inst)
        walk(inst)
    ps = sorted(pstr.values(), key=lambda x: x.get_id())
    for i in range(len(ps)):
        for j in range(i + 1, len(ps)):
            a, b = ps[i], ps[j]
            out.append(z3.Implies(a == b, z3.And(*[a.arg(k) == b.arg(k) for k in range(5)])))
    pj = sorted(pjoin.values(), key=lambda x: x.get_id())
    for i in range(len(pj)):
        for j in range(i + 1, len(pj)):
            a, b = pj[i], pj[j]
            out.append(z3.Implies(a == b, z3.And(a.arg(0) == b.arg(0), a.arg(1) == b.arg(1))))
    return out


from pyvc import smt as _smt
_smt.register_theory(storage_facts)


def pstr_injective():
    a = z3.Ints("a0 a1 a2 a3 a4")
    b = z3.Ints("b0 b1 b2 b3 b4")
    return z3.ForAll(list(a) + list(b), z3.Implies(PSTR(*a) == PSTR(*b), z3.And(*[x == y for x, y in zip(a, b)])),
                     patterns=[z3.MultiPattern(PSTR(*a), PSTR(*b))])


def pjoin_injective():
    d1, d2 = z3.Consts("d1 d2", DIRS)
    n1, n2 = z3.Consts("n1 n2", NAME)
    return z3.ForAll([d1, d2, n1, n2], z3.Implies(PJOIN(d1, n1) == PJOIN(d2, n2), z3.And(d1 == d2, n1 == n2)),
                     patterns=[z3.MultiPattern(PJOIN(d1, n1), PJOIN(d2, n2))])


class _DiskBase(Contract):
    prop = ("C17", "C19")
    top_level = True
    inline = ("openfisca_core.periods.helpers.period*", f"{DISK}._decode_file")
    cases = ("dated", "eternal")

    def mk(self, I, ctx, case):
        files = sym_map(ctx, "files", PATH)
        st = Obj(I.resolve_qualified(DISK), {"_files": files, "_enums": DictVal(), "is_eternal": case == "eternal",
                                             "preserve_storage_dir": False, "storage_dir": "/data/v"}, label="disk-storage")
        return st, files.lookup

    def canon(self, I, st, period):
        return eternity(I) if st.fields["is_eternal"] else period

    @staticmethod
    def local_contracts():
        return {PeriodStrToken.name: PeriodStrToken()}


def plain_array(ctx, tag):
    """an array that is not an EnumArray"""
    def isinst(ctx2, c):
        return False if c.name == "EnumArray" else (True if c.name == "ndarray" else False)
    return Opaque(ctx.fresh_const(tag, ARR), "array:" + tag, {"isinstance": isinst})


class DiskPutGet(_DiskBase):
    name = f"{DISK}.put"
    descr = ("an array put on disk for a period is what get returns for that period afterwards; entries of other periods are "
             "unchanged (file content through the assumed numpy.save/load round trip)")
    inline = _DiskBase.inline + (f"{DISK}.get",)
    cases = _DiskBase.cases + ("dated-after-the-period-was-stored-and-read-before",)

    def setup(self, I, ctx, case):
        st, look0 = self.mk(I, ctx, "dated" if case.startswith("dated") else case)
        p = sym_period(I, ctx, "month")
        a = {"self": st, "value": plain_array(ctx, "newarr"), "period": p, "__look0": look0}
        if case.startswith("dated-after"):
            # history: another array was stored for the same period and read back (through the real put / get) before
            ctx.depth += 1
            try:
                I.call(ctx, I.getattr(ctx, st, "put"), [plain_array(ctx, "earlier"), p], {})
                I.call(ctx, I.getattr(ctx, st, "get"), [p], {})
            finally:
                ctx.depth -= 1
            a["__w0"] = len(fs_of(ctx)["writes"])
            a["__look0"] = lookup_of(I, ctx, st.fields["_files"])
        return a

    def post(self, I, ctx, a, out, old):
        st = a["self"]
        if out[0] != "return":
            return [("no-exception", False)]
        key = self.canon(I, st, a["period"])
        get = I.getattr(ctx, st, "get")
        r = I.call(ctx, get, [a["period"]], {})
        res = [("get-after-put-returns-the-array", z3.BoolVal(r is not None) if r is None else
                B._zb(B.eq_formula(I, ctx, unwrap(r), a["value"])))]
        q = probe_period(I, ctx, "month", "q") if not st.fields["is_eternal"] else None
        if q is not None:
            other = z3.Not(B._zb(B.eq_formula(I, ctx, q, key)))
            look = lookup_of(I, ctx, st.fields["_files"])
            p1, f1 = look(q)
            p0, f0 = a["__look0"](q)
            res.append(("other-periods-keep-their-file", z3.Implies(other, same_entry(I, ctx, (p1, f1), (p0, f0)))))
            # and the file of another period was not overwritten: paths of distinct periods are distinct
            wr = fs_of(ctx)["writes"][a.get("__w0", 0):]
            pk, fk = look(key)
            res.append(("registered-file-is-dir/str(period)", z3.And(pk, path_term(unwrap(fk)) == PJOIN(dir_term("/data/v"), PSTR(*period_key(key))))))
            res.append(("one-file-written", len(wr) == 1))
            if len(wr) == 1:
                res.append(("no-other-period's-own-file-is-overwritten",
                            z3.Implies(other, path_term(wr[0][0]) != PJOIN(dir_term("/data/v"), PSTR(*period_key(q))))))
        return res


class DiskDelete(_DiskBase):
    name = f"{DISK}.delete"
    cases = ("dated", "eternal", "everything", "dated-day-from-a-day-store", "dated-month-from-a-month-store")
    descr = "deleting a period removes exactly the entries whose period it contains (year / months, day / days, month / months)"

    def setup(self, I, ctx, case):
        st, look0 = self.mk(I, ctx, "eternal" if case == "eternal" else "dated")
        pu, qu = MemDelete.UNITS.get(case, ("year", "month"))
        return {"self": st, "period": None if case == "everything" else sym_period(I, ctx, pu), "__look0": look0, "__qunit": qu}

    def post(self, I, ctx, a, out, old):
        st = a["self"]
        if out[0] != "return":
            return [("no-exception", False)]
        look = lookup_of(I, ctx, st.fields["_files"])
        q = probe_period(I, ctx, a.get("__qunit", "month"), "q") if not st.fields["is_eternal"] else eternity(I)
        p1, v1 = look(q)
        p0, v0 = a["__look0"](q)
        if a["period"] is None or st.fields["is_eternal"]:
            return [("nothing-left", z3.Not(p1))]
        key = self.canon(I, st, a["period"])
        inside = z3.And(first_day(key) <= first_day(q), last_day(q) <= last_day(key))
        return [("entries-inside-the-period-removed", z3.Implies(inside, z3.Not(p1))),
                ("entries-outside-kept", z3.Implies(z3.Not(inside), same_entry(I, ctx, (p1, v1), (p0, v0))))]


# ----------------------------------------------------------------------
# holder over the two storages
# ----------------------------------------------------------------------
class HWorld:
    def __init__(self, I, ctx, disk=True, eternal=False, neutralized=False, do_not_store=False, blacklist=False, opt_out=False):
        R = I.resolve_qualified
        self.mem = Obj(R(MEM), {"_arrays": sym_map(ctx, "mem"), "is_eternal": eternal}, label="mem")
        self.disk = Obj(R(DISK), {"_files": sym_map(ctx, "dsk", PATH), "_enums": DictVal(), "is_eternal": eternal,
                                  "preserve_storage_dir": False, "storage_dir": "/data/v"}, label="disk") if disk else None
        self.var = Obj(R(VAR), {"name": "v", "definition_period": dateunit(I, "eternity" if eternal else "month"),
                                "is_neutralized": neutralized, "value_type": I.builtins["float"], "dtype": nparr.DType("float"),
                                "set_input": None}, label="var:v")
        mc = Obj(I.builtins["object"], {"max_memory_occupation_pc": B.wrap(ctx.fresh_real("threshold")),
                                        "priority_variables": ListVal([]), "variables_to_drop": ListVal([])}, label="memory-config")
        tbs = Obj(R(E.TBS), {"cache_blacklist": dict_of([("v", True)]) if blacklist else None}, label="tbs")
        self.sim = Obj(R(E.SIM), {"memory_config": mc if disk else None, "opt_out_cache": opt_out, "tax_benefit_system": tbs}, label="sim")
        self.pop = Obj(R("openfisca_core.populations.population.Population"), {"count": B.wrap(ctx.fresh_int("count")), "simulation": self.sim}, label="pop")
        self.holder = Obj(R(HOLDER), {"variable": self.var, "population": self.pop, "simulation": self.sim, "_eternal": eternal,
                                      "_memory_storage": self.mem, "_disk_storage": self.disk, "_on_disk_storable": disk,
                                      "_do_not_store": do_not_store}, label="holder")
        self.mem0 = self.mem.fields["_arrays"].lookup
        self.disk0 = self.disk.fields["_files"].lookup if disk else None
        self.I, self.ctx = I, ctx

    def view(self, q, initial=False):
        """stored(q): (present, value) = memory entry if any, else the array in the file registered for q"""
        I, ctx = self.I, self.ctx
        key = eternity(I) if self.holder.fields["_eternal"] else q
        pm, vm = (self.mem0 if initial else lookup_of(I, ctx, self.mem.fields["_arrays"]))(key)
        if self.disk is None:
            return pm, unwrap(vm)
        pd, path = (self.disk0 if initial else lookup_of(I, ctx, self.disk.fields["_files"]))(key)
        path = unwrap(path)
        if initial:
            vd = Opaque(FILE0(path_term(path)), "array:file", {})
        else:
            vd = I.call(ctx, I.ext["numpy"]["load"], [path], {})
        return z3.Or(pm, pd), B.ite_val(pm, lambda: unwrap(vm), lambda: vd)


HOLDER_INLINE = (MEM + ".get", MEM + ".put", MEM + ".delete", DISK + ".get", DISK + ".put", DISK + ".delete", DISK + "._decode_file",
                 "openfisca_core.periods.helpers.period*")

CONFIGS = (("memory", False, False), ("disk", True, False), ("eternal-memory", False, True), ("eternal-disk", True, True))


class HolderGetArrayFull(Contract):
    name = f"{HOLDER}.get_array"
    prop = ("C17", "C01", "C14")
    top_level = True
    cases = tuple((c[0], n) for c in CONFIGS for n in (False, True)) + tuple((c[0], "not-to-be-cached") for c in CONFIGS) + \
        (("memory", "neutralised-read-twice"),)
    descr = ("reading a holder returns the stored view of the period whatever the storage setting (memory first, then disk) and "
             "whatever the caching options (blacklisted variable, opted-out simulation, do-not-store), None if nothing is stored; "
             "a neutralised variable reads as its default whatever is stored")
    inline = HOLDER_INLINE

    def setup(self, I, ctx, case):
        cfg, neut = case
        _, disk, eternal = [c for c in CONFIGS if c[0] == cfg][0]
        nocache = neut == "not-to-be-cached"
        w = HWorld(I, ctx, disk=disk, eternal=eternal, neutralized=(neut is True or neut == "neutralised-read-twice"), do_not_store=nocache, blacklist=nocache, opt_out=nocache)
        a = {"self": w.holder, "period": sym_period(I, ctx, "month"), "__w": w}
        if neut == "neutralised-read-twice":
            # history: the neutralised variable was read before (another period): every read yields an array of its own
            f, _ = self.target(I)
            ctx.depth += 1
            try:
                a["__earlier"] = I.inline_call(ctx, f, [], {"self": w.holder, "period": sym_period(I, ctx, "month", "p_earlier")})
            finally:
                ctx.depth -= 1
        return a

    @staticmethod
    def local_contracts():
        return {PeriodStrToken.name: PeriodStrToken(),
                f"{HOLDER}.default_array": rec(f"{HOLDER}.default_array", "default_array", [("return", lambda I, ctx, a: plain_array(ctx, "default"))])}

    def post(self, I, ctx, a, out, old):
        w = a["__w"]
        if out[0] != "return":
            return [("no-exception", False)]
        if w.var.fields["is_neutralized"]:
            d = log_of(ctx, "default_array")
            if "__earlier" in a:
                return [("every-read-of-a-neutralised-variable-yields-a-default-array-of-its-own (never one handed out before)",
                         len(d) == 2 and out[1] is d[1]["value"] and out[1] is not a["__earlier"])]
            return [("neutralised-variable-reads-as-its-default", len(d) == 1 and out[1] is d[0]["value"])]
        pres, v = w.view(a["period"])
        r = unwrap(out[1])
        if r is None:
            return [("none-only-when-nothing-is-stored", z3.Not(pres))]
        return [("something-stored", pres), ("returns-the-stored-view", B._zb(B.eq_formula(I, ctx, r, v)))]


class HolderSetFull(Contract):
    name = f"{HOLDER}._set"
    prop = ("C17", "C18", "C16", "C01", "C13")
    top_level = True
    cases = tuple((c[0], u) for c in CONFIGS for u in ("month", "year", "month-size-2"))
    descr = ("storing a value makes it the stored view of that period under every storage setting and changes no other period; "
             "a period that is not one definition period is refused and nothing is stored")
    inline = HOLDER_INLINE

    def setup(self, I, ctx, case):
        cfg, shape = case
        _, disk, eternal = [c for c in CONFIGS if c[0] == cfg][0]
        w = HWorld(I, ctx, disk=disk, eternal=eternal)
        p = sym_period(I, ctx, "year" if shape == "year" else "month")
        if shape == "month-size-2":
            ctx.assume(zi(p.items[2]) >= 2)
        elif shape == "month":
            ctx.assume(zi(p.items[2]) == 1)
        return {"self": w.holder, "period": p, "value": plain_array(ctx, "input"), "__w": w, "__shape": shape}

    @staticmethod
    def local_contracts():
        return {PeriodStrToken.name: PeriodStrToken(),
                f"{HOLDER}._to_array": rec(f"{HOLDER}._to_array", "to_array", [("return", lambda I, ctx, a: plain_array(ctx, "as-array")), ("raise", "ValueError")])}

    def post(self, I, ctx, a, out, old):
        w = a["__w"]
        ta = log_of(ctx, "to_array")
        q = probe_period(I, ctx, "month", "q")
        unchanged_all = same_entry(I, ctx, w.view(q), w.view(q, initial=True))
        if out[0] == "raise":
            ok_cls = out[1].cls.name in ("PeriodMismatchError", "ValueError")
            legit = (ta and ta[0]["kind"] == "raise") or (not w.holder.fields["_eternal"] and a["__shape"] != "month")
            return [("refused-only-for-a-bad-value-or-period", ok_cls and bool(legit)), ("nothing-stored-when-refused", unchanged_all)]
        if not w.holder.fields["_eternal"] and a["__shape"] != "month":
            return [("mismatching-period-refused", False)]
        if len(ta) != 1 or ta[0]["kind"] != "return":
            return [("value-converted-once", False)]
        stored = ta[0]["value"]
        key = a["period"]
        pres, v = w.view(key)
        res = [("stored-view-of-the-period-is-the-value", z3.And(pres, B._zb(B.eq_formula(I, ctx, v, stored)))),
               ("no-array-is-written-in-place", not ctx.ghost.get("written_in_place"))]
        if w.holder.fields["_eternal"]:
            return res
        other = z3.Not(B._zb(B.eq_formula(I, ctx, q, key)))
        res.append(("other-periods-unchanged", z3.Implies(other, unchanged_all)))
        return res


class HolderPutInCache(Contract):
    name = f"{HOLDER}.put_in_cache"
    prop = ("C17", "C18")
    top_level = True
    cases = ("store", "do-not-store", "blacklisted-and-opted-out", "blacklisted-not-opted-out", "opted-out-not-blacklisted")
    descr = ("caching stores the value through _set, except for variables declared not to be stored or blacklisted with the cache "
             "opted out, where the store is left as it is")

    def setup(self, I, ctx, case):
        w = HWorld(I, ctx, disk=False, do_not_store=case == "do-not-store", blacklist=case.startswith("blacklisted"),
                   opt_out=case in ("blacklisted-and-opted-out", "opted-out-not-blacklisted"))
        return {"self": w.holder, "value": plain_array(ctx, "computed"), "period": sym_period(I, ctx, "month"), "__w": w, "__case": case}

    @staticmethod
    def local_contracts():
        return {f"{HOLDER}._set": rec(f"{HOLDER}._set", "_set", [("return", None), ("raise", MISMATCH)])}

    def post(self, I, ctx, a, out, old):
        sets = log_of(ctx, "_set")
        skip = a["__case"] in ("do-not-store", "blacklisted-and-opted-out")
        if skip:
            return [("store-left-as-it-is", out[0] == "return" and not sets)]
        ok = len(sets) == 1 and sets[0]["args"]["period"] is a["period"] and sets[0]["args"]["value"] is a["value"] and sets[0]["args"]["self"] is a["self"]
        res = [("stored-through-_set-once", ok)]
        if ok and sets[0]["kind"] == "raise":
            res.append(("refusal-reaches-the-caller", out[0] == "raise" and out[1] is sets[0]["exc"]))
        return res


class HolderDeleteArrays(Contract):
    name = f"{HOLDER}.delete_arrays"
    prop = ("C17", "C02", "C13")
    top_level = True
    cases = tuple((c[0], u) for c in CONFIGS for u in ("year", "month"))
    descr = ("deleting a period - a longer one, or one definition period as the cache purge does - removes exactly the stored periods it "
             "contains, under every storage setting (memory and disk)")
    inline = HOLDER_INLINE

    def setup(self, I, ctx, case):
        cfg, unit = case
        _, disk, eternal = [c for c in CONFIGS if c[0] == cfg][0]
        w = HWorld(I, ctx, disk=disk, eternal=eternal)
        return {"self": w.holder, "period": sym_period(I, ctx, unit), "__w": w}

    @staticmethod
    def local_contracts():
        return {PeriodStrToken.name: PeriodStrToken()}

    def post(self, I, ctx, a, out, old):
        w = a["__w"]
        if out[0] != "return":
            return [("no-exception", False)]
        q = probe_period(I, ctx, "month", "q")
        p1, v1 = w.view(q)
        if w.holder.fields["_eternal"]:
            return [("the-single-entry-is-removed", z3.Not(p1))]
        key = a["period"]
        inside = z3.And(first_day(key) <= first_day(q), last_day(q) <= last_day(key))
        return [("stored-periods-inside-removed", z3.Implies(inside, z3.Not(p1))),
                ("stored-periods-outside-kept", z3.Implies(z3.Not(inside), same_entry(I, ctx, (p1, v1), w.view(q, initial=True))))]


CONTRACTS = [MemGet(), MemPut(), MemDelete(), DiskPutGet(), DiskDelete(), HolderGetArrayFull(), HolderSetFull(), HolderPutInCache(),
             HolderDeleteArrays()]


# ---- native probe scenarios for contracts without a replay of their own (native/engine_probes.py): a failed obligation of an
# ---- engine contract gets, if one of the scenarios fails on the real code, that scenario as its failing input
ENGINE_NATIVE = "import sys; sys.path.insert(0, '/verif/native')\nimport engine_probes\noutcome = engine_probes.run(call)\n"


def _engine_probes(self, case):
    return [{"callee": self.name, "script": ENGINE_NATIVE, "scenarios": None}]


def _engine_judge(self, I, case, call, nat):
    if nat.get("kind") == "harness-error":
        return "undecided", str(nat)[:300]
    if nat["kind"] == "raise":
        return "undecided", "probe scenario raised " + nat.get("exc", "") + ": " + nat.get("msg", "")
    return ("satisfies", "all engine scenarios hold") if nat["value"].get("ok") else ("violates", "; ".join(nat["value"].get("problems", []))[:500])


def _holderset_probes(self, case):
    from .c13_clone import _probe
    return [_probe(self.name, "set-input-again-on-clone")] + _engine_probes(self, case)


def _holderset_judge(self, I, case, call, nat):
    if "scenario" in call:
        from .c13_clone import _NativeJudge
        return _NativeJudge.judge_native(self, I, case, call, nat)
    return _engine_judge(self, I, case, call, nat)


HolderSetFull.probes = _holderset_probes
HolderSetFull.judge_native = _holderset_judge


for _c in CONTRACTS:
    if not hasattr(_c, "probes") and not hasattr(_c, "judge_native") and not hasattr(_c, "call_descriptor_custom"):
        _cls = type(_c)
        if "probes" not in _cls.__dict__ and not any("judge_native" in k.__dict__ for k in _cls.__mro__):
            _cls.probes = _engine_probes
            _cls.judge_native = _engine_judge
