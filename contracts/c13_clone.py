"""C13 -- a cloned simulation and its original never affect each other.
Heap-separation postconditions on the real Simulation / Population / GroupPopulation / Holder clone methods
(DESIGN 4 C13): the clone bodies are executed on a heap with concrete object identities and symbolic contents;
ownership: a holder owns its storages (and their tables), a population its holders table, a simulation its
populations table, mark set and tracer."""
from __future__ import annotations

import z3

from pyvc import builtins_ as B
from pyvc.contract import Contract
from pyvc.values import DictVal, ExcVal, ListVal, Obj, Opaque, SetVal, Sym, SymList, TupleVal, Unsupported

from .common import *  # noqa
from . import engine as E

SIM = E.SIM
POP = "openfisca_core.populations.population.Population"
GPOP = "openfisca_core.populations.group_population.GroupPopulation"
HOLDER = "openfisca_core.holders.holder.Holder"
MEM = "openfisca_core.data_storage.in_memory_storage.InMemoryStorage"
DISK = "openfisca_core.data_storage.on_disk_storage.OnDiskStorage"


def dict_of(pairs):
    d = DictVal()
    from pyvc.interp import hkey
    for k, v in pairs:
        d.items[hkey(k)] = v
        d.keyvals[hkey(k)] = k
    return d


class Heap:
    """a simulation with one person population (two holders: memory only / disk backed) and one group population"""

    def __init__(self, I, ctx, with_disk=True):
        R = I.resolve_qualified
        arr = lambda tag: Opaque(ctx.fresh_const(tag, E.ARR), "array")
        ecls = R("openfisca_core.entities.entity.Entity")
        gcls = R("openfisca_core.entities.group_entity.GroupEntity")
        self.person_entity = Obj(ecls, {"key": "person", "plural": "persons", "is_person": True}, label="entity:person")
        self.group_entity = Obj(gcls, {"key": "household", "plural": "households", "is_person": False}, label="entity:household")
        self.family_entity = Obj(gcls, {"key": "family", "plural": "families", "is_person": False}, label="entity:family")
        self.tbs = Obj(R(E.TBS), {"person_entity": self.person_entity, "group_entities": ListVal([self.family_entity, self.group_entity]),
                                  "variables": DictVal()}, label="tbs")
        vcls = R("openfisca_core.variables.variable.Variable")
        self.vars = {n: Obj(vcls, {"name": n, "definition_period": dateunit(I, "month"), "is_neutralized": False}, label="var:" + n)
                     for n in ("salary", "age", "rent", "bonus", "allowance")}
        self.vars["birth"] = Obj(vcls, {"name": "birth", "definition_period": dateunit(I, "eternity"), "is_neutralized": False}, label="var:birth")
        self.sim = Obj(R(SIM), {}, label="sim")
        self.persons = Obj(R(POP), {"entity": self.person_entity, "simulation": self.sim, "count": B.wrap(ctx.fresh_int("np")),
                                    "ids": ListVal(["a", "b"])}, label="persons")
        self.households = Obj(R(GPOP), {"entity": self.group_entity, "simulation": self.sim, "count": B.wrap(ctx.fresh_int("nh")),
                                        "ids": ListVal(["h"]), "members": self.persons,
                                        "_members_entity_id": arr("eid"), "_members_role": arr("roles"),
                                        "_members_position": arr("pos"), "_ordered_members_map": arr("omap")}, label="households")
        self.families = Obj(R(GPOP), {"entity": self.family_entity, "simulation": self.sim, "count": B.wrap(ctx.fresh_int("nf")),
                                      "ids": ListVal(["f"]), "members": self.persons,
                                      "_members_entity_id": arr("feid"), "_members_role": arr("froles"),
                                      "_members_position": arr("fpos"), "_ordered_members_map": arr("fomap")}, label="families")
        p1 = mk_period(I, "month", mk_instant(I, 2020, 1, 1), 1)
        p2 = mk_period(I, "month", mk_instant(I, 2020, 2, 1), 1)

        def holder(var, pop, disk, empty=False, eternal=False):
            if eternal:
                from .c17_storage import eternity
                mem = Obj(R(MEM), {"_arrays": dict_of([(eternity(I), arr("e1"))]), "is_eternal": True}, label=f"mem:{var}")
                return Obj(R(HOLDER), {"population": pop, "variable": self.vars[var], "simulation": self.sim, "_eternal": True,
                                       "_memory_storage": mem, "_disk_storage": None, "_on_disk_storable": False,
                                       "_do_not_store": False}, label=f"holder:{var}")
            mem = Obj(R(MEM), {"_arrays": dict_of([] if empty else [(p1, arr("m1")), (p2, arr("m2"))]), "is_eternal": False}, label=f"mem:{var}")
            dsk = None
            if disk:
                dsk = Obj(R(DISK), {"_files": dict_of([(p1, f"/tmp/of/{var}/2020-01.npy")]), "_enums": DictVal(), "is_eternal": False,
                                    "preserve_storage_dir": False, "storage_dir": f"/tmp/of/{var}"}, label=f"disk:{var}")
            return Obj(R(HOLDER), {"population": pop, "variable": self.vars[var], "simulation": self.sim, "_eternal": False,
                                   "_memory_storage": mem, "_disk_storage": dsk, "_on_disk_storable": bool(disk),
                                   "_do_not_store": False}, label=f"holder:{var}")
        self.h_salary = holder("salary", self.persons, False)
        self.h_age = holder("age", self.persons, with_disk)
        self.h_rent = holder("rent", self.households, False)
        self.h_bonus = holder("bonus", self.persons, False, empty=True)        # a holder that exists but holds nothing yet
        self.h_allowance = holder("allowance", self.families, False)
        self.h_birth = holder("birth", self.persons, False, eternal=True)       # a variable defined for eternity: one entry, read at any period
        self.persons.fields["_holders"] = dict_of([("salary", self.h_salary), ("age", self.h_age), ("bonus", self.h_bonus), ("birth", self.h_birth)])
        self.households.fields["_holders"] = dict_of([("rent", self.h_rent)])
        self.families.fields["_holders"] = dict_of([("allowance", self.h_allowance)])
        tracer = Obj(R("openfisca_core.tracers.simple_tracer.SimpleTracer"), {"_stack": ListVal([])}, label="tracer")
        marks = SetVal()
        self.sim.fields.update({
            "tax_benefit_system": self.tbs,
            "populations": dict_of([("person", self.persons), ("family", self.families), ("household", self.households)]),
            "persons": self.persons, "person": self.persons, "household": self.households, "family": self.families,
            "invalidated_caches": marks,
            "debug": False, "_trace": False, "tracer": tracer, "opt_out_cache": False, "max_spiral_loops": 1,
            "memory_config": None, "_data_storage_dir": None})


def snapshot(objs):
    """field identities of a set of objects (frame check: nothing reachable from the original changes)"""
    snap = {}
    for o in objs:
        if isinstance(o, Obj):
            snap[id(o)] = (o, dict(o.fields))
        elif isinstance(o, DictVal):
            snap[id(o)] = (o, dict(o.items))
        elif isinstance(o, SetVal):
            snap[id(o)] = (o, dict(o.items))
        elif isinstance(o, ListVal):
            snap[id(o)] = (o, list(o.items))
    return snap


def unchanged(snap):
    bad = []
    for o, old in snap.values():
        cur = o.fields if isinstance(o, Obj) else o.items
        if isinstance(o, ListVal):
            same = len(cur) == len(old) and all(a is b for a, b in zip(cur, old))
        else:
            same = set(cur) == set(old) and all(cur[k] is old[k] or (not isinstance(old[k], (Obj, DictVal, SetVal, ListVal)) and B.eq_formula(None, None, cur[k], old[k]) is True) for k in old)
        if not same:
            bad.append(getattr(o, "label", repr(o)))
    return bad


def reachable_owned(h, sim, disk=True):
    """owned mutable objects reachable from a simulation (ownership declaration in the module docstring)"""
    out = []
    f = sim.fields
    out += [sim, f.get("populations"), f.get("invalidated_caches"), f.get("tracer")]
    pops = f.get("populations")
    for pop in (pops.items.values() if isinstance(pops, DictVal) else []):
        out += [pop, pop.fields.get("_holders")]
        hs = pop.fields.get("_holders")
        for hd in (hs.items.values() if isinstance(hs, DictVal) else []):
            out.append(hd)
            for st in ("_memory_storage", "_disk_storage") if disk else ("_memory_storage",):
                s = hd.fields.get(st)
                if isinstance(s, Obj):
                    out.append(s)
                    for tb in ("_arrays", "_files", "_enums"):
                        if isinstance(s.fields.get(tb), DictVal):
                            out.append(s.fields[tb])
    return [o for o in out if o is not None]


def holder_checks(I, new, old, pop, sim, tag):
    res = []
    ok = isinstance(new, Obj) and new is not old
    res.append((f"{tag}-is-a-new-holder", ok))
    if not isinstance(new, Obj):
        return res
    res.append((f"{tag}-belongs-to-the-clone-population", new.fields.get("population") is pop))
    res.append((f"{tag}-belongs-to-the-clone-simulation", new.fields.get("simulation") is sim))
    res.append((f"{tag}-same-variable", new.fields.get("variable") is old.fields["variable"]))
    for st, tables in (("_memory_storage", ("_arrays",)), ("_disk_storage", ("_files", "_enums"))):
        so, sn = old.fields.get(st), new.fields.get(st)
        if so is None:
            res.append((f"{tag}{st}-absent-as-in-the-original", sn is None))
            continue
        res.append((f"{tag}{st}-is-its-own-object", isinstance(sn, Obj) and sn is not so))
        if isinstance(sn, Obj):
            res.append((f"{tag}{st}-has-the-settings-of-the-original's", all(sn.fields.get(k) == so.fields.get(k) for k in ("is_eternal", "preserve_storage_dir", "storage_dir")
                                                                           if k in so.fields)))
            for tb in tables:
                to, tn = so.fields.get(tb), sn.fields.get(tb)
                res.append((f"{tag}{st}{tb}-is-its-own-table", isinstance(tn, DictVal) and tn is not to))
                if isinstance(tn, DictVal) and isinstance(to, DictVal):
                    res.append((f"{tag}{st}{tb}-same-content",
                                set(tn.items) == set(to.items) and all(tn.items[k] is to.items[k] for k in to.items)))
    return res


def _probe(name, scenario):
    return {"callee": name, "script": "import sys; sys.path.insert(0, '/verif/native')\nimport c13_replay\n"
            "outcome = c13_replay.run(call['scenario'])\n", "scenario": scenario}


class _NativeJudge:
    scenarios = ()

    def probes(self, case):
        return [_probe(self.name, s) for s in self.scenarios]

    def call_descriptor(self, I, case, a, ev):
        return None

    def judge_native(self, I, case, call, nat):
        if nat.get("kind") != "return":
            return "violates", "scenario raised " + nat.get("exc", "?") + ": " + nat.get("msg", "")
        v = nat["value"]
        return ("satisfies", "scenario " + call["scenario"] + " ok") if v["ok"] else ("violates", call["scenario"] + ": " + "; ".join(v["detail"]))


class HolderClone(_NativeJudge, Contract):
    scenarios = ("write-on-clone-person-variable", "delete-on-clone-person-variable", "disk-backed-delete-on-clone", "eternal-variable", "rewrite-on-clone-same-period", "set-input-again-on-clone")
    name = f"{HOLDER}.clone"
    prop = ("C13",)
    top_level = True
    cases = ("memory-only", "disk-backed", "nothing-stored-yet", "eternal-variable")
    descr = ("a cloned holder belongs to the population given, owns its own storages with equal content and the same settings (a "
             "variable defined for eternity keeps its single entry readable at every period), shares the variable")
    inline = ("openfisca_core.commons.misc.empty_clone", "openfisca_core.commons.misc.empty_clone.<locals>.__init__",
              MEM + ".*", "openfisca_core.periods.helpers.period*")

    def setup(self, I, ctx, case):
        h = Heap(I, ctx)
        newsim = Obj(I.resolve_qualified(SIM), {}, label="sim2")
        newpop = Obj(I.resolve_qualified(POP), {"simulation": newsim, "entity": h.person_entity}, label="persons2")
        target = {"memory-only": h.h_salary, "disk-backed": h.h_age, "nothing-stored-yet": h.h_bonus, "eternal-variable": h.h_birth}[case]
        return {"self": target, "population": newpop, "__heap": h, "__snap": snapshot(reachable_owned(h, h.sim))}

    def post(self, I, ctx, a, out, old):
        if out[0] != "return":
            return [("no-exception", False)]
        res = holder_checks(I, out[1], a["self"], a["population"], a["population"].fields["simulation"], "holder")
        res.append(("original-untouched", not unchanged(a["__snap"])))
        return res


class PopulationClone(_NativeJudge, Contract):
    scenarios = ("person-holder-binding", "same-content", "projection-used-before-cloning")
    name = f"{POP}.clone"
    prop = ("C13",)
    top_level = True
    descr = "a cloned population refers to the simulation given; each of its holders is a clone bound to it"
    inline = (f"{POP}.__init__", "openfisca_core.populations._core_population.CorePopulation.__init__")

    cases = (None, "projections-were-used-before")

    def setup(self, I, ctx, case):
        h = Heap(I, ctx)
        newsim = Obj(I.resolve_qualified(SIM), {}, label="sim2")
        if case is not None:
            # history: formulas used person.household / person.family before the simulation was cloned (the real attribute look-up runs)
            for shortcut in ("household", "family"):
                try:
                    I.getattr(ctx, h.persons, shortcut)
                except Exception:
                    pass
        return {"self": h.persons, "simulation": newsim, "__heap": h, "__snap": snapshot(reachable_owned(h, h.sim))}

    @staticmethod
    def _refers_to_original(v, originals, depth=0):
        """v is, or is a projector onto / from, a population of the original simulation"""
        if any(v is o for o in originals):
            return True
        if isinstance(v, Obj) and v.cls.name.endswith("Projector") and depth < 4:
            return any(PopulationClone._refers_to_original(x, originals, depth + 1) for x in v.fields.values())
        return False

    def _pop_checks(self, I, ctx, new, old, sim):
        res = [("new-population", isinstance(new, Obj) and new is not old)]
        if not isinstance(new, Obj):
            return res
        h = self._heap
        originals = [h.persons, h.households, h.families, h.sim]
        bad = sorted(k for k, v in new.fields.items() if k != "members" and self._refers_to_original(v, originals))
        res.append(("no-attribute-of-the-clone-refers-to-the-original-simulation-or-its-populations (not even through a projector)" + (": " + ",".join(bad) if bad else ""), not bad))
        res.append(("refers-to-the-clone-simulation", new.fields.get("simulation") is sim))
        res.append(("same-entity", new.fields.get("entity") is old.fields["entity"]))
        res.append(("same-count", B._zb(B.eq_formula(I, ctx, new.fields.get("count"), old.fields["count"]))))
        res.append(("same-ids", new.fields.get("ids") is old.fields["ids"]))
        hn, ho = new.fields.get("_holders"), old.fields["_holders"]
        res.append(("own-holders-table", isinstance(hn, DictVal) and hn is not ho and set(hn.items) == set(ho.items)))
        if isinstance(hn, DictVal) and set(hn.items) == set(ho.items):
            for k in ho.items:
                hv, ov = hn.items[k], ho.items[k]
                nm = ho.keyvals[k]
                res.append((f"holder-{nm}-bound-to-the-clone-population", isinstance(hv, Obj) and hv is not ov and hv.fields.get("population") is new))
                res.append((f"holder-{nm}-bound-to-the-clone-simulation", isinstance(hv, Obj) and hv.fields.get("simulation") is sim))
        return res

    def post(self, I, ctx, a, out, old):
        if out[0] != "return":
            return [("no-exception", False)]
        self._heap = a["__heap"]
        res = self._pop_checks(I, ctx, out[1], a["self"], a["simulation"])
        res.append(("original-untouched", not unchanged(a["__snap"])))
        return res


class GroupPopulationClone(PopulationClone):
    cases = (None,)
    scenarios = ("group-holder-binding", "write-on-clone-group-variable")
    name = f"{GPOP}.clone"
    descr = ("a cloned group population refers to the simulation given, keeps its membership arrays; each of its holders is "
             "a clone bound to it")
    inline = (f"{GPOP}.__init__", f"{POP}.__init__", "openfisca_core.populations._core_population.CorePopulation.__init__")

    def setup(self, I, ctx, case):
        h = Heap(I, ctx)
        newsim = Obj(I.resolve_qualified(SIM), {}, label="sim2")
        return {"self": h.households, "simulation": newsim, "__heap": h, "__snap": snapshot(reachable_owned(h, h.sim))}

    def post(self, I, ctx, a, out, old):
        res = super().post(I, ctx, a, out, old)
        if out[0] == "return" and isinstance(out[1], Obj):
            for f in ("_members_entity_id", "_members_role", "_members_position", "_ordered_members_map"):
                res.append((f"same{f}", out[1].fields.get(f) is a["self"].fields[f]))
        return res


class HolderCloneSite(Contract):
    """call-site contract of Holder.clone (what HolderClone proves)"""
    name = f"{HOLDER}.clone"
    prop = ()

    def outcomes(self, I, ctx, a, old):
        o = a["self"]
        pop = a["population"]
        new = Obj(o.cls, dict(o.fields), label=o.label + "'")
        new.fields["population"] = pop
        new.fields["simulation"] = pop.fields.get("simulation")
        for st, tables in (("_memory_storage", ("_arrays",)), ("_disk_storage", ("_files", "_enums"))):
            s = o.fields.get(st)
            if isinstance(s, Obj):
                s2 = Obj(s.cls, dict(s.fields), label=s.label + "'")
                for tb in tables:
                    t = s.fields.get(tb)
                    if isinstance(t, DictVal):
                        t2 = DictVal()
                        t2.items.update(t.items)
                        t2.keyvals.update(t.keyvals)
                        s2.fields[tb] = t2
                new.fields[st] = s2
        return ("return", new)

    def post(self, I, ctx, a, out, old):
        return []


class SimulationClone(_NativeJudge, Contract):
    scenarios = ("marks-shared", "members-binding", "group-holder-binding", "write-on-clone-person-variable", "same-content")
    name = f"{SIM}.clone"
    prop = ("C13",)
    top_level = True
    cases = ("plain", "trace", "default-arguments", "default-arguments-of-a-traced-simulation")
    descr = ("every part of a cloned simulation refers to the clone; owned tables, mark set and tracer are its own - also when "
             "clone() is called without arguments, on a traced simulation or not; the original is untouched")
    inline = ("openfisca_core.commons.misc.empty_clone", "openfisca_core.commons.misc.empty_clone.<locals>.__init__",
              f"{SIM}.trace", f"{POP}.clone", f"{GPOP}.clone", f"{GPOP}.__init__", f"{POP}.__init__",
              "openfisca_core.populations._core_population.CorePopulation.__init__",
              "openfisca_core.tracers.simple_tracer.SimpleTracer.__init__", "openfisca_core.tracers.full_tracer.FullTracer.__init__")

    def setup(self, I, ctx, case):
        h = Heap(I, ctx)
        a = {"self": h.sim, "__heap": h, "__case": case}
        if case.startswith("default-arguments"):
            if case.endswith("traced-simulation"):
                R = I.resolve_qualified
                h.sim.fields["_trace"] = True
                h.sim.fields["tracer"] = Obj(R("openfisca_core.tracers.full_tracer.FullTracer"), {"_simple_tracer": Obj(R("openfisca_core.tracers.simple_tracer.SimpleTracer"), {"_stack": ListVal([])}, label="simple"),
                                                                                              "_trees": ListVal([]), "_current_node": None}, label="full-tracer")
        else:
            a.update({"debug": False, "trace": case == "trace"})
        a["__snap"] = snapshot(reachable_owned(h, h.sim))
        return a

    def post(self, I, ctx, a, out, old):
        if out[0] != "return" or not isinstance(out[1], Obj):
            return [("returns-a-simulation", False)]
        new, sim, h = out[1], a["self"], a["__heap"]
        f = new.fields
        res = [("new-simulation", new is not sim),
               ("same-rule-system", f.get("tax_benefit_system") is sim.fields["tax_benefit_system"]),
               ("own-populations-table", isinstance(f.get("populations"), DictVal) and f["populations"] is not sim.fields["populations"]),
               ("own-mark-set", isinstance(f.get("invalidated_caches"), SetVal) and f["invalidated_caches"] is not sim.fields["invalidated_caches"]),
               ("own-tracer", isinstance(f.get("tracer"), Obj) and f["tracer"] is not sim.fields["tracer"]),
               ("trace-setting-as-requested", f.get("_trace") is a["trace"]) if "trace" in a else
               ("own-tracer-has-its-own-stack", isinstance(f.get("tracer"), Obj) and f["tracer"] is not sim.fields["tracer"])]
        pops = f.get("populations")
        if isinstance(pops, DictVal):
            res.append(("same-population-keys", set(pops.items) == set(sim.fields["populations"].items)))
            pc = PopulationClone()
            pc._heap = h
            for k, oldpop in sim.fields["populations"].items.items():
                nm = sim.fields["populations"].keyvals[k]
                newpop = pops.items.get(k)
                for name, fm in pc._pop_checks(I, ctx, newpop, oldpop, new):
                    res.append((f"{nm}-{name}", fm))
                res.append((f"{nm}-shortcut-attribute-is-the-clone-population", f.get(nm) is newpop))
                if isinstance(newpop, Obj):
                    hn, ho = newpop.fields.get("_holders"), oldpop.fields["_holders"]
                    if isinstance(hn, DictVal) and set(hn.items) == set(ho.items):
                        for hk in ho.items:
                            res += holder_checks(I, hn.items[hk], ho.items[hk], newpop, new, f"{nm}-{ho.keyvals[hk]}-")
            res.append(("persons-attribute-is-the-clone-person-population", f.get("persons") is pops.items.get(("c", "person"))))
            for gk in ("family", "household"):
                g = pops.items.get(("c", gk))
                res.append((f"{gk}-members-are-the-clone-persons", isinstance(g, Obj) and g.fields.get("members") is f.get("persons")))
        # disjoint footprints
        # (disk storages have their own clauses above)
        mine = {id(o) for o in reachable_owned(h, new, disk=False)}
        theirs = {id(o): o for o in reachable_owned(h, sim, disk=False)}
        shared = [getattr(theirs[i], "label", "?") for i in mine if i in theirs]
        res.append(("owned-in-memory-objects-disjoint-from-the-original", not shared))
        res.append(("original-untouched", not unchanged(a["__snap"])))
        return res


CONTRACTS = [HolderClone(), PopulationClone(), GroupPopulationClone(), SimulationClone()]
PopulationClone.local_contracts = staticmethod(lambda: {HolderCloneSite.name: HolderCloneSite()})
GroupPopulationClone.local_contracts = staticmethod(lambda: {HolderCloneSite.name: HolderCloneSite()})
SimulationClone.local_contracts = staticmethod(lambda: {HolderCloneSite.name: HolderCloneSite()})
