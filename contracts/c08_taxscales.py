"""C08 -- tax scales compute their mathematical definition for every base (DESIGN 4 C08, 3.4).
Scales with a symbolic number n >= 1 of brackets (thresholds strictly increasing) and a symbolic vector of bases;
results are reduction nodes compared pointwise on (base index, bracket index); floats are reals, eps = 0."""
from __future__ import annotations

import z3

from pyvc import builtins_ as B
from pyvc import nparr
from pyvc import smt
from pyvc.contract import Contract
from pyvc.values import Builtin, ClassVal, DictVal, ExcVal, ListVal, Obj, Opaque, SeqVal, Sym, SymList, TupleVal, Unsupported

from .common import *  # noqa

TS = "openfisca_core.taxscales"
MR = f"{TS}.marginal_rate_tax_scale.MarginalRateTaxScale"
MA = f"{TS}.marginal_amount_tax_scale.MarginalAmountTaxScale"
SA = f"{TS}.single_amount_tax_scale.SingleAmountTaxScale"
LA = f"{TS}.linear_average_rate_tax_scale.LinearAverageRateTaxScale"
RL = f"{TS}.rate_tax_scale_like.RateTaxScaleLike"
AL = f"{TS}.amount_tax_scale_like.AmountTaxScaleLike"


class ScaleWorld:
    def __init__(self, I, ctx, cls, second="rates", min_brackets=1, strict=True):
        self.n = ctx.fresh_int("n")
        self.L = ctx.fresh_int("L")
        ctx.assume(z3.And(self.n >= min_brackets, self.L >= 1))
        self.T = z3.Function(ctx.fresh_name("T"), z3.IntSort(), z3.RealSort())       # thresholds
        self.R = z3.Function(ctx.fresh_name("R"), z3.IntSort(), z3.RealSort())       # rates / amounts
        self.Bs = z3.Function(ctx.fresh_name("BASE"), z3.IntSort(), z3.RealSort())   # tax bases
        a, b = z3.Ints("a_t b_t")
        ctx.assume(z3.ForAll([a, b], z3.Implies(z3.And(0 <= a, a < b, b < self.n), self.T(a) < self.T(b) if strict else self.T(a) <= self.T(b)),
                             patterns=[z3.MultiPattern(self.T(a), self.T(b))]))
        n, L = self.n, self.L
        self.thresholds = SymList(SeqVal(n, lambda k: Sym(self.T(B._z(k))), "thresholds"))
        self.values = SymList(SeqVal(n, lambda k: Sym(self.R(B._z(k))), second))
        self.base = nparr.NArr(L, lambda i: Sym(self.Bs(B._z(i))), "float", "tax_base")
        self.scale = Obj(I.resolve_qualified(cls), {"name": "scale", "option": None, "unit": None, "thresholds": self.thresholds,
                                                    second: self.values}, label="scale")


def earlier_call_then_in_place_change(contract, I, ctx, a, w, second="rates"):
    """history for the calc contracts: the same function was called on this scale object before, when its lists held other
    thresholds / values (as many of them), and the lists were then changed in place (what multiply_rates / multiply_thresholds /
    add_bracket on an existing threshold do). The call under verification must compute the scale as it is now."""
    T0, R0 = fresh_fn0(ctx, "T_before"), fresh_fn0(ctx, "R_before")
    x, y = z3.Ints("a_h b_h")
    ctx.assume(z3.ForAll([x, y], z3.Implies(z3.And(0 <= x, x < y, y < w.n), T0(x) < T0(y)), patterns=[z3.MultiPattern(T0(x), T0(y))]))
    now = (w.thresholds.seq, w.values.seq)
    w.thresholds.seq = SeqVal(w.n, lambda k: Sym(T0(B._z(k))), "thresholds-before")
    w.values.seq = SeqVal(w.n, lambda k: Sym(R0(B._z(k))), second + "-before")
    f, _ = contract.target(I)
    ctx.depth += 1
    try:
        I.inline_call(ctx, f, [], {k: v for k, v in a.items() if not k.startswith("__")})
    finally:
        ctx.depth -= 1
    w.thresholds.seq, w.values.seq = now
    ctx.ghost.pop("dotsums", None)


def fresh_fn0(ctx, name):
    return z3.Function(ctx.fresh_name(name), z3.IntSort(), z3.RealSort())


def skolem(ctx, w):
    i, k = ctx.fresh_int("i"), ctx.fresh_int("k")
    return i, k, z3.And(i >= 0, i < w.L, k >= 0, k < w.n)


def part(w, b, k):
    """the part of base b lying inside bracket k (t_n = +inf)"""
    upper = z3.If(k + 1 < w.n, z3.If(b <= w.T(k + 1), b, w.T(k + 1)), b)
    d = upper - w.T(k)
    return z3.If(d >= 0, d, 0)


NATIVE = "import sys; sys.path.insert(0, '/verif/native')\nimport c08_replay\noutcome = c08_replay.run(call)\n"


class _CalcReplay:
    kind = ""

    def probes(self, case):
        if isinstance(case, str) and case.endswith("in-place-change"):
            return BRACKET_PROBES(self)
        out = []
        for t, v in (([0, 10, 20], [0.1, 0.2, 0.4]), ([5, 15], [1.0, 3.0]), ([0], [0.5]), ([2, 4, 6, 8], [0.0, 0.5, 0.25, 1.0])):
            bases = sorted(set([-1.0, 0.0] + [float(x) for x in t] + [x + 0.5 for x in t] + [x - 0.5 for x in t] + [100.0]))
            out.append({"callee": self.name, "script": NATIVE, "kind": self.kind, "thresholds": t, "values": v, "bases": bases})
        return out

    def small_model(self, I, case, a):
        return [a["__w"].n <= 3, a["__w"].L <= 2]

    def call_descriptor(self, I, case, a, ev):
        w = a["__w"]
        n, L = ev(w.n), ev(w.L)
        if n > 8 or L > 8 or "round_base_decimals" in a:
            return None      # the solver's rounding function is uninterpreted: its models do not replay; the probes do
        real = lambda v: v[0] / v[1] if isinstance(v, list) else float(v)
        return {"callee": self.name, "script": NATIVE, "kind": self.kind,
                "thresholds": [real(ev(w.T(z3.IntVal(k)))) for k in range(n)], "values": [real(ev(w.R(z3.IntVal(k)))) for k in range(n)],
                "bases": [real(ev(w.Bs(z3.IntVal(i)))) for i in range(L)], **({"factor": real(ev(B.zreal(a["factor"])))} if "factor" in a else {})}

    def judge_native(self, I, case, call, nat):
        if nat.get("kind") == "harness-error":
            return "undecided", str(nat)[:300]
        if nat["kind"] == "raise":
            return "violates", "raised " + nat.get("exc", "") + ": " + nat.get("msg", "")
        return ("satisfies", "as specified") if nat["value"].get("ok") else ("violates", str(nat["value"])[:300])


class MarginalRateCalc(_CalcReplay, Contract):
    kind = "marginal_rate"
    name = f"{MR}.calc"
    prop = ("C08",)
    top_level = True
    cases = ("default-factor", "factor", "factor-and-rounding", "default-factor-after-an-earlier-calc-and-an-in-place-change")
    descr = ("a marginal-rate scale returns, for each base, the sum over brackets of the rate times the part of the base inside the "
             "bracket (with a threshold factor: thresholds scaled by it; with rounding: scaled thresholds, parts and products each "
             "rounded to the given decimals) - of the scale as it is at the time of the call")

    def setup(self, I, ctx, case):
        w = ScaleWorld(I, ctx, MR)
        a = {"self": w.scale, "tax_base": w.base, "__w": w}
        if case.endswith("in-place-change"):
            earlier_call_then_in_place_change(self, I, ctx, a, w)
            return a
        if case != "default-factor":
            f = ctx.fresh_real("factor")
            ctx.assume(f > 0)
            a["factor"] = Sym(f)
        if case == "factor-and-rounding":
            d = ctx.fresh_int("decimals")
            a["round_base_decimals"] = Sym(d)
        return a

    def probes(self, case):
        if case.endswith("in-place-change"):
            return BRACKET_PROBES(self)
        out = _CalcReplay.probes(self, case)
        if case == "factor-and-rounding":
            out = [dict(p, factor=1.5, decimals=0, thresholds=[0, 100.4, 200.3], values=[0.0, 1.0, 0.5], bases=[50.0, 151.0, 200.0, 301.0, 1000.0]) for p in out[:1]] + \
                  [dict(p, factor=1.3, decimals=1, thresholds=[0, 100.12], values=[0.0, 1.0], bases=[500.0, 130.1, 130.2]) for p in out[:1]]
        elif case == "factor":
            out = [dict(p, factor=2.5) for p in out] + [dict(p, factor=0.5) for p in out[:2]]
        return out

    def post(self, I, ctx, a, out, old):
        w = a["__w"]
        if out[0] != "return" or not isinstance(out[1], nparr.DotSum):
            return [("returns-a-sum-over-brackets-per-base", False)]
        r = out[1]
        i, k, rng = skolem(ctx, w)
        f = B.zreal(a["factor"]) if "factor" in a else z3.RealVal(1)
        b = w.Bs(i)
        if "round_base_decimals" in a:
            dec = B._z(a["round_base_decimals"])
            rnd = lambda x: nparr.NPROUND(x, dec)
        else:
            rnd = lambda x: x
        upper = z3.If(k + 1 < w.n, z3.If(b <= rnd(f * w.T(k + 1)), b, rnd(f * w.T(k + 1))), b)
        d = upper - rnd(f * w.T(k))
        want = rnd(w.R(k) * rnd(z3.If(d >= 0, d, 0)))
        return [("one-result-per-base", B._z(r.n) == w.L), ("one-term-per-bracket", B._z(r.inner) == w.n),
                ("term-is-rate-times-the-part-of-the-base-inside-the-bracket", z3.Implies(rng, B.zreal(r.term(i, k)) == want))]


class MarginalAmountCalc(_CalcReplay, Contract):
    kind = "marginal_amount"
    name = f"{MA}.calc"
    prop = ("C08",)
    top_level = True
    descr = "a marginal-amount scale returns, for each base, the sum of the amounts of all brackets whose threshold lies below the base"

    def setup(self, I, ctx, case):
        w = ScaleWorld(I, ctx, MA, second="amounts")
        return {"self": w.scale, "tax_base": w.base, "__w": w}

    def post(self, I, ctx, a, out, old):
        w = a["__w"]
        if out[0] != "return" or not isinstance(out[1], nparr.DotSum):
            return [("returns-a-sum-over-brackets-per-base", False)]
        r = out[1]
        i, k, rng = skolem(ctx, w)
        want = z3.If(w.T(k) < w.Bs(i), w.R(k), 0)
        return [("one-result-per-base", B._z(r.n) == w.L), ("one-term-per-bracket", B._z(r.inner) == w.n),
                ("term-is-the-amount-when-the-threshold-lies-below-the-base", z3.Implies(rng, B.zreal(r.term(i, k)) == want))]


class SingleAmountCalc(_CalcReplay, Contract):
    kind = "single_amount"
    name = f"{SA}.calc"
    prop = ("C08",)
    top_level = True
    descr = ("a single-amount scale returns, for each base, the amount of the one bracket containing it (nothing below the first "
             "threshold)")

    def setup(self, I, ctx, case):
        w = ScaleWorld(I, ctx, SA, second="amounts")
        return {"self": w.scale, "tax_base": w.base, "__w": w}

    def post(self, I, ctx, a, out, old):
        w = a["__w"]
        if out[0] != "return" or not isinstance(out[1], nparr.NArr):
            return [("returns-an-array", False)]
        r = out[1]
        i, k, rng = skolem(ctx, w)
        b = w.Bs(i)
        ri = B.zreal(r.elem(i))
        inside = z3.And(w.T(k) <= b, z3.Implies(k + 1 < w.n, b < w.T(k + 1)))
        return [("one-result-per-base", B._z(r.n) == w.L),
                ("amount-of-the-bracket-containing-the-base", z3.Implies(z3.And(rng, inside), ri == w.R(k))),
                ("nothing-below-the-first-threshold", z3.Implies(z3.And(i >= 0, i < w.L, b < w.T(0)), ri == 0))]


class LinearAverageCalc(_CalcReplay, Contract):
    kind = "linear_average"
    name = f"{LA}.calc"
    prop = ("C08",)
    top_level = True
    cases = ("several-brackets", "one-bracket", "several-brackets-after-an-earlier-calc-and-an-in-place-change")
    descr = ("a linear-average-rate scale returns, for a base between two thresholds, the base times the rate linearly "
             "interpolated between them - of the scale as it is at the time of the call, also when calc was used before and the "
             "scale was changed in place since")

    def setup(self, I, ctx, case):
        w = ScaleWorld(I, ctx, LA, min_brackets=1 if case == "one-bracket" else 2)
        if case == "one-bracket":
            ctx.assume(w.n == 1)
        a = {"self": w.scale, "tax_base": w.base, "__w": w}
        if case.endswith("in-place-change"):
            earlier_call_then_in_place_change(self, I, ctx, a, w)
        return a

    def post(self, I, ctx, a, out, old):
        w = a["__w"]
        if out[0] != "return" or not isinstance(out[1], nparr.NArr):
            return [("returns-an-array", False)]
        r = out[1]
        i = ctx.fresh_int("i")
        b = w.Bs(i)
        ri = B.zreal(r.elem(i))
        res = [("one-result-per-base", B._z(r.n) == w.L)]
        nodes = ctx.ghost.get("dotsums", [])
        if not nodes:
            return res + [("single-rate-scale-is-base-times-rate", z3.Implies(z3.And(i >= 0, i < w.L, w.n == 1), ri == b * w.R(0)))]
        k = ctx.fresh_int("k")
        inside = z3.And(i >= 0, i < w.L, k >= 0, k + 1 < w.n, w.T(k) <= b, b < w.T(k + 1))
        lemma = z3.And(*[nd.select_instance(i, k) for nd in nodes])
        want = b * (w.R(k) + (b - w.T(k)) * (w.R(k + 1) - w.R(k)) / (w.T(k + 1) - w.T(k)))
        res.append(("base-times-the-rate-interpolated-between-the-two-thresholds", z3.Implies(z3.And(inside, lemma), ri == want)))
        return res


class MarginalRates(Contract):
    name = f"{MR}.marginal_rates"
    prop = ("C08",)
    top_level = True
    descr = "the marginal rate reported for a base is the rate of the bracket reported for it"

    cases = (None, "factor-and-rounding", "after-an-earlier-look-up-and-an-in-place-change")

    def setup(self, I, ctx, case):
        w = ScaleWorld(I, ctx, MR)
        ctx.ghost["sw"] = w
        a = {"self": w.scale, "tax_base": w.base, "__w": w}
        if case and case.startswith("after-an-earlier"):
            # history: the same look-up on this scale object when its lists held other thresholds / rates (as many), then the
            # lists changed in place; what is reported now is of the scale as it is now
            earlier_call_then_in_place_change(self, I, ctx, a, w)
            ctx.ghost["log"] = [e for e in ctx.ghost.get("log", []) if e["callee"] != "bracket_indices"]
            ctx.ghost.pop("BIDX", None)
            return a
        if case == "factor-and-rounding" and self.name.endswith("marginal_rates"):
            f = ctx.fresh_real("factor")
            ctx.assume(f > 0)
            a["factor"] = Sym(f)
            a["round_base_decimals"] = Sym(ctx.fresh_int("decimals"))
        return a

    @staticmethod
    def local_contracts():
        from .c18_engine import rec

        def mk(I, ctx, a):
            w = ctx.ghost["sw"]
            J = z3.Function(ctx.fresh_name("BIDX"), z3.IntSort(), z3.IntSort())
            ctx.ghost["BIDX"] = J
            i = z3.Int("i_b")
            ctx.assume(z3.ForAll([i], z3.Implies(z3.And(i >= 0, i < w.L), z3.And(J(i) >= -1, J(i) < w.n)), patterns=[J(i)]))
            return nparr.NArr(w.L, lambda q: Sym(J(B._z(q))), "int", "bracket_indices")
        return {f"{RL}.bracket_indices": rec(f"{RL}.bracket_indices", "bracket_indices", [("return", mk)])}

    def post(self, I, ctx, a, out, old):
        from .c18_engine import log_of
        w = a["__w"]
        bi = log_of(ctx, "bracket_indices")
        if out[0] != "return" or not isinstance(out[1], nparr.NArr) or len(bi) != 1:
            return [("one-bracket-lookup", False)]
        r = out[1]
        J = ctx.ghost["BIDX"]
        i = ctx.fresh_int("i")
        fwd = []
        if "factor" in a:
            got = bi[0]["args"]
            fwd = [("bracket-looked-up-with-the-same-threshold-factor-and-rounding",
                    got.get("factor") is a["factor"] and (got.get("round_decimals") is a["round_base_decimals"]))]
        return fwd + [("bracket-looked-up-for-the-same-bases", bi[0]["args"]["tax_base"] is a["tax_base"]),
                ("one-result-per-base", B._z(r.n) == w.L),
                (self.clause, z3.Implies(z3.And(i >= 0, i < w.L, J(i) >= 0), B.zreal(r.elem(i)) == self.field(w)(J(i))))]

    clause = "rate-of-the-reported-bracket"
    field = staticmethod(lambda w: w.R)


class RateFromTaxBase(MarginalRates):
    name = f"{MR}.rate_from_tax_base"
    descr = "the rate reported for a base is the rate of the bracket reported for it (through rate_from_bracket_indice, inlined)"
    inline = (f"{MR}.rate_from_bracket_indice",)


class ThresholdFromTaxBase(MarginalRates):
    name = f"{RL}.threshold_from_tax_base"
    descr = "the threshold reported for a base is the threshold of the bracket reported for it"
    clause = "threshold-of-the-reported-bracket"
    field = staticmethod(lambda w: w.T)


NATIVE_BRACKETS = "import sys; sys.path.insert(0, '/verif/native')\nimport c08_replay\noutcome = c08_replay.run_brackets(call)\n"


def BRACKET_PROBES(self):
    """bases off the (scaled) thresholds: at a base equal to a threshold the code's `factor + eps` puts it in the bracket below (stated
    assumption eps = 0); with factors below and above one; plus the calc / in-place change / calc history"""
    return [{"callee": self.name, "script": NATIVE_BRACKETS, "thresholds": [0, 1000, 2000, 8000], "values": [0.0, 0.1, 0.2, 0.45],
             "bases": [600.0, 1200.0, 9000.0, 0.0, 1001.0, 4001.0, 499.0, 501.0], "factors": [1.0, 0.5, 2.0]},
            {"callee": self.name, "script": NATIVE_BRACKETS, "thresholds": [10, 20], "values": [0.5, 0.25], "bases": [15.0, 25.0, 12.0, 41.0], "factors": [1.0, 2.0]}]


def bracket_judge(nat):
    if nat.get("kind") == "harness-error":
        return "undecided", str(nat)[:300]
    if nat["kind"] == "raise":
        return "violates", "raised " + nat.get("exc", "") + ": " + nat.get("msg", "")
    return ("satisfies", "as specified") if nat["value"].get("ok") else ("violates", "; ".join(nat["value"].get("mismatches", []))[:500])


MarginalRates.probes = lambda self, case: BRACKET_PROBES(self)
MarginalRates.judge_native = lambda self, I, case, call, nat: bracket_judge(nat)


class BracketIndices(Contract):
    name = f"{RL}.bracket_indices"
    prop = ("C08",)
    top_level = True
    descr = ("the bracket reported for a base counts the thresholds at or below it (minus one), which for sorted thresholds is the "
             "bracket containing the base (lemma)")

    cases = (None, "factor-and-rounding")

    def probes(self, case):
        return BRACKET_PROBES(self)

    def judge_native(self, I, case, call, nat):
        return bracket_judge(nat)

    def setup(self, I, ctx, case):
        w = ScaleWorld(I, ctx, MR)
        a = {"self": w.scale, "tax_base": w.base, "__w": w}
        if case == "factor-and-rounding":
            f = ctx.fresh_real("factor")
            ctx.assume(f > 0)
            a["factor"] = Sym(f)
            a["round_decimals"] = Sym(ctx.fresh_int("decimals"))
        return a

    def post(self, I, ctx, a, out, old):
        w = a["__w"]
        if out[0] != "return" or not isinstance(out[1], nparr.NArr):
            return [("returns-an-array", False)]
        r = out[1]
        # r = rowsum(...) - 1: recover the reduction node
        import ast
        org = getattr(r, "origin", None)
        node = org[1] if org and isinstance(org[0], ast.Sub) and org[2] == 1 else None
        if not isinstance(node, nparr.DotSum):
            return [("is-a-count-of-thresholds-minus-one", False)]
        i, k, rng = skolem(ctx, w)
        th = w.T
        if "round_decimals" in a:   # with a factor and rounding: the thresholds are scaled, then rounded
            th = lambda q: nparr.NPROUND(B.zreal(a["factor"]) * w.T(q), B._z(a["round_decimals"]))
        return [("one-result-per-base", B._z(r.n) == w.L), ("one-term-per-threshold", B._z(node.inner) == w.n),
                ("counts-exactly-the-thresholds-at-or-below-the-base",
                 z3.Implies(rng, B.zreal(node.term(i, k)) == z3.If(th(k) <= w.Bs(i), z3.RealVal(1), z3.RealVal(0))))]


def in_bracket(T, n, x, k):
    """x lies in bracket k of the scale with thresholds T[0..n)"""
    return z3.And(k >= 0, k < n, T(k) <= x, z3.Or(k + 1 >= n, x < T(k + 1)))


def below_first(T, n, x):
    return z3.Or(n <= 0, x < T(0))


def fresh_fn(ctx, name):
    return z3.Function(ctx.fresh_name(name), z3.IntSort(), z3.RealSort())


class State:
    """thresholds / rates of a scale at one moment, as functions of the position"""

    def __init__(self, T, R, n):
        self.T, self.R, self.n = T, R, n


def state_of(I, ctx, scale, second="rates"):
    th, rt = I.as_seq(ctx, scale.fields["thresholds"]), I.as_seq(ctx, scale.fields[second])

    def fn(seq):
        if isinstance(seq.length, int):        # a concrete list: position -> element as nested if-then-else
            def f(q):
                e = z3.RealVal(0)
                for j in reversed(range(seq.length)):
                    e = z3.If(B._z(q) == j, B.zreal(seq.elem(j)), e)
                return e
            return f
        return lambda q: B.zreal(seq.elem(q))
    return State(fn(th), fn(rt), B._z(th.length)), B._z(rt.length)


def positional_facts(before, after, p, present, t, r, q):
    """what add_bracket does, position by position (free index q)"""
    if present:
        return [after.n == before.n, z3.And(p >= 0, p < before.n, before.T(p) == t),
                z3.Implies(z3.And(q >= 0, q < before.n), z3.And(after.T(q) == before.T(q), after.R(q) == before.R(q) + z3.If(q == p, r, 0)))]
    return [after.n == before.n + 1, z3.And(p >= 0, p <= before.n),
            z3.Implies(z3.And(q >= 0, q < before.n), z3.And((q < p) == (before.T(q) < t), before.T(q) != t)),
            z3.Implies(z3.And(q >= 0, q <= before.n),
                       z3.And(after.T(q) == z3.If(q < p, before.T(q), z3.If(q == p, t, before.T(q - 1))),
                              after.R(q) == z3.If(q < p, before.R(q), z3.If(q == p, r, before.R(q - 1)))))]


class AddBracket(Contract):
    name = f"{RL}.add_bracket"
    prop = ("C08", "C09")
    top_level = True
    cases = ("rates",)
    descr = ("adding a bracket keeps thresholds strictly increasing and updates the scale's threshold -> value view only at that "
             "threshold (new entry, or value added to the existing one): the update commutes, and a strictly increasing list is "
             "determined by its view (lemma sorted-list-is-determined-by-its-view), so insertion order is irrelevant")

    def setup(self, I, ctx, case):
        w = ScaleWorld(I, ctx, MR if case == "rates" else MA, second=case, min_brackets=0)
        t, r = ctx.fresh_real("t_new"), ctx.fresh_real("r_new")
        key = "rate" if case == "rates" else "amount"
        return {"self": w.scale, "threshold": Sym(t), key: Sym(r), "__w": w, "__t": t, "__r": r, "__second": case}

    def post(self, I, ctx, a, out, old):
        w, t, r, second = a["__w"], a["__t"], a["__r"], a["__second"]
        if out[0] != "return":
            return [("no-exception", False)]
        th = I.as_seq(ctx, w.scale.fields["thresholds"])
        vs = I.as_seq(ctx, w.scale.fields[second])
        n2 = B._z(th.length)
        T2 = lambda q: B.zreal(th.elem(q))
        V2 = lambda q: B.zreal(vs.elem(q))
        i, j = ctx.fresh_int("wi"), ctx.fresh_int("wj")
        k, k2 = ctx.fresh_int("k"), ctx.fresh_int("k2")
        e = z3.Int(ctx.fresh_name("e"))
        was_there = z3.Exists([e], z3.And(e >= 0, e < w.n, w.T(e) == t))
        return [("same-number-of-values-as-thresholds", B._z(vs.length) == n2),
                ("thresholds-stay-strictly-increasing", z3.Implies(z3.And(0 <= i, i < j, j < n2), T2(i) < T2(j))),
                ("every-other-threshold-is-kept-with-its-value",
                 z3.Implies(z3.And(k >= 0, k < w.n, w.T(k) != t), z3.Exists([e], z3.And(e >= 0, e < n2, T2(e) == w.T(k), V2(e) == w.R(k))))),
                ("the-threshold-is-present-afterwards", z3.Exists([e], z3.And(e >= 0, e < n2, T2(e) == t))),
                ("a-new-threshold-gets-the-value", z3.Implies(z3.And(k2 >= 0, k2 < n2, T2(k2) == t, z3.Not(was_there)), V2(k2) == r)),
                ("an-existing-threshold-gets-the-value-added",
                 z3.Implies(z3.And(k2 >= 0, k2 < n2, T2(k2) == t, k >= 0, k < w.n, w.T(k) == t), V2(k2) == w.R(k) + r)),
                ("nothing-else-appears",
                 z3.Implies(z3.And(k2 >= 0, k2 < n2, T2(k2) != t), z3.Exists([e], z3.And(e >= 0, e < w.n, w.T(e) == T2(k2)))))] + \
            self.positional(I, ctx, w, t, r)

    def positional(self, I, ctx, w, t, r):
        """the same, position by position (the call-site form used by C09's combine_bracket, inverse, to_average, to_marginal):
        p = where the threshold is / the number of thresholds below it"""
        after, nr = state_of(I, ctx, w.scale, self.cases[0])
        before = State(w.T, w.R, w.n)
        q, p = ctx.fresh_int("q"), ctx.fresh_int("p")
        e = z3.Int(ctx.fresh_name("e"))
        at = z3.And(p >= 0, p < w.n, w.T(p) == t)
        gap = z3.And(p >= 0, p <= w.n, z3.ForAll([e], z3.Implies(z3.And(e >= 0, e < w.n), z3.And((e < p) == (w.T(e) < t), w.T(e) != t))))
        return [("same-list-objects", w.scale.fields["thresholds"] is w.thresholds and w.scale.fields[self.cases[0]] is w.values),
                ("present-threshold.position-by-position", z3.Implies(at, z3.And(*positional_facts(before, after, p, True, t, r, q)))),
                ("new-threshold.position-by-position", z3.Implies(gap, z3.And(*positional_facts(before, after, p, False, t, r, q))))]

    NATIVE = "import sys; sys.path.insert(0, '/verif/native')\nimport c08_replay\noutcome = c08_replay.run_add(call)\n"

    def probes(self, case):
        sec = self.cases[0]
        return [{"callee": self.name, "script": self.NATIVE, "second": sec, "thresholds": t, "values": v, "t": x, "r": 0.5}
                for t, v in (([], []), ([0.0, 10.0, 20.0], [0.1, 0.2, 0.3])) for x in (-5.0, 0.0, 5.0, 10.0, 20.0, 25.0)]

    def small_model(self, I, case, a):
        return [a["__w"].n <= 3]

    def call_descriptor(self, I, case, a, ev):
        w = a["__w"]
        n = ev(w.n)
        if n > 8:
            return None
        real = lambda v: v[0] / v[1] if isinstance(v, list) else float(v)
        return {"callee": self.name, "script": self.NATIVE, "second": a["__second"],
                "thresholds": [real(ev(w.T(z3.IntVal(k)))) for k in range(n)], "values": [real(ev(w.R(z3.IntVal(k)))) for k in range(n)],
                "t": real(ev(a["__t"])), "r": real(ev(a["__r"]))}

    def judge_native(self, I, case, call, nat):
        if nat.get("kind") == "harness-error":
            return "undecided", str(nat)[:300]
        if nat["kind"] == "raise":
            return "violates", "raised " + nat.get("exc", "") + ": " + nat.get("msg", "")
        return ("satisfies", "as specified") if nat["value"].get("ok") else ("violates", str(nat["value"])[:300])


class AddBracketAmounts(AddBracket):
    name = f"{AL}.add_bracket"
    cases = ("amounts",)


def lemmas(prop, timeout_ms):
    if prop != "C08":
        return []
    recs = []
    # for strictly increasing thresholds, #{k < n | t_k <= b} = j + 1 exactly when t_j <= b < t_{j+1}: induction on the prefix
    k, j, n = z3.Ints("k j n")
    b = z3.Real("b")
    T = z3.Function("T_l", z3.IntSort(), z3.RealSort())
    C = z3.Function("C_l", z3.IntSort(), z3.IntSort())     # C(k) = #{q < k | T(q) <= b}
    x, y = z3.Ints("x y")
    sorted_ = z3.ForAll([x, y], z3.Implies(z3.And(0 <= x, x < y), T(x) < T(y)), patterns=[z3.MultiPattern(T(x), T(y))])
    step = lambda q: C(q + 1) == C(q) + z3.If(T(q) <= b, 1, 0)
    # invariant: C(k) = number of leading thresholds <= b = min(k, first index with T > b)
    P = lambda q: z3.And(C(q) >= 0, C(q) <= q, z3.Implies(C(q) < q, T(C(q)) > b), z3.Implies(C(q) > 0, T(C(q) - 1) <= b))
    L = [("bracket.count.base", [C(0) == 0], P(z3.IntVal(0))),
         ("bracket.count.step", [sorted_, k >= 0, step(k), P(k)], P(k + 1)),
         ("bracket.count-minus-one-is-the-bracket-containing-the-base",
          [sorted_, n >= 1, P(n), T(0) <= b, j == C(n) - 1], z3.And(j >= 0, j < n, T(j) <= b, z3.Implies(j + 1 < n, b < T(j + 1))))]
    # one-hot selection: if every term but term k is zero, the sum is term k (induction on the prefix length)
    F = z3.Function("F_l", z3.IntSort(), z3.RealSort())
    S = z3.Function("S_l", z3.IntSort(), z3.RealSort())
    q, kk, m = z3.Ints("q kk m")
    zero_others = z3.ForAll([q], z3.Implies(z3.And(q >= 0, q != kk), F(q) == 0), patterns=[F(q)])
    Psel = lambda mm: S(mm) == z3.If(kk < mm, F(kk), 0)
    L += [("one-hot-sum.base", [S(0) == 0, kk >= 0], Psel(z3.IntVal(0))),
          ("one-hot-sum.step", [zero_others, kk >= 0, m >= 0, S(m + 1) == S(m) + F(m), Psel(m)], Psel(m + 1))]
    # a strictly increasing list is determined by the set of its elements (strong induction on the position): with
    # AddBracket's commutative view update this is "results do not depend on the order in which brackets were added"
    Ta = z3.Function("Ta_l", z3.IntSort(), z3.RealSort())
    Tb = z3.Function("Tb_l", z3.IntSort(), z3.RealSort())
    wa = z3.Function("wa_l", z3.IntSort(), z3.IntSort())
    wb = z3.Function("wb_l", z3.IntSort(), z3.IntSort())
    na, nb, p = z3.Ints("na nb p")
    inc = lambda Tf, nn: z3.ForAll([x, y], z3.Implies(z3.And(0 <= x, x < y, y < nn), Tf(x) < Tf(y)), patterns=[z3.MultiPattern(Tf(x), Tf(y))])
    a_in_b = z3.ForAll([x], z3.Implies(z3.And(0 <= x, x < na), z3.And(0 <= wa(x), wa(x) < nb, Tb(wa(x)) == Ta(x))), patterns=[Ta(x)])
    b_in_a = z3.ForAll([x], z3.Implies(z3.And(0 <= x, x < nb), z3.And(0 <= wb(x), wb(x) < na, Ta(wb(x)) == Tb(x))), patterns=[Tb(x)])
    ih = z3.ForAll([x], z3.Implies(z3.And(0 <= x, x < p), z3.And(x < nb, Ta(x) == Tb(x))), patterns=[Ta(x)])
    L += [("sorted-list-is-determined-by-its-view.step", [inc(Ta, na), inc(Tb, nb), a_in_b, b_in_a, ih, p >= 0, p < na],
           z3.And(p < nb, Ta(p) == Tb(p))),
          ("sorted-list-is-determined-by-its-view.length", [inc(Ta, na), inc(Tb, nb), a_in_b, b_in_a, na >= 0, nb >= 0,
           z3.ForAll([x], z3.Implies(z3.And(0 <= x, x < na), z3.And(x < nb, Ta(x) == Tb(x))), patterns=[Ta(x)]), na < nb], z3.BoolVal(False))]
    for name, hyps, goal in L:
        verdict, backend, model, dt = smt.prove(hyps, goal, timeout_ms=timeout_ms)
        recs.append({"name": "lemma." + name, "where": "contracts/c08_taxscales.py", "kind": "lemma", "verdict": verdict,
                     "backend": backend, "time": round(dt, 4), "contract": "c08-lemmas", "case": "None"})
    return recs


CONTRACTS = [MarginalRateCalc(), MarginalAmountCalc(), SingleAmountCalc(), LinearAverageCalc(), BracketIndices(), MarginalRates(), RateFromTaxBase(), ThresholdFromTaxBase(), AddBracket(), AddBracketAmounts()]
