"""C07 -- every way of reading parameters returns the tree's current values (DESIGN 4 C07).
Representation invariant MemoOK: every memoised at-instant view of a system equals the view of its CURRENT parameter
tree at that instant. get_parameters_at_instant requires and keeps it; every documented route that changes the tree
(load_parameters, a reform's modify_parameters, Reform.__init__, clone) must keep it."""
from __future__ import annotations

import z3

from pyvc import builtins_ as B
from pyvc.contract import Contract
from pyvc.values import Builtin, ClassVal, DictVal, ExcVal, ListVal, MapVal, Obj, Opaque, SetVal, Sym, TupleVal, Unsupported

from .common import *  # noqa
from . import engine as E
from .c13_clone import dict_of
from .c18_engine import rec, log_of

TBS = E.TBS
REFORM = "openfisca_core.reforms.reform.Reform"
PNODE = "openfisca_core.parameters.parameter_node.ParameterNode"
TPN = "openfisca_core.tracers.tracing_parameter_node_at_instant.TracingParameterNodeAtInstant"
NODE_AT = "openfisca_core.parameters.parameter_node_at_instant.ParameterNodeAtInstant"

VIEWS = z3.DeclareSort("ParamView")
TREE = z3.DeclareSort("ParamTree")
VIEWF = z3.Function("VIEW_AT", TREE, z3.IntSort(), z3.IntSort(), z3.IntSort(), VIEWS)    # the at-instant view of a tree
_tree_ids = {}


def tree_term(t):
    if id(t) not in _tree_ids:
        _tree_ids[id(t)] = (t, z3.Const(f"tree_{len(_tree_ids)}", TREE))
    return _tree_ids[id(t)][1]


def view_of(tree, inst):
    y, m, d = ymd(inst)
    return VIEWF(tree_term(tree), y, m, d)


def get_at_instant_site():
    """call-site contract of ParameterNode.get_at_instant: the opaque view of THAT tree at THAT instant"""
    def mk(I, ctx, a):
        inst = a["instant"]
        if not is_instant(I, inst):
            raise Unsupported("get_at_instant with a non-Instant key in the view model")
        return Opaque(view_of(a["self"], inst), "view", {})
    return rec("openfisca_core.parameters.at_instant_like.AtInstantLike.get_at_instant", "get_at_instant", [("return", mk)])


class SysWorld:
    def __init__(self, I, ctx, reform=False):
        R = I.resolve_qualified
        self.tree = Obj(R(PNODE), {"name": "", "children": DictVal()}, label="tree")
        self.sys = Obj(R(TBS), {"parameters": self.tree, "baseline": None, "preprocess_parameters": None}, label="system")
        # a memo that already holds views read earlier (any instants), consistent with the current tree: MemoOK
        self.HAS = z3.Function(ctx.fresh_name("MEMO_HAS"), z3.IntSort(), z3.IntSort(), z3.IntSort(), z3.BoolSort())

    def memo_lookup(self, system, tree):
        """memo content before the call: for this system, the views of `tree` at some set of instants"""
        def lookup(q):
            # q = (system, instant-like)
            if is_instant(None, q):
                items = [q]
            else:
                items = q.items if isinstance(q, TupleVal) else [q]
            inst = items[-1]
            if len(items) == 2 and items[0] is not system:
                return z3.BoolVal(False), None
            if not is_instant(None, inst) and not (isinstance(inst, TupleVal) and len(inst.items) == 3):
                return z3.BoolVal(False), None
            y, m, d = ymd(inst)
            return self.HAS(y, m, d), Opaque(VIEWF(tree_term(tree), y, m, d), "view", {})
        return MapVal(lookup, "memo")


def is_instant(I, v):
    return isinstance(v, TupleVal) and v.cls is not None and v.cls.name == "Instant"


MEMO_KEY = f"memo:{TBS}.get_parameters_at_instant"


def uses_lru_cache(I):
    from pyvc.values import CachedFunc
    v = I.resolve_qualified(f"{TBS}.get_parameters_at_instant")
    return isinstance(v, CachedFunc)


def install_memo(ctx, w, I=None, system=None):
    """both caching designs are supported, read from the current source: a process-wide lru_cache memo (ghost state,
    only when the method carries the decorator) and the per-instance dictionary"""
    system = system or w.sys
    if I is not None and uses_lru_cache(I):
        ctx.ghost[MEMO_KEY] = w.memo_lookup(system, w.tree)
    system.fields["_parameters_at_instant_cache"] = w.memo_lookup(None, w.tree)


def memo_ok(I, ctx, w, system, tree):
    """formulas: every memoised view of `system` is the view of `tree` (Skolem instant)"""
    inst, (y, m, d) = sym_instant(I, ctx, "probe", valid=False)
    res = []
    ghost = ctx.ghost.get(MEMO_KEY)
    if ghost is not None:
        pres, val = ghost.lookup(TupleVal([system, inst]))
        val = val.val if isinstance(val, B.OptVal) else val
        res.append(("memoised-views-are-views-of-the-current-tree", z3.Implies(pres, val.e == view_of(tree, inst)) if val is not None else z3.Not(pres)))
    cache = system.fields.get("_parameters_at_instant_cache")
    if isinstance(cache, (MapVal, DictVal)):
        look = cache.lookup if isinstance(cache, MapVal) else B.map_from_dict(I, ctx, cache).lookup
        pres, val = look(inst)
        val = val.val if isinstance(val, B.OptVal) else val
        res.append(("cached-views-are-views-of-the-current-tree", z3.Implies(pres, val.e == view_of(tree, inst)) if val is not None else z3.Not(pres)))
    return res


def _probe(name, scenario):
    return {"callee": name, "script": "import sys; sys.path.insert(0, '/verif/native')\nimport c07_replay\n"
            "outcome = c07_replay.run(call['scenario'])\n", "scenario": scenario}


class _NativeJudge:
    scenarios = ()

    def probes(self, case):
        return [_probe(self.name, s) for s in self.scenarios]

    def call_descriptor(self, I, case, a, ev):
        return None

    def judge_native(self, I, case, call, nat):
        if nat.get("kind") != "return":
            return "violates", "scenario raised " + nat.get("exc", "?") + ": " + nat.get("msg", "")
        v = nat["value"]
        return ("satisfies", "scenario ok") if v["ok"] else ("violates", call["scenario"] + ": " + "; ".join(v["detail"]))


class GetParametersAtInstant(_NativeJudge, Contract):
    scenarios = ("reload-after-read", "modifier-after-read-in-apply", "two-systems")
    name = f"{TBS}.get_parameters_at_instant"
    prop = ("C07",)
    top_level = True
    cases = ("instant", "period")
    descr = "the system's at-instant view is the view of its current parameter tree, whatever was read before (memo kept consistent)"
    inline = ("openfisca_core.periods.helpers.instant*",)

    def setup(self, I, ctx, case):
        w = SysWorld(I, ctx)
        install_memo(ctx, w, I)
        inst, _ = sym_instant(I, ctx, "at")
        arg = inst if case == "instant" else mk_period(I, "month", inst, 1)
        return {"self": w.sys, "instant": arg, "__w": w, "__inst": inst}

    @staticmethod
    def local_contracts():
        c = get_at_instant_site()
        return {c.name: c}

    def post(self, I, ctx, a, out, old):
        w = a["__w"]
        if out[0] != "return":
            return [("no-exception", False)]
        r = out[1].val if isinstance(out[1], B.OptVal) else out[1]
        ok = isinstance(r, Opaque) and r.e is not None and r.e.sort() == VIEWS
        res = [("returns-the-view-of-the-current-tree-at-the-instant", r.e == view_of(w.tree, a["__inst"]) if ok else False)]
        return res + memo_ok(I, ctx, w, w.sys, w.sys.fields["parameters"])


class LoadParameters(_NativeJudge, Contract):
    name = f"{TBS}.load_parameters"
    prop = ("C07",)
    top_level = True
    cases = (None, "with-a-preprocessing-hook", "the-preprocessing-hook-fails")
    descr = ("reloading parameters installs the new tree (as the preprocessing hook returns it) and leaves no memoised view of the "
             "old one behind; if the hook fails, the error reaches the caller and whatever tree the system then has, its memoised "
             "views are views of that tree")

    def setup(self, I, ctx, case):
        w = SysWorld(I, ctx)
        install_memo(ctx, w, I)
        if case is not None:
            R = I.resolve_qualified
            w.processed = Obj(R(PNODE), {"name": "", "children": DictVal()}, label="preprocessed-tree")

            def hook(ctx2, params):
                w.hook_saw = params
                if case == "the-preprocessing-hook-fails":
                    raise I.raise_exc("ValueError")
                return w.processed
            w.sys.fields["preprocess_parameters"] = Builtin("preprocess_parameters", hook)
        return {"self": w.sys, "path_to_yaml_dir": "/some/dir", "__w": w, "__case": case}

    @staticmethod
    def local_contracts():
        # reading the YAML directory is outside: the constructor enters as "a fresh tree"
        return {f"{PNODE}.__init__": rec(f"{PNODE}.__init__", "ParameterNode()", [("return", None)])}

    scenarios = ("reload-after-read", "two-systems")

    def post(self, I, ctx, a, out, old):
        w = a["__w"]
        if a.get("__case") == "the-preprocessing-hook-fails":
            cur = w.sys.fields.get("parameters")
            return [("the-hook's-error-reaches-the-caller", out[0] == "raise" and out[1].cls.name == "ValueError")] + \
                (memo_ok(I, ctx, w, w.sys, cur) if isinstance(cur, Obj) else [("the-system-still-has-a-tree", False)])
        if out[0] != "return":
            return [("no-exception", False)]
        new = w.sys.fields.get("parameters")
        res = [("new-tree-installed", isinstance(new, Obj) and new is not w.tree)]
        if a.get("__case") == "with-a-preprocessing-hook":
            res.append(("the-tree-installed-is-what-the-preprocessing-hook-returned", new is w.processed))
        if isinstance(new, Obj):
            res += memo_ok(I, ctx, w, w.sys, new)
        return res


class ReformModifyParameters(_NativeJudge, Contract):
    scenarios = ("modifier-after-read-in-apply",)
    name = f"{REFORM}.modify_parameters"
    prop = ("C07", "C14")
    top_level = True
    descr = "a reform's parameter modifier installs its result and leaves no memoised view of the previous tree behind"

    def setup(self, I, ctx, case):
        w = SysWorld(I, ctx)
        R = I.resolve_qualified
        base = w.sys
        w.reform = Obj(R(REFORM), {"baseline": base, "parameters": w.tree}, label="reform")
        # views of the (shared) tree were already read through the reform
        install_memo(ctx, w, I, system=w.reform)
        w.newtree = Obj(R(PNODE), {"name": "", "children": DictVal()}, label="modified-tree")
        modifier = Builtin("modifier", lambda ctx2, params: w.newtree)
        return {"self": w.reform, "modifier_function": modifier, "__w": w}

    def post(self, I, ctx, a, out, old):
        w = a["__w"]
        if out[0] != "return":
            return [("no-exception", False)]
        res = [("modifier-result-installed", w.reform.fields.get("parameters") is w.newtree)]
        return res + memo_ok(I, ctx, w, w.reform, w.newtree)


class TracingNodeForward(Contract):
    name = f"{TPN}.get_traced_child"
    prop = ("C07", "C17")
    top_level = True
    cases = ("leaf-by-name", "sub-node", "leaf-by-array-key")
    descr = ("a traced parameter view returns the same leaf values and wraps the same sub-nodes as the view it traces, and "
             "records each leaf read")
    inline = (f"{TPN}.__init__",)

    def setup(self, I, ctx, case):
        R = I.resolve_qualified
        from pyvc import nparr
        from .c06_parameters import mk_pval, PVAL
        inner = Obj(R(NODE_AT), {"_name": "taxes", "_instant_str": "2020-01-01", "_children": DictVal()}, label="view")
        tracer = Obj(R("openfisca_core.tracers.full_tracer.FullTracer"), {}, label="tracer")
        me = Obj(R(TPN), {"parameter_node_at_instant": inner, "tracer": tracer}, label="traced-view")
        if case == "sub-node":
            child = Obj(R(NODE_AT), {"_name": "taxes.sub", "_instant_str": "2020-01-01", "_children": DictVal()}, label="sub-view")
            key = "sub"
        elif case == "leaf-by-name":
            child = Sym(ctx.fresh_real("leaf"))
            key = "rate"
        else:
            child = nparr.NArr(ctx.fresh_int("n"), lambda i: Sym(z3.Real("v")), "float", "leaf-values")
            key = nparr.NArr(ctx.fresh_int("n"), lambda i: 0, "str", "keys")
        return {"self": me, "child": child, "key": key, "__inner": inner, "__tracer": tracer, "__case": case}

    @staticmethod
    def local_contracts():
        return {"openfisca_core.tracers.full_tracer.FullTracer.record_parameter_access":
                rec("openfisca_core.tracers.full_tracer.FullTracer.record_parameter_access", "record", [("return", None)])}

    def post(self, I, ctx, a, out, old):
        case = a["__case"]
        recs = log_of(ctx, "record")
        if out[0] != "return":
            return [("no-exception", False)]
        r = out[1]
        if case == "sub-node":
            return [("sub-node-wrapped-in-a-traced-view-of-the-same-node", isinstance(r, Obj) and r.cls.name == "TracingParameterNodeAtInstant" and
                     r.fields.get("parameter_node_at_instant") is a["child"] and r.fields.get("tracer") is a["__tracer"]),
                    ("nothing-recorded-for-a-node", not recs)]
        from pyvc.interp import force_str
        want = "taxes.rate" if case == "leaf-by-name" else "taxes"
        return [("same-leaf-value-returned", r is a["child"]),
                ("leaf-read-recorded-once", len(recs) == 1 and recs[0]["args"]["value"] is a["child"] and
                 force_str(I, ctx, recs[0]["args"]["parameter"]) == want and recs[0]["args"]["period"] == "2020-01-01")]


VPN = "openfisca_core.parameters.vectorial_parameter_node_at_instant.VectorialParameterNodeAtInstant"
ZONES = ("zone_1", "zone_2", "zone_3")


_VALS, _KEEP = {}, []


def group_view(I, ctx, tag, name="benefit", nested=False):
    """a ParameterNodeAtInstant-like group of three leaves (symbolic values); with `nested`, one level of two such groups"""
    cls = I.resolve_qualified(NODE_AT)
    if nested:
        kids = [(k, group_view(I, ctx, f"{tag}_{k}", name=f"{name}.{k}")) for k in ("couple", "single")]
        vals = {k: _VALS[id(v)] for k, v in kids}
        o = Obj(cls, {"_name": name, "_instant_str": "2015-01-01", "_children": dict_of([(k, v) for k, v in kids][::-1])}, label="group:" + tag)
        _VALS[id(o)] = vals
        _KEEP.append(o)
        return o
    vals = {z: ctx.fresh_real(f"{tag}_{z}") for z in ZONES}
    # children stored in an order that is not the sorted one
    o = Obj(cls, {"_name": name, "_instant_str": "2015-01-01", "_children": dict_of([(z, Sym(vals[z])) for z in (ZONES[1], ZONES[2], ZONES[0])])},
            label="group:" + tag)
    _VALS[id(o)] = vals
    _KEEP.append(o)
    return o


class VectorialBuild(Contract):
    name = f"{VPN}.build_from_node"
    prop = ("C07",)
    top_level = True
    cases = ("leaves", "nested", "leaves-after-another-tree-of-the-same-name-and-date")
    descr = ("the vectorial form of a parameter group holds, under each member's name, that member's value in the group it was built "
             "from - also when a group of the same name and date from another tree (reloaded parameters, a reform) was vectorised before")
    inline = (f"{NODE_AT}.__getitem__", f"{NODE_AT}.__getattr__", f"{VPN}.__init__")

    def setup(self, I, ctx, case):
        a = {"__case": case}
        if case.endswith("another-tree-of-the-same-name-and-date"):
            other = group_view(I, ctx, "other")
            f, _ = self.target(I)
            ctx.depth += 1
            saved = dict(I.contracts)
            try:
                I.contracts.update(self.local_contracts())
                a["__earlier"] = I.inline_call(ctx, f, [], {"node": other})
            finally:
                I.contracts = saved
                ctx.depth -= 1
        node = group_view(I, ctx, "g", nested=(case == "nested"))
        a["node"] = node
        return a

    @staticmethod
    def local_contracts():
        return {f"{VPN}.check_node_vectorisable": rec(f"{VPN}.check_node_vectorisable", "check_vectorisable", [("return", None)])}

    def post(self, I, ctx, a, out, old):
        from pyvc import nparr
        node = a["node"]
        if out[0] != "return" or not isinstance(out[1], Obj):
            return [("returns-a-vectorial-node", False)]
        r = out[1]
        vec = r.fields.get("vector")
        res = [("keeps-name-and-date", r.fields.get("_name") == node.fields["_name"] and r.fields.get("_instant_str") == node.fields["_instant_str"]),
               ("holds-a-record", isinstance(vec, nparr.RecArr))]
        if not isinstance(vec, nparr.RecArr):
            return res

        def same(v, vals, path):
            out2 = [(f"{path}members-under-their-names-in-sorted-order", v.names == sorted(vals))]
            for k, want in vals.items():
                got = v.fields.get(k)
                if isinstance(want, dict):
                    if isinstance(got, nparr.RecArr):
                        out2 += same(got, want, f"{path}{k}.")
                    else:
                        out2.append((f"{path}{k}-is-a-record-of-its-own-members", False))
                else:
                    out2.append((f"{path}{k}-holds-the-member's-value-in-this-group", B.zreal(got) == want if got is not None else False))
            return out2
        return res + same(vec, _VALS[id(node)], "")


class KeyCodes:
    """a vector of keys: element i is the name ZONES[code(i)] when 0 <= code(i) < 3, some other string otherwise"""

    def __init__(self, ctx):
        from pyvc import nparr
        self.L = ctx.fresh_int("L")
        ctx.assume(self.L >= 1)
        self.CODE = z3.Function(ctx.fresh_name("KEYCODE"), z3.IntSort(), z3.IntSort())

        def elem(i):
            code = self.CODE(B._z(i))

            def eq(ctx2, other):
                o = B.enum_str(other)
                if isinstance(o, str):
                    return (code == ZONES.index(o)) if o in ZONES else z3.BoolVal(False) if False else (code == -1 - (abs(hash(o)) % 1000))
                if isinstance(other, Opaque) and other.attrs.get("keycode") is not None:
                    return code == other.attrs["keycode"]
                return False
            return Opaque(None, "key", {"eq": eq, "keycode": code})
        self.array = nparr.NArr(self.L, elem, "str", "keys")


class VectorialGetItem(Contract):
    name = f"{VPN}.__getitem__"
    prop = ("C07",)
    top_level = True
    cases = ("key-vector", "name", "enum-array-key")
    descr = ("indexing a vectorial group by a vector of names (or by an encoded array of an enumeration whose members bear those names, "
             "declared in any order) gives, element by element, the value of the member named - the same as "
             "reading that member alone; a name that is no member's raises ParameterNotFoundError; a plain name gives the member")
    inline = (f"{VPN}.__getattr__", f"{VPN}.__init__")

    def setup(self, I, ctx, case):
        from pyvc import nparr
        vals = {z: ctx.fresh_real("v_" + z) for z in ZONES}
        vec = nparr.RecArr(sorted(ZONES), {z: Sym(vals[z]) for z in ZONES})
        node = Obj(I.resolve_qualified(VPN), {"vector": vec, "_name": "benefit", "_instant_str": "2015-01-01"}, label="vectorial")
        keys = KeyCodes(ctx)
        ctx.ghost["keys"] = keys
        key = keys.array if case == "key-vector" else ZONES[1]
        if case == "enum-array-key":
            # an enumeration declaring the members in an order that is not the alphabetical one; the key holds member indices
            from pyvc.values import EnumMember
            base = I.resolve_qualified("openfisca_core.indexed_enums.enum.Enum")
            enum = ClassVal("Zone", None, [base], {})
            declared = (ZONES[1], ZONES[2], ZONES[0])
            enum.enum_members = {nm: EnumMember(enum, nm, "value of " + nm, k) for k, nm in enumerate(declared)}
            earr = I.resolve_qualified("openfisca_core.indexed_enums.enum_array.EnumArray")
            IDX = z3.Function(ctx.fresh_name("MEMBER_INDEX"), z3.IntSort(), z3.IntSort())
            i = z3.Int("i_idx")
            ctx.assume(z3.ForAll([i], z3.And(IDX(i) >= 0, IDX(i) < 3), patterns=[IDX(i)]))
            # the name designated by index k is declared[k]: its code among the sorted ZONES
            code_of = [ZONES.index(nm) for nm in declared]
            ctx.assume(z3.ForAll([i], keys.CODE(i) == z3.If(IDX(i) == 0, code_of[0], z3.If(IDX(i) == 1, code_of[1], code_of[2])), patterns=[keys.CODE(i)]))
            key = nparr.NArr(keys.L, lambda j: Sym(IDX(B._z(j))), "uint8", "encoded-keys")
            key.cls_override = earr
            key.attrs["possible_values"] = enum
        return {"self": node, "key": key, "__vals": vals, "__keys": keys, "__case": case}

    @staticmethod
    def local_contracts():
        from pyvc import nparr

        def contains_nan(I, ctx, a):
            # the result of numpy.select with a NaN default: NaN exactly where no name matched
            v = a["vector"]
            i = z3.Int(ctx.fresh_name("i_nan"))
            none = []
            e = v.elem(i)
            if not isinstance(e, B.Choice):
                raise Unsupported("contains_nan on something else than a select result")
            return B.wrap(z3.Exists([i], z3.And(i >= 0, i < B._z(v.n), z3.Not(z3.Or(*[c for c, _ in e.alts])))))
        H = "openfisca_core.parameters.helpers.contains_nan"
        return {H: rec(H, "contains_nan", [("return", contains_nan)])}

    def post(self, I, ctx, a, out, old):
        from pyvc import nparr
        vals, keys = a["__vals"], a["__keys"]
        if a["__case"] == "name":
            return [("a-plain-name-gives-the-member", out[0] == "return" and not isinstance(out[1], (Obj, type(None))) and
                     B._zb(B.eq_formula(I, ctx, out[1], Sym(vals[ZONES[1]]))) is not False),
                    ("with-its-value", B.zreal(out[1]) == vals[ZONES[1]] if out[0] == "return" else False)]
        j = z3.Int(ctx.fresh_name("j_bad"))
        unknown = z3.Exists([j], z3.And(j >= 0, j < keys.L, z3.Or(keys.CODE(j) < 0, keys.CODE(j) >= 3)))
        if out[0] == "raise":
            return [("refused-only-for-a-name-that-is-no-member's", z3.And(z3.BoolVal(out[1].cls.name == "ParameterNotFoundError"), unknown))]
        r = out[1]
        if not isinstance(r, nparr.NArr):
            return [("returns-one-value-per-key", False)]
        i = ctx.fresh_int("i")
        code = keys.CODE(i)
        want = z3.If(code == 0, vals[ZONES[0]], z3.If(code == 1, vals[ZONES[1]], vals[ZONES[2]]))
        e = r.elem(i)
        got = B.zreal(B.choice_value(e)) if hasattr(B, "choice_value") and isinstance(e, B.Choice) else None
        if got is None and isinstance(e, B.Choice):
            got = B.zreal(Sym(_choice_term(e)))
        elif got is None:
            got = B.zreal(e)
        return [("accepted-only-when-every-name-is-a-member's", z3.Not(unknown)),
                ("one-value-per-key", B._z(r.n) == keys.L),
                ("element-by-element-the-value-of-the-member-named", z3.Implies(z3.And(i >= 0, i < keys.L), got == want))]


def _choice_term(ch):
    """first-match value of a Choice as a z3 real term (default taken as an unconstrained value)"""
    t = z3.Real("unmatched_default")
    for c, v in reversed(ch.alts):
        t = z3.If(c, B.zreal(v), t)
    return t


CONTRACTS = [GetParametersAtInstant(), LoadParameters(), ReformModifyParameters(), TracingNodeForward(), VectorialBuild(), VectorialGetItem()]


def _dv_judge(nat):
    if nat.get("kind") != "return":
        return "violates", "scenario raised " + nat.get("exc", "?") + ": " + nat.get("msg", "")
    return ("satisfies", "ok") if nat["value"]["ok"] else ("violates", "; ".join(nat["value"]["detail"])[:600])


NATIVE_STANDINS = [
    {"name": "a group of before_X / after_X members indexed by a vector of dates gives, element by element, the value the tree defines for the member whose range contains the date",
     "where": "VectorialAsofDateParameterNodeAtInstant.build_from_node / __getitem__ (numpy datetime64 arrays and record arrays are outside the array algebra)",
     "bound": "one group of five members, two dates of view, 12 key dates on and around every threshold at four datetime64 resolutions (day, month, year, second), one-element key",
     "calls": lambda tier: [_probe("VectorialAsofDateParameterNodeAtInstant.__getitem__", "date-vectors")],
     "judge": _dv_judge},
]
