"""C04 -- period arithmetic agrees with the calendar. Contracts on the real functions of
openfisca_core/periods/instant_.py and period_.py (postconditions from the property statement, DESIGN 3.1/4)."""
from __future__ import annotations

import z3

from pyvc import builtins_ as B
from pyvc import theory_cal as cal
from pyvc.contract import Contract
from pyvc.values import ExcVal, TupleVal, Unsupported

from .common import *  # noqa

INST = f"{P}.instant_.Instant"
PER = f"{P}.period_.Period"


def size_ok(size):
    return z3.And(size >= 1, size <= 20000)



def offset_spec(I, inst, kind, unit, off, r):
    """formulas saying that instant r is `inst` shifted by (kind/off, unit) on the calendar"""
    y, m, d = ymd(inst)
    ry, rm, rd = ymd(r)
    o = cal.ordinal(y, m, d)
    res = [("result-valid", cal.valid(ry, rm, rd))]
    if kind == "first-of":
        if unit == "year":
            res.append(("first-of-year", z3.And(ry == y, rm == 1, rd == 1)))
        elif unit == "month":
            res.append(("first-of-month", z3.And(ry == y, rm == m, rd == 1)))
        else:
            res.append(("monday-of-week", cal.ordinal(ry, rm, rd) == o - cal.weekday0(o)))
    elif kind == "last-of":
        if unit == "year":
            res.append(("last-of-year", z3.And(ry == y, rm == 12, rd == 31)))
        elif unit == "month":
            res.append(("last-of-month", z3.And(ry == y, rm == m, rd == cal.DIM(cal.tidx(y, m)))))
        else:
            res.append(("sunday-of-week", cal.ordinal(ry, rm, rd) == o + 6 - cal.weekday0(o)))
    else:
        n = zi(off)
        if unit in ("year", "month"):
            t2, d2 = add_months_triple(y, m, d, 12 * n if unit == "year" else n)
            res.append(("month-shift-with-clipping", z3.And(cal.tidx(ry, rm) == t2, rd == d2)))
        elif unit == "week":
            res.append(("week-shift", cal.ordinal(ry, rm, rd) == o + 7 * n))
        else:
            res.append(("day-shift", cal.ordinal(ry, rm, rd) == o + n))
    return res


def offset_kind(off):
    return off if isinstance(off, str) else "int"


def offset_in_range(inst, kind, unit, off):
    """assumption of the claim: results stay within years 1..9999"""
    if kind != "int" or unit not in ("year", "month"):
        return z3.BoolVal(True)
    y, m, d = ymd(inst)
    t2 = cal.tidx(y, m) + (12 * zi(off) if unit == "year" else zi(off))
    return in_range_months(t2)


class InstantDate(Contract):
    name = f"{INST}.date"
    prop = ("C04",)
    descr = "date of a valid instant carries the same year, month, day (module cache keeps that invariant)"

    def setup(self, I, ctx, case):
        inst, _ = sym_instant(I, ctx, "s", valid=False)
        return {"self": inst}

    def outcomes(self, I, ctx, a, old):
        y, m, d = ymd(a["self"])
        if ctx.branch(cal.valid(y, m, d)):
            return ("return", I.mk_date(y, m, d))
        return ("raise", exc(I, "ValueError"))

    def post(self, I, ctx, a, out, old):
        y, m, d = ymd(a["self"])
        if out[0] == "raise":
            return [("raises-only-when-invalid", z3.And(z3.Not(cal.valid(y, m, d)), raised(out, I, "ValueError")))]
        r = out[1]
        ok = hasattr(r, "fields") and all(k in r.fields for k in "ymd")
        if not ok:
            return [("returns-date", False)]
        return [("valid", cal.valid(y, m, d)),
                ("same-fields", z3.And(zi(r.fields["y"]) == y, zi(r.fields["m"]) == m, zi(r.fields["d"]) == d))]

    def call_descriptor(self, I, case, a, ev):
        return {"callee": self.name, "kind": "property", "self": enc_instant(ev, a["self"]), "args": []}


class InstantOffset(Contract):
    name = f"{INST}.offset"
    prop = ("C04",)
    cases = tuple((k, u) for k in ("first-of", "last-of", "int") for u in UNITS)
    descr = "offset(n|first-of|last-of, unit) is the calendar shift of the instant (clipping at month end)"

    def setup(self, I, ctx, case):
        kind, unit = case
        inst, _ = sym_instant(I, ctx, "s")
        if kind == "int":
            n = ctx.fresh_int("n")
            off = B.wrap(n)
            ctx.assume(offset_in_range(inst, kind, unit, off))
        else:
            off = kind
        return {"self": inst, "offset": off, "unit": dateunit(I, unit)}

    def requires(self, I, ctx, a):
        y, m, d = ymd(a["self"])
        return [("valid-instant", cal.valid(y, m, d))]

    def outcomes(self, I, ctx, a, old):
        kind, unit = offset_kind(a["offset"]), unit_name(a["unit"])
        if unit == "eternity":
            return ("raise", exc(I, "AssertionError"))
        if kind in ("first-of", "last-of") and unit in ("day", "weekday"):
            return ("return", None)
        if kind not in ("first-of", "last-of", "int"):
            raise Unsupported(f"offset kind {kind!r}")
        ctx.assume(offset_in_range(a["self"], kind, unit, a["offset"]))
        r, _ = fresh_valid_instant(I, ctx, "off")
        return ("return", r)

    def post(self, I, ctx, a, out, old):
        kind, unit = offset_kind(a["offset"]), unit_name(a["unit"])
        if unit == "eternity":
            return [("eternity-unit-refused", raised(out, I, "AssertionError"))]
        if out[0] != "return":
            return [("no-exception", False)]
        r = out[1]
        if kind in ("first-of", "last-of") and unit in ("day", "weekday"):
            return [("none-for-day-units", r is None)]
        if not is_instant(I, r):
            return [("returns-instant", False)]
        return offset_spec(I, a["self"], kind, unit, a["offset"], r)

    def call_descriptor(self, I, case, a, ev):
        off = a["offset"]
        return {"callee": self.name, "kind": "method", "self": enc_instant(ev, a["self"]),
                "args": [off if isinstance(off, str) else ev(zi(off)), enc_unit(a["unit"])]}


def sym_period(I, ctx, unit, base="p", aligned=None):
    start, (y, m, d) = sym_instant(I, ctx, base + "s")
    size = ctx.fresh_int(base + "size")
    ctx.assume(size_ok(size))
    p = mk_period(I, unit, start, size)
    ctx.assume(period_in_range(p))
    return p


def period_in_range(p):
    u, s, n = period_parts(p)
    y, m, d = ymd(s)
    if u == "year":
        return in_range_months(cal.tidx(y, m) + 12 * zi(n))
    if u == "month":
        return in_range_months(cal.tidx(y, m) + zi(n))
    return y <= 9900


def period_requires(p):
    u, s, n = period_parts(p)
    if u == "eternity":
        return []
    return [("valid-start", cal.valid(*ymd(s))), ("size-positive", zi(n) >= 1)]


class PeriodStop(Contract):
    name = f"{PER}.stop"
    prop = ("C04",)
    HISTORY = {"after-another-month-period-that-prints-alike": (("month", (2022, 1, 1), 3), ("month", (2022, 1, 15), 3)),
               "after-another-week-period-that-prints-alike": (("week", (2022, 1, 3), 1), ("week", (2022, 1, 1), 1)),
               "after-another-year-period-that-prints-alike": (("year", (2021, 1, 1), 1), ("year", (2021, 1, 31), 1))}
    cases = UNITS + tuple(HISTORY)
    top_level = True
    descr = ("the last day of a period is the day before start (+) size units - whatever other period was asked before (two periods "
             "that print alike because the text drops the start day are still two periods)")

    def setup(self, I, ctx, case):
        unit = case
        if case in self.HISTORY:
            (u1, s1, n1), (u2, s2, n2) = self.HISTORY[case]
            first = mk_period(I, u1, mk_instant(I, *s1), n1)
            f, _ = self.target(I)
            ctx.depth += 1
            try:
                I.inline_call(ctx, f, [], {"self": first})          # the real property body, on the period asked before
            finally:
                ctx.depth -= 1
            return {"self": mk_period(I, u2, mk_instant(I, *s2), n2)}
        if unit == "eternity":
            start = mk_instant(I, -1, -1, -1)
            return {"self": mk_period(I, unit, start, -1)}
        return {"self": sym_period(I, ctx, unit)}

    def requires(self, I, ctx, a):
        return period_requires(a["self"])

    def outcomes(self, I, ctx, a, old):
        u, s, n = period_parts(a["self"])
        if u == "eternity":
            return ("return", mk_instant(I, -1, -1, -1))
        ctx.assume(period_in_range(a["self"]))
        r, _ = fresh_valid_instant(I, ctx, "stop")
        return ("return", r)

    def post(self, I, ctx, a, out, old):
        u, s, n = period_parts(a["self"])
        if out[0] != "return" or not is_instant(I, out[1]):
            return [("returns-instant", False)]
        r = out[1]
        if u == "eternity":
            return [("eternity-stop", instant_eq(r, mk_instant(I, -1, -1, -1)))]
        return [("stop-valid", cal.valid(*ymd(r))),
                ("stop-is-last-day", ORD(r) == last_day(a["self"])),
                ("stop-not-before-start", ORD(r) >= ORD(s))]

    def call_descriptor(self, I, case, a, ev):
        return {"callee": self.name, "kind": "property", "self": enc_period(ev, a["self"]), "args": []}


class _PeriodProp(Contract):
    """integer-valued property of a period"""
    prop = ("C04",)
    cases = DATED_UNITS
    raises_for = ()
    result_base = "n"

    def setup(self, I, ctx, case):
        return {"self": sym_period(I, ctx, case)}

    def requires(self, I, ctx, a):
        return period_requires(a["self"])

    def value(self, I, p):
        raise NotImplementedError

    def outcomes(self, I, ctx, a, old):
        u, s, n = period_parts(a["self"])
        if u in self.raises_for or u == "eternity":
            return ("raise", exc(I, "ValueError"))
        if u not in self.cases:
            raise Unsupported(f"{self.name} of a {u} period is not under contract (cross-family)")
        ctx.assume(period_in_range(a["self"]))
        return ("return", B.wrap(ctx.fresh_int(self.result_base)))

    def post(self, I, ctx, a, out, old):
        u, s, n = period_parts(a["self"])
        if u in self.raises_for or u == "eternity":
            return [("refused", raised(out, I, "ValueError"))]
        if u not in self.cases:
            return []
        if out[0] != "return":
            return [("no-exception", False)]
        try:
            r = zi(out[1])
        except Unsupported:
            return [("returns-int", False)]
        return [(self.clause, r == self.value(I, a["self"]))]

    def call_descriptor(self, I, case, a, ev):
        return {"callee": self.name, "kind": "property", "self": enc_period(ev, a["self"]), "args": []}


def day_count(p):
    return last_day(p) - first_day(p) + 1


class PeriodDays(_PeriodProp):
    name = f"{PER}.days"
    top_level = True
    clause = "days-is-day-count"
    descr = "days = number of calendar days of the period"

    def value(self, I, p):
        return day_count(p)


class PeriodSizeInDays(_PeriodProp):
    name = f"{PER}.size_in_days"
    top_level = True
    clause = "size-in-days-is-day-count"
    descr = "size_in_days = number of calendar days of the period"

    def value(self, I, p):
        return day_count(p)


class PeriodSizeInMonths(_PeriodProp):
    name = f"{PER}.size_in_months"
    top_level = True
    clause = "size-in-months"
    raises_for = ("day", "week", "weekday")
    descr = "size_in_months = 12*size for years, size for months; refused for other units"

    def value(self, I, p):
        u, s, n = period_parts(p)
        return 12 * zi(n) if u == "year" else zi(n)


class PeriodSizeInYears(_PeriodProp):
    name = f"{PER}.size_in_years"
    top_level = True
    clause = "size-in-years"
    raises_for = ("day", "week", "weekday", "month")
    descr = "size_in_years = size for years; refused for other units"

    def value(self, I, p):
        return zi(period_parts(p)[2])


class PeriodSizeInWeeks(_PeriodProp):
    name = f"{PER}.size_in_weeks"
    top_level = True
    cases = ("week", "day", "weekday")
    clause = "size-in-weeks"
    raises_for = ("day", "weekday")
    descr = "size_in_weeks = size for week periods (month/year periods are cross-family: not claimed)"

    def value(self, I, p):
        return zi(period_parts(p)[2])


class PeriodSizeInWeekdays(_PeriodProp):
    name = f"{PER}.size_in_weekdays"
    top_level = True
    cases = ("week", "weekday", "day")
    clause = "size-in-weekdays-is-day-count"
    descr = "size_in_weekdays = number of days for week-family periods"

    def value(self, I, p):
        return day_count(p)


class PeriodContains(Contract):
    name = f"{PER}.contains"
    prop = ("C04",)
    top_level = True
    cases = tuple((a, b) for a in DATED_UNITS for b in DATED_UNITS) + (("eternity", "eternity"), ("eternity", "month"), ("month", "eternity"))
    descr = ("contains(Q) iff every day of Q is a day of the period; the eternity period and a dated period do not contain each other "
             "(what the code's comparisons give; the statement is silent there, callers rely on it)")

    def setup(self, I, ctx, case):
        ua, ub = case
        mk_e = lambda: mk_period(I, "eternity", mk_instant(I, -1, -1, -1), -1)
        return {"self": mk_e() if ua == "eternity" else sym_period(I, ctx, ua, "p"),
                "other": mk_e() if ub == "eternity" else sym_period(I, ctx, ub, "q")}

    def requires(self, I, ctx, a):
        return period_requires(a["self"]) + period_requires(a["other"])

    def outcomes(self, I, ctx, a, old):
        return ("return", B.wrap(ctx.fresh_bool("contains")))

    def post(self, I, ctx, a, out, old):
        if out[0] != "return":
            return [("no-exception", False)]
        r = B.zbool(out[1])
        p, q = a["self"], a["other"]
        if period_parts(p)[0] == "eternity":
            if period_parts(q)[0] == "eternity":
                return [("eternity-contains-eternity", r)]
            return [("eternity-does-not-contain-a-dated-period", z3.Not(r))]
        if period_parts(q)[0] == "eternity":
            return [("a-dated-period-does-not-contain-eternity", z3.Not(r))]
        spec = z3.And(first_day(p) <= first_day(q), last_day(q) <= last_day(p))
        return [("contains-iff-subset-of-days", r == spec)]

    def call_descriptor(self, I, case, a, ev):
        return {"callee": self.name, "kind": "method", "self": enc_period(ev, a["self"]),
                "args": [enc_period(ev, a["other"])]}


class PeriodIntersection(Contract):
    name = f"{PER}.intersection"
    prop = ("C04",)
    top_level = True
    cases = tuple((u, s, e) for u in DATED_UNITS for s in (False, True) for e in (False, True))
    descr = "intersection(a, b) is None iff no day of the period lies in [a, b]; else a period covering exactly those days"

    def setup(self, I, ctx, case):
        u, hs, he = case
        p = sym_period(I, ctx, u)
        a = {"self": p, "start": None, "stop": None}
        if hs:
            a["start"], _ = sym_instant(I, ctx, "a")
        if he:
            a["stop"], _ = sym_instant(I, ctx, "b")
        if hs and he:
            ctx.assume(ORD(a["start"]) <= ORD(a["stop"]))
        return a

    def post(self, I, ctx, a, out, old):
        if out[0] != "return":
            return [("no-exception", False)]
        p = a["self"]
        lo = first_day(p) if a["start"] is None else z3.If(ORD(a["start"]) > first_day(p), ORD(a["start"]), first_day(p))
        hi = last_day(p) if a["stop"] is None else z3.If(ORD(a["stop"]) < last_day(p), ORD(a["stop"]), last_day(p))
        r = out[1]
        if r is None:
            return [("none-only-when-disjoint", lo > hi)]
        if not is_period(I, r):
            return [("returns-period", False)]
        ru, rs, rn = period_parts(r)
        return [("not-disjoint", lo <= hi), ("result-start-valid", cal.valid(*ymd(rs))),
                ("result-size-positive", zi(rn) >= 1),
                ("covers-exactly-the-common-days", z3.And(first_day(r) == lo, last_day(r) == hi))]

    def call_descriptor(self, I, case, a, ev):
        enc = lambda x: None if x is None else enc_instant(ev, x)
        return {"callee": self.name, "kind": "method", "self": enc_period(ev, a["self"]),
                "args": [enc(a["start"]), enc(a["stop"])]}


class PeriodOffset(Contract):
    name = f"{PER}.offset"
    prop = ("C04",)
    cases = tuple((pu, k, u) for pu in DATED_UNITS for k in ("first-of", "last-of", "int")
                  for u in (None,) + DATED_UNITS)
    descr = "offset shifts the start by the calendar shift of Instant.offset and keeps unit and size"

    def setup(self, I, ctx, case):
        pu, kind, unit = case
        p = sym_period(I, ctx, pu)
        if kind == "int":
            off = B.wrap(ctx.fresh_int("n"))
            ctx.assume(offset_in_range(p.items[1], kind, unit or pu, off))
        else:
            off = kind
        return {"self": p, "offset": off, "unit": dateunit(I, unit) if unit else None}

    def requires(self, I, ctx, a):
        return period_requires(a["self"])

    def _eff(self, a):
        pu = period_parts(a["self"])[0]
        unit = pu if a["unit"] is None else unit_name(a["unit"])
        return pu, offset_kind(a["offset"]), unit

    def outcomes(self, I, ctx, a, old):
        pu, kind, unit = self._eff(a)
        if unit == "eternity":
            return ("raise", exc(I, "AssertionError"))
        if kind in ("first-of", "last-of") and unit in ("day", "weekday"):
            return ("raise", exc(I, "NotImplementedError"))
        ctx.assume(offset_in_range(a["self"].items[1], kind, unit, a["offset"]))
        r, _ = fresh_valid_instant(I, ctx, "poff")
        return ("return", mk_period(I, a["self"].items[0], r, a["self"].items[2]))

    def post(self, I, ctx, a, out, old):
        pu, kind, unit = self._eff(a)
        if unit == "eternity":
            return [("eternity-unit-refused", raised(out, I, "AssertionError"))]
        if kind in ("first-of", "last-of") and unit in ("day", "weekday"):
            return [("undefined-shift-refused", raised(out, I, "NotImplementedError"))]
        if out[0] != "return" or not is_period(I, out[1]):
            return [("returns-period", False)]
        ru, rs, rn = out[1].items
        res = [("unit-kept", unit_name(ru) == pu), ("size-kept", zi(rn) == zi(a["self"].items[2]))]
        return res + offset_spec(I, a["self"].items[1], kind, unit, a["offset"], rs)

    def call_descriptor(self, I, case, a, ev):
        off = a["offset"]
        return {"callee": self.name, "kind": "method", "self": enc_period(ev, a["self"]),
                "args": [off if isinstance(off, str) else ev(zi(off))] + ([enc_unit(a["unit"])] if a["unit"] else [])}


def named_period_spec(I, which, p, r):
    """formulas: r is the named reference period `which` of p (calendar definitions)"""
    u, s, n = period_parts(p)
    y, m, d = ymd(s)
    ru, rs, rn = r.items
    ry, rm, rd = ymd(rs)
    o = cal.ordinal(y, m, d)
    monday = o - cal.weekday0(o)
    table = {
        "this_year": ("year", 1, z3.And(ry == y, rm == 1, rd == 1)),
        "last_year": ("year", 1, z3.And(ry == y - 1, rm == 1, rd == 1)),
        "n_2": ("year", 1, z3.And(ry == y - 2, rm == 1, rd == 1)),
        "first_month": ("month", 1, z3.And(ry == y, rm == m, rd == 1)),
        "last_month": ("month", 1, z3.And(cal.tidx(ry, rm) == cal.tidx(y, m) - 1, rd == 1)),
        "last_3_months": ("month", 3, z3.And(cal.tidx(ry, rm) == cal.tidx(y, m) - 3, rd == 1)),
        "first_day": ("day", 1, z3.And(ry == y, rm == m, rd == d)),
        "first_weekday": ("weekday", 1, z3.And(ry == y, rm == m, rd == d)),
        "first_week": ("week", 1, cal.ordinal(ry, rm, rd) == monday),
        "last_week": ("week", 1, cal.ordinal(ry, rm, rd) == monday - 7),
    }
    eu, en, f = table[which]
    return [("unit", unit_name(ru) == eu), ("size", zi(rn) == en), ("start-valid", cal.valid(ry, rm, rd)),
            ("start-is-calendar-definition", f)]


def make_named(which):
    class Named(Contract):
        name = f"{PER}.{which}"
        prop = ("C04",)
        cases = DATED_UNITS
        descr = f"{which} equals its calendar definition"

        def setup(self, I, ctx, case):
            p = sym_period(I, ctx, case)
            ctx.assume(ymd(p.items[1])[0] >= 4)
            return {"self": p}

        def requires(self, I, ctx, a):
            return period_requires(a["self"])

        def outcomes(self, I, ctx, a, old):
            r, _ = fresh_valid_instant(I, ctx, which)
            eu, en = {"this_year": ("year", 1), "last_year": ("year", 1), "n_2": ("year", 1),
                      "first_month": ("month", 1), "last_month": ("month", 1), "last_3_months": ("month", 3),
                      "first_day": ("day", 1), "first_weekday": ("weekday", 1), "first_week": ("week", 1),
                      "last_week": ("week", 1)}[which]
            return ("return", mk_period(I, eu, r, en))

        def post(self, I, ctx, a, out, old):
            if out[0] != "return" or not is_period(I, out[1]):
                return [("returns-period", False)]
            return named_period_spec(I, which, a["self"], out[1])

        def call_descriptor(self, I, case, a, ev):
            return {"callee": self.name, "kind": "property", "self": enc_period(ev, a["self"]), "args": []}
    Named.__name__ = "Named_" + which
    return Named


NAMED = ["this_year", "last_year", "n_2", "first_month", "last_month", "last_3_months", "first_day",
         "first_weekday", "first_week", "last_week"]

SAME_FAMILY_SPLITS = {("year", "year"), ("year", "month"), ("year", "day"), ("month", "month"), ("month", "day"),
                      ("day", "day"), ("week", "week"), ("week", "weekday"), ("weekday", "weekday")}


def aligned(unit, inst):
    y, m, d = ymd(inst)
    if unit == "year":
        return z3.And(m == 1, d == 1)
    if unit == "month":
        return d == 1
    if unit == "week":
        return cal.weekday0(cal.ordinal(y, m, d)) == 0
    return z3.BoolVal(True)


def sub_count(p, unit):
    u, s, n = period_parts(p)
    n = zi(n)
    if unit == "year":
        return n
    if unit == "month":
        return 12 * n if u == "year" else n
    if unit == "week":
        return n
    return day_count(p)


class PeriodGetSubperiods(Contract):
    name = f"{PER}.get_subperiods"
    prop = ("C04", "C03")
    top_level = True
    # cells the statement speaks about: same-family splits and refusals (cross-family splits: nothing asserted)
    cases = tuple((a, b) for a in DATED_UNITS for b in UNITS
                  if (a, b) in SAME_FAMILY_SPLITS or b == "eternity" or WEIGHT[a] < WEIGHT[b])
    descr = ("sub-periods of an equal or smaller unit of the same family from an aligned start are consecutive, "
             "non-overlapping, of size one and cover exactly the period; a coarser unit is refused")

    def claimed(self, pu, unit):
        return (pu, unit) in SAME_FAMILY_SPLITS

    def refused(self, pu, unit):
        return unit == "eternity" or WEIGHT[pu] < WEIGHT[unit]

    def setup(self, I, ctx, case):
        pu, unit = case
        p = sym_period(I, ctx, pu)
        if self.claimed(pu, unit):
            ctx.assume(aligned(unit, p.items[1]))
        return {"self": p, "unit": dateunit(I, unit)}

    def requires(self, I, ctx, a):
        pu = period_parts(a["self"])[0]
        unit = unit_name(a["unit"])
        r = period_requires(a["self"])
        if self.claimed(pu, unit):
            r.append(("start-aligned-to-sub-unit", aligned(unit, a["self"].items[1])))
        return r

    def post(self, I, ctx, a, out, old):
        p = a["self"]
        pu = period_parts(p)[0]
        unit = unit_name(a["unit"])
        if self.refused(pu, unit):
            return [("coarser-unit-refused", raised(out, I, "ValueError"))]
        if not self.claimed(pu, unit):
            return []    # cross-family split: nothing asserted either way (DESIGN C04 OUT)
        if out[0] != "return":
            return [("no-exception", False)]
        seq = I.as_seq(ctx, out[1])
        n = B._z(seq.length)
        res = [("count", n == sub_count(p, unit))]

        def shape(e, tag):
            if not is_period(I, e):
                return [(f"{tag}-is-period", False)]
            eu, es, en = e.items
            return [(f"{tag}-unit", unit_name(eu) == unit), (f"{tag}-size-one", zi(en) == 1),
                    (f"{tag}-start-valid", cal.valid(*ymd(es)))]
        if isinstance(seq.length, int):
            # concrete outcome (native replay): every index is checked
            N = seq.length
            if N == 0:
                return res + [("non-empty", False)]
            elems = [seq.elem(k) for k in range(N)]
            for k in (0, N // 2, N - 1):
                res += shape(elems[k], "elem")
            if not all(is_period(I, e) for e in elems):
                return res + [("elem-is-period", False)]
            res.append(("first-piece-starts-at-period-start", first_day(elems[0]) == first_day(p)))
            res.append(("last-piece-ends-at-period-end", last_day(elems[-1]) == last_day(p)))
            res.append(("consecutive-without-gap-or-overlap",
                        z3.And(*[first_day(elems[k + 1]) == last_day(elems[k]) + 1 for k in range(N - 1)]) if N > 1 else True))
            return res
        # Skolem indices: their ranges are premises of the clauses, never path assumptions (vacuity)
        i = ctx.fresh_int("i")
        gi = z3.And(i >= 0, i < n)
        e_i = seq.elem(i)
        res += [(nm, z3.Implies(gi, f) if not isinstance(f, bool) else f) for nm, f in shape(e_i, "elem")]
        if not is_period(I, e_i):
            return res
        e_0 = seq.elem(0)
        res.append(("first-piece-starts-at-period-start", z3.Implies(n >= 1, first_day(e_0) == first_day(p))))
        e_n = seq.elem(n - 1)
        res.append(("last-piece-ends-at-period-end", z3.Implies(n >= 1, last_day(e_n) == last_day(p))))
        j = ctx.fresh_int("j")
        gj = z3.And(j >= 0, j + 1 < n)
        e_j, e_j1 = seq.elem(j), seq.elem(j + 1)
        res.append(("consecutive-without-gap-or-overlap", z3.Implies(gj, first_day(e_j1) == last_day(e_j) + 1)))
        return res

    def outcomes(self, I, ctx, a, old):
        from pyvc.values import SeqVal, SymList, ListVal
        p = a["self"]
        pu = period_parts(p)[0]
        unit = unit_name(a["unit"])
        if pu == "eternity":
            # helper contract derived from the code (the statement excludes eternal periods): the size -1 makes
            # the year split empty, every other size raises
            if unit == "year":
                return ("return", ListVal([]))
            return ("raise", exc(I, "ValueError"))
        if self.refused(pu, unit):
            return ("raise", exc(I, "ValueError"))
        if not self.claimed(pu, unit):
            raise Unsupported(f"get_subperiods({pu} -> {unit}) has no contract (cross-family)")
        ctx.assume(period_in_range(p))
        n = ctx.fresh_int("nsub")
        ctx.assume(n == sub_count(p, unit))
        y, m, d = ymd(p.items[1])
        o = cal.ordinal(y, m, d)
        cache = {}

        def elem(i):
            key = B._z(i).sexpr()
            if key in cache:
                return cache[key]
            zi_ = B._z(i)
            if unit in ("year", "month"):
                t = cal.tidx(y, m) + (12 * zi_ if unit == "year" else zi_)
                st = mk_instant(I, t / 12, t % 12 + 1, d)
            else:
                st, _ = fresh_valid_instant(I, ctx, "sub")
                ctx.assume(ORD(st) == o + (7 * zi_ if unit == "week" else zi_))
            cache[key] = mk_period(I, unit, st, 1)
            return cache[key]
        return ("return", SymList(SeqVal(n, elem, tag="subperiods")))

    def call_descriptor(self, I, case, a, ev):
        return {"callee": self.name, "kind": "method", "self": enc_period(ev, a["self"]),
                "args": [enc_unit(a["unit"])]}


CONTRACTS = [InstantDate(), InstantOffset(), PeriodStop(), PeriodDays(), PeriodSizeInDays(), PeriodSizeInMonths(),
             PeriodSizeInYears(), PeriodSizeInWeeks(), PeriodSizeInWeekdays(), PeriodContains(),
             PeriodIntersection(), PeriodOffset(), PeriodGetSubperiods()] + [make_named(w)() for w in NAMED]


# ---- native probe scenarios (native/c04_probes.py): when an obligation of a period contract fails without a failing input of its own
# ---- (or cannot be generated at all), the scenario suite is run on the real code; a scenario that fails there is the failing input
C04_NATIVE = "import sys; sys.path.insert(0, '/verif/native')\nimport c04_probes\noutcome = c04_probes.run(call)\n"


def _c04_probes(self, case):
    return [{"callee": self.name, "script": C04_NATIVE, "scenarios": "calendar-family-in-three-orders"}]


_orig_judges = {}


def _c04_judge(self, I, case, call, nat):
    if call.get("scenarios") != "calendar-family-in-three-orders":
        # a call descriptor derived from the solver's model: judged by re-evaluating the postcondition
        from pyvc import replay as RP
        return RP.evaluate_post(I, self, case, call, nat)
    if nat.get("kind") == "harness-error":
        return "undecided", str(nat)[:300]
    if nat["kind"] == "raise":
        return "undecided", "probe scenario raised " + nat.get("exc", "") + ": " + nat.get("msg", "")
    return ("satisfies", "all calendar scenarios hold") if nat["value"].get("ok") else ("violates", "; ".join(nat["value"].get("problems", []))[:600])


for _c in CONTRACTS:
    _cls = type(_c)
    if "probes" not in _cls.__dict__ and not any("judge_native" in k.__dict__ for k in _cls.__mro__):
        _cls.probes = _c04_probes
        _cls.judge_native = _c04_judge
