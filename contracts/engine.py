"""Shared model pieces for simulation-level contracts: opaque result arrays, symbolic sums,
the call-site contracts of Simulation.calculate / TaxBenefitSystem.get_variable."""
from __future__ import annotations

import ast

import z3

from pyvc import builtins_ as B
from pyvc.contract import Contract
from pyvc.ctx import PathEnd
from pyvc.values import (Builtin, DictVal, ExcVal, ListVal, NOT_IMPLEMENTED, Obj, Opaque, SeqVal, Sym, SymList,
                         TupleVal, Unsupported)

from .common import *  # noqa

SIM = "openfisca_core.simulations.simulation.Simulation"
TBS = "openfisca_core.taxbenefitsystems.tax_benefit_system.TaxBenefitSystem"

ARR = z3.DeclareSort("Arr")
UNIT_ID = {u: i for i, u in enumerate(UNITS)}
# value of variable (id) at period (unit id, y, m, d, size)
VAL = z3.Function("VAL", z3.IntSort(), z3.IntSort(), z3.IntSort(), z3.IntSort(), z3.IntSort(), z3.IntSort(), ARR)
ARR_DIV = z3.Function("ARR_DIV", ARR, z3.IntSort(), ARR)
ARR_ADD = z3.Function("ARR_ADD", ARR, ARR, ARR)
ARR_ZERO = z3.Const("ARR_ZERO", ARR)

_names = {}


def name_id(name):
    if name not in _names:
        _names[name] = len(_names) + 1
    return _names[name]


def val_term(name, period):
    u, s, n = period_parts(period)
    y, m, d = ymd(s)
    return VAL(name_id(name), UNIT_ID[u], y, m, d, zi(n))


def mk_array(e, tag="array"):
    def binop(ctx, op, a, b):
        if isinstance(op, ast.Div) and isinstance(a, Opaque) and a.e is not None and a.e.sort() == ARR:
            try:
                return mk_array(ARR_DIV(a.e, zi(b)))
            except Unsupported:
                return NOT_IMPLEMENTED
        if isinstance(op, ast.Add):
            x = ARR_ZERO if (isinstance(a, int) and a == 0) else a.e if isinstance(a, Opaque) else None
            y = ARR_ZERO if (isinstance(b, int) and b == 0) else b.e if isinstance(b, Opaque) else None
            if x is not None and y is not None:
                if x is ARR_ZERO:
                    return mk_array(y)
                if y is ARR_ZERO:
                    return mk_array(x)
                return mk_array(ARR_ADD(x, y))
        return NOT_IMPLEMENTED
    return Opaque(e, tag, {"binop": binop})


class SigmaVal:
    """start + sum_{i<n} term(i) -- never given to the solver: two sums are compared by length and
    pointwise on the summand (DESIGN 2.6)."""

    def __init__(self, start, n, term):
        self.start = start
        self.n = n
        self.term = term

    def __repr__(self):
        return f"SigmaVal(n={self.n})"


def sum_hook(I, ctx, it, start):
    """sum() over a closure sequence: either some element evaluation raises (witness index) or the
    result is the symbolic sum of the elements."""
    if not I.is_symbolic_seq(it):
        return NotImplemented
    seq = I.as_seq(ctx, it)
    n = B._z(seq.length)
    alt = ctx.choose([z3.BoolVal(True), z3.BoolVal(True)])
    if alt == 1:
        # some element raises: evaluate at a witness index in normal mode
        k = ctx.fresh_int("k_raise")
        ctx.assume(z3.And(k >= 0, k < n))
        seq.elem(k)            # propagates the callee's exception
        raise PathEnd()        # no exception: this alternative is empty
    pure_prev = ctx.ghost.get("pure", False)

    def term(i, seq=seq):
        saved = ctx.ghost.get("pure", False)
        ctx.ghost["pure"] = True     # callee contracts take their non-raising outcome (all elements returned)
        try:
            return seq.elem(i)
        finally:
            ctx.ghost["pure"] = saved
    return SigmaVal(start, n, term)


class SimCalculate(Contract):
    """call-site contract of Simulation.calculate: the request either raises or returns the opaque value
    VAL(variable, period) (what that value is is C01's business)."""
    name = f"{SIM}.calculate"
    prop = ()

    def outcomes(self, I, ctx, a, old):
        name, period = a["variable_name"], a["period"]
        if not isinstance(name, str) or not is_period(I, period):
            raise Unsupported(f"calculate contract needs a concrete variable name and a Period, got {name!r}, {period!r}")
        ctx.ghost.setdefault("calculate_calls", []).append((name, period))
        if not ctx.ghost.get("pure") and ctx.choose([z3.BoolVal(True), z3.BoolVal(True)]) == 1:
            e = ExcVal(I.exc_classes["Exception"])
            e.origin = "callee:calculate"
            return ("raise", e)
        v = mk_array(val_term(name, period))

        def inplace(ctx2, op, cur, rhs):
            # the array calculate returns is the one the holder keeps: an in-place operation on it rewrites the stored value
            ctx2.oblige("frame.array-returned-by-calculate-is-not-written-in-place", False, kind="frame")
            r = v.attrs["binop"](ctx2, op, cur, rhs)
            if r is NOT_IMPLEMENTED:
                raise Unsupported("in-place operation on a calculated array")
            return r
        v.attrs["inplace"] = inplace
        return ("return", v)

    def post(self, I, ctx, a, out, old):
        return []


class TbsGetVariable(Contract):
    """call-site contract of TaxBenefitSystem.get_variable over the `variables` table"""
    name = f"{TBS}.get_variable"
    prop = ()

    def outcomes(self, I, ctx, a, old):
        tbs = a["self"]
        name = a["variable_name"]
        variables = tbs.fields["variables"]
        from pyvc.interp import hkey
        v = variables.items.get(hkey(name))
        if v is None and a.get("check_existence"):
            return ("raise", ExcVal(I.resolve_qualified("openfisca_core.errors.variable_not_found_error.VariableNotFoundError")))
        return ("return", v)

    def post(self, I, ctx, a, out, old):
        return []


def mk_variable(I, name, defp):
    vcls = I.resolve_qualified("openfisca_core.variables.variable.Variable")
    return Obj(vcls, {"name": name, "definition_period": dateunit(I, defp), "is_neutralized": False})


def mk_tbs(I, variables):
    cls = I.resolve_qualified(TBS)
    d = DictVal()
    from pyvc.interp import hkey
    for k, v in variables.items():
        d.items[hkey(k)] = v
        d.keyvals[hkey(k)] = k
    return Obj(cls, {"variables": d})


def mk_simulation(I, tbs, **fields):
    cls = I.resolve_qualified(SIM)
    f = {"tax_benefit_system": tbs}
    f.update(fields)
    return Obj(cls, f)


def install(I):
    I.ext["__sum_hook__"] = sum_hook


CONTRACTS = [SimCalculate(), TbsGetVariable()]
