"""C09 -- tax-scale transformations preserve the amounts they are meant to preserve (DESIGN 4 C09, 3.4).
Every transformation gets a structural contract on the real function (thresholds / rates of the result as functions of the
operand's, frame: the operand is unchanged unless the operation is in place), and the property's law is carried to calc()
through C08's MarginalRateCalc contract (calc = sum over brackets of rate x part-of-the-base-in-the-bracket) by a lemma about
the summands (termwise) plus linearity of finite sums (induction)."""
from __future__ import annotations

import z3

from pyvc import builtins_ as B
from pyvc import nparr
from pyvc import smt
from pyvc.contract import Contract, LoopSpec
from pyvc.values import Builtin, ClassVal, DictVal, ExcVal, ListVal, Obj, Opaque, SeqVal, Sym, SymList, TupleVal, Unsupported

from .common import *  # noqa
from .c06_parameters import dict_of6
from .c08_taxscales import ScaleWorld, MR, LA, RL, part, in_bracket, below_first, fresh_fn, State, state_of, positional_facts

TL = "openfisca_core.taxscales.tax_scale_like.TaxScaleLike"


def fresh_seq(ctx, name, n):
    F = z3.Function(ctx.fresh_name(name), z3.IntSort(), z3.RealSort())
    return SeqVal(n, lambda q, F=F: Sym(F(B._z(q))), name), F


def seq_of(I, ctx, v):
    return I.as_seq(ctx, v)


def el(seq, q):
    return B.zreal(seq.elem(q))


def same_list(I, ctx, lst, n, F, q):
    """list `lst` has length n and elements F(0..n-1): one clause with a free index q"""
    s = seq_of(I, ctx, lst)
    if isinstance(s.length, int):
        return z3.And(B._z(s.length) == n, *[el(s, j) == F(z3.IntVal(j)) for j in range(s.length)])
    return z3.And(B._z(s.length) == n, z3.Implies(z3.And(q >= 0, q < n), el(s, q) == F(q)))


def forall_list(I, ctx, lst, n, fn, lo=0):
    """for all q in [lo, n): lst[q] == fn(q)  (quantified: for invariants that are assumed and proved)"""
    s = seq_of(I, ctx, lst)
    if isinstance(s.length, int):
        return z3.And(*[z3.Implies(z3.And(z3.IntVal(j) >= lo, z3.IntVal(j) < n), el(s, j) == fn(z3.IntVal(j))) for j in range(s.length)] + [z3.BoolVal(True)])
    q = z3.Int(ctx.fresh_name("q_inv"))
    body = z3.Implies(z3.And(q >= lo, q < n), el(s, q) == fn(q))
    return z3.ForAll([q], body)


def unchanged(I, ctx, w, scale=None, second="rates"):
    """frame clauses: the operand still has its thresholds and rates (same list objects, same content)"""
    scale = scale or w.scale
    q = ctx.fresh_int("fq")
    return [("operand-keeps-its-thresholds", z3.And(scale.fields["thresholds"] is w.thresholds, same_list(I, ctx, w.thresholds, w.n, w.T, q))),
            ("operand-keeps-its-rates", z3.And(scale.fields[second] is w.values, same_list(I, ctx, w.values, w.n, w.R, q)))]


def is_new_scale(I, r, w, cls=MR):
    return (isinstance(r, Obj) and r is not w.scale and r.cls is I.resolve_qualified(cls)
            and r.fields.get("thresholds") is not w.thresholds and r.fields.get("rates") is not w.values)


# ---------------------------------------------------------------------------------------------------------------
class MultiplyRates(Contract):
    name = f"{RL}.multiply_rates"
    loop_heads = {0: 'for (i, rate) in enumerate(self.rates)',
                  1: 'for (threshold, rate) in zip(self.thresholds, self.rates)'}
    prop = ("C09",)
    top_level = True
    cases = ("inplace", "new", "inplace-thresholds-may-coincide", "new-thresholds-may-coincide")
    descr = ("multiply_rates gives a scale with the same thresholds and every rate multiplied by the factor - every summand of "
             "calc, hence (linearity lemma) every tax, is multiplied by the factor; not in place: the operand is unchanged. Also for a "
             "scale in which thresholds coincide (which rounding in multiply_thresholds produces): bracket by bracket all the same")

    def setup(self, I, ctx, case):
        w = ScaleWorld(I, ctx, MR, min_brackets=0, strict=not case.endswith("may-coincide"))
        case = case.split("-")[0]
        ctx.ghost["sw"] = w
        f = ctx.fresh_real("factor")
        ctx.ghost["f"] = f
        return {"self": w.scale, "factor": Sym(f), "inplace": case == "inplace", "__w": w, "__f": f}

    def probes(self, case):
        return [{"callee": self.name, "script": NATIVE, "op": "multiply_rates", "inplace": case.startswith("inplace"), "factor": f, "thresholds": t, "rates": r}
                for f in (1.0, 0.5) for t, r in (([0.0, 10.0, 20.0], [0.1, 0.2, 0.4]), ([0.0, 1000.0, 1000.0, 3000.0], [0.0, 0.1, 0.2, 0.3]), ([5.0, 5.0], [0.1, 0.3]))]

    def judge_native(self, I, case, call, nat):
        return judge(nat)

    def _inv0(self, ctx, I, vars):
        w, f = ctx.ghost["sw"], ctx.ghost["f"]
        k = B._z(vars["__k0"])
        s = vars["self"]
        rates = s.fields["rates"]
        sr = seq_of(I, ctx, rates)
        return [("rates-keep-their-number", z3.And(rates is w.values, B._z(sr.length) == w.n)),
                ("earlier-rates-are-multiplied", forall_list(I, ctx, rates, k, lambda q: w.R(q) * f)),
                ("later-rates-are-untouched", forall_list(I, ctx, rates, w.n, lambda q: w.R(q), lo=k))]

    def _havoc0(self, ctx, I, vars):
        w = ctx.ghost["sw"]
        seq, _ = fresh_seq(ctx, "rates_h", w.n)
        vars["self"].fields["rates"].seq = seq
        vars["i"] = Sym(ctx.fresh_int("hv_i"))
        vars["rate"] = Sym(ctx.fresh_real("hv_rate"))

    def _inv1(self, ctx, I, vars):
        w, f = ctx.ghost["sw"], ctx.ghost["f"]
        k = B._z(vars["__k1"])
        new = vars["new_tax_scale"]
        st, sr = seq_of(I, ctx, new.fields["thresholds"]), seq_of(I, ctx, new.fields["rates"])
        return [("new-lists-have-one-entry-per-bracket-done", z3.And(B._z(st.length) == k, B._z(sr.length) == k)),
                ("new-thresholds-are-the-operand's", forall_list(I, ctx, new.fields["thresholds"], k, lambda q: w.T(q))),
                ("new-rates-are-multiplied", forall_list(I, ctx, new.fields["rates"], k, lambda q: w.R(q) * f)),
                ("new-lists-are-not-the-operand's", new.fields["thresholds"] is not w.thresholds and new.fields["rates"] is not w.values)]

    def _havoc1(self, ctx, I, vars):
        k = B._z(vars["__k1"])
        new = vars["new_tax_scale"]
        new.fields["thresholds"] = SymList(fresh_seq(ctx, "new_thresholds_h", k)[0])
        new.fields["rates"] = SymList(fresh_seq(ctx, "new_rates_h", k)[0])
        vars["threshold"] = Sym(ctx.fresh_real("hv_threshold"))
        vars["rate"] = Sym(ctx.fresh_real("hv_rate"))

    @property
    def loops(self):
        l0 = LoopSpec(self._inv0, self._havoc0)
        l0.heap_frame = ("self.rates",)
        l1 = LoopSpec(self._inv1, self._havoc1)
        l1.heap_frame = ("new_tax_scale.thresholds", "new_tax_scale.rates")
        return {0: l0, 1: l1}

    def post(self, I, ctx, a, out, old):
        w, f = a["__w"], a["__f"]
        if out[0] != "return" or not isinstance(out[1], Obj):
            return [("returns-a-scale", False)]
        r = out[1]
        q = ctx.fresh_int("q")
        b = ctx.fresh_real("b")
        res = [("thresholds-are-the-operand's", same_list(I, ctx, r.fields["thresholds"], w.n, w.T, q)),
               ("every-rate-is-multiplied-by-the-factor", same_list(I, ctx, r.fields["rates"], w.n, lambda x: w.R(x) * f, q))]
        # the law, termwise on calc's summands (C08 MarginalRateCalc): rate' x part == factor x (rate x part)
        rr = seq_of(I, ctx, r.fields["rates"])
        res.append(("every-summand-of-calc-is-multiplied-by-the-factor",
                    z3.Implies(z3.And(q >= 0, q < w.n), el(rr, q) * part(w, b, q) == f * (w.R(q) * part(w, b, q)))))
        if a["inplace"]:
            res.append(("in-place-returns-the-operand", r is w.scale))
            res.append(("thresholds-list-untouched", r.fields["thresholds"] is w.thresholds))
        else:
            res.append(("a-new-scale-with-its-own-lists", is_new_scale(I, r, w)))
            res += unchanged(I, ctx, w)
        return res


class MultiplyThresholds(Contract):
    name = f"{RL}.multiply_thresholds"
    loop_heads = {0: 'for (i, threshold) in enumerate(self.thresholds)',
                  1: 'for (threshold, rate) in zip(self.thresholds, self.rates)'}
    prop = ("C09",)
    top_level = True
    cases = ("inplace", "new")
    descr = ("multiply_thresholds (positive factor, no rounding) gives a scale with the same rates and every threshold multiplied by "
             "the factor - every summand of calc on the scaled base is the scaled summand; not in place: the operand is unchanged")

    def setup(self, I, ctx, case):
        w = ScaleWorld(I, ctx, MR, min_brackets=0)
        ctx.ghost["sw"] = w
        f = ctx.fresh_real("factor")
        ctx.assume(f > 0)
        ctx.ghost["f"] = f
        return {"self": w.scale, "factor": Sym(f), "inplace": case == "inplace", "__w": w, "__f": f}

    def _inv0(self, ctx, I, vars):
        w, f = ctx.ghost["sw"], ctx.ghost["f"]
        k = B._z(vars["__k0"])
        th = vars["self"].fields["thresholds"]
        st = seq_of(I, ctx, th)
        return [("thresholds-keep-their-number", z3.And(th is w.thresholds, B._z(st.length) == w.n)),
                ("earlier-thresholds-are-multiplied", forall_list(I, ctx, th, k, lambda q: w.T(q) * f)),
                ("later-thresholds-are-untouched", forall_list(I, ctx, th, w.n, lambda q: w.T(q), lo=k))]

    def _havoc0(self, ctx, I, vars):
        w = ctx.ghost["sw"]
        vars["self"].fields["thresholds"].seq = fresh_seq(ctx, "thresholds_h", w.n)[0]
        vars["i"] = Sym(ctx.fresh_int("hv_i"))
        vars["threshold"] = Sym(ctx.fresh_real("hv_threshold"))

    def _inv1(self, ctx, I, vars):
        w, f = ctx.ghost["sw"], ctx.ghost["f"]
        k = B._z(vars["__k1"])
        new = vars["new_tax_scale"]
        st, sr = seq_of(I, ctx, new.fields["thresholds"]), seq_of(I, ctx, new.fields["rates"])
        return [("new-lists-have-one-entry-per-bracket-done", z3.And(B._z(st.length) == k, B._z(sr.length) == k)),
                ("new-thresholds-are-multiplied", forall_list(I, ctx, new.fields["thresholds"], k, lambda q: w.T(q) * f)),
                ("new-rates-are-the-operand's", forall_list(I, ctx, new.fields["rates"], k, lambda q: w.R(q))),
                ("new-lists-are-not-the-operand's", new.fields["thresholds"] is not w.thresholds and new.fields["rates"] is not w.values)]

    _havoc1 = MultiplyRates._havoc1

    @property
    def loops(self):
        l0 = LoopSpec(self._inv0, self._havoc0)
        l0.heap_frame = ("self.thresholds",)
        l1 = LoopSpec(self._inv1, self._havoc1)
        l1.heap_frame = ("new_tax_scale.thresholds", "new_tax_scale.rates")
        return {0: l0, 1: l1}

    def post(self, I, ctx, a, out, old):
        w, f = a["__w"], a["__f"]
        if out[0] != "return" or not isinstance(out[1], Obj):
            return [("returns-a-scale", False)]
        r = out[1]
        q = ctx.fresh_int("q")
        b = ctx.fresh_real("b")
        res = [("every-threshold-is-multiplied-by-the-factor", same_list(I, ctx, r.fields["thresholds"], w.n, lambda x: w.T(x) * f, q)),
               ("rates-are-the-operand's", same_list(I, ctx, r.fields["rates"], w.n, w.R, q))]
        res += scaled_summand_clause(I, ctx, w, r, f, q, b)
        if a["inplace"]:
            res.append(("in-place-returns-the-operand", r is w.scale))
            res.append(("rates-list-untouched", r.fields["rates"] is w.values))
        else:
            res.append(("a-new-scale-with-its-own-lists", is_new_scale(I, r, w)))
            res += unchanged(I, ctx, w)
        return res


class Copy(Contract):
    name = f"{TL}.copy"
    prop = ("C09",)
    top_level = True
    descr = ("copy gives a new scale of the same class with its own threshold and rate lists holding the same numbers (so it taxes "
             "every base identically, by C08's calc contract), and leaves the operand unchanged")

    def setup(self, I, ctx, case):
        w = ScaleWorld(I, ctx, MR, min_brackets=0)
        return {"self": w.scale, "__w": w}

    def post(self, I, ctx, a, out, old):
        w = a["__w"]
        if out[0] != "return" or not isinstance(out[1], Obj):
            return [("returns-a-scale", False)]
        r = out[1]
        q = ctx.fresh_int("q")
        return [("a-new-scale-with-its-own-lists", is_new_scale(I, r, w)),
                ("same-thresholds", same_list(I, ctx, r.fields["thresholds"], w.n, w.T, q)),
                ("same-rates", same_list(I, ctx, r.fields["rates"], w.n, w.R, q)),
                ("same-name-option-unit", all(r.fields.get(k) == w.scale.fields.get(k) for k in ("name", "option", "unit")))] + unchanged(I, ctx, w)


class ScaleTaxScales(Contract):
    name = f"{MR}.scale_tax_scales"
    prop = ("C09",)
    top_level = True
    descr = ("scale_tax_scales gives a new scale whose thresholds are the operand's times the factor, with the operand's rates: "
             "every summand of calc on the scaled base is the scaled summand; the operand is unchanged")
    inline = (f"{TL}.copy",)

    def setup(self, I, ctx, case):
        w = ScaleWorld(I, ctx, MR, min_brackets=0)
        ctx.ghost["sw"] = w
        f = ctx.fresh_real("factor")
        ctx.assume(f > 0)
        ctx.ghost["f"] = f
        return {"self": w.scale, "factor": Sym(f), "__w": w, "__f": f}

    @staticmethod
    def local_contracts():
        return {MultiplyThresholds.name: MultiplyThresholdsSite()}

    def post(self, I, ctx, a, out, old):
        w, f = a["__w"], a["__f"]
        if out[0] != "return" or not isinstance(out[1], Obj):
            return [("returns-a-scale", False)]
        r = out[1]
        q, b = ctx.fresh_int("q"), ctx.fresh_real("b")
        return [("a-new-scale-with-its-own-lists", is_new_scale(I, r, w)),
                ("every-threshold-is-multiplied-by-the-factor", same_list(I, ctx, r.fields["thresholds"], w.n, lambda x: w.T(x) * f, q)),
                ("rates-are-the-operand's", same_list(I, ctx, r.fields["rates"], w.n, w.R, q))] + \
            scaled_summand_clause(I, ctx, w, r, f, q, b) + unchanged(I, ctx, w)


class MultiplyThresholdsSite(Contract):
    """call-site form of MultiplyThresholds (in place, no rounding): what the verified contract above ensures"""
    name = f"{RL}.multiply_thresholds"
    prop = ()

    def requires(self, I, ctx, a):
        return [("in-place-without-rounding", a.get("decimals") is None and a.get("inplace", True) is True and a.get("new_name") is None)]

    def outcomes(self, I, ctx, a, old):
        s = a["self"]
        th = s.fields["thresholds"]
        cur = I.as_seq(ctx, th)
        f = B.zreal(a["factor"])
        new = SeqVal(cur.length, lambda q, cur=cur: Sym(el(cur, q) * f), "thresholds*factor")
        if isinstance(th, SymList):
            th.seq = new
        else:
            s.fields["thresholds"] = SymList(new)
        return ("return", s)

    def post(self, I, ctx, a, out, old):
        return []


class AddBracketSite(Contract):
    """call-site form of add_bracket: requires a well-formed scale; ensures AddBracketPositional's facts on fresh lists"""
    name = f"{RL}.add_bracket"
    prop = ()

    def outcomes(self, I, ctx, a, old):
        s = a["self"]
        before, nr = state_of(I, ctx, s)
        t, r = B.zreal(a["threshold"]), B.zreal(a["rate"])
        q1, q2 = z3.Int(ctx.fresh_name("wf1")), z3.Int(ctx.fresh_name("wf2"))
        ctx.oblige("add_bracket.requires.thresholds-strictly-increasing",
                   z3.ForAll([q1, q2], z3.Implies(z3.And(0 <= q1, q1 < q2, q2 < before.n), before.T(q1) < before.T(q2))), kind="requires")
        ctx.oblige("add_bracket.requires.as-many-rates-as-thresholds", nr == before.n, kind="requires")
        e = z3.Int(ctx.fresh_name("e"))
        present = ctx.branch(z3.Exists([e], z3.And(e >= 0, e < before.n, before.T(e) == t)))
        p = ctx.fresh_int("pos")
        TN, RN = fresh_fn(ctx, "T_after"), fresh_fn(ctx, "R_after")
        n_after = before.n if present else before.n + 1
        after = State(TN, RN, smt.simp(n_after))
        q = z3.Int(ctx.fresh_name("q_ab"))
        facts = positional_facts(before, after, p, present, t, r, q)
        for f in facts:
            ctx.assume(z3.ForAll([q], f) if _mentions(f, q) else f)
        for key, F in (("thresholds", TN), ("rates", RN)):
            lst = s.fields[key]
            new = SeqVal(after.n, lambda x, F=F: Sym(F(B._z(x))), key + "_after")
            if isinstance(lst, SymList):
                lst.seq = new
            else:
                s.fields[key] = SymList(new)
        ctx.ghost.setdefault("add_bracket_calls", []).append({"before": before, "after": after, "p": p, "present": present, "t": t, "r": r})
        return ("return", None)

    def post(self, I, ctx, a, out, old):
        return []


def _mentions(f, v):
    seen, work = set(), [f]
    while work:
        x = work.pop()
        if x.get_id() in seen:
            continue
        seen.add(x.get_id())
        if z3.is_const(x) and x.decl().kind() == z3.Z3_OP_UNINTERPRETED and x.eq(v):
            return True
        work.extend(x.children())
    return False


def rho_at(S, x, v, k):
    """v is the marginal rate of scale S at the point x (k: the bracket containing x, if any)"""
    return z3.If(below_first(S.T, S.n, x), v == 0, z3.And(in_bracket(S.T, S.n, x, k), v == S.R(k)))


class Rho:
    """ghost: the marginal-rate function x -> rate of a well-formed scale state, introduced by its definition
    rho_at(S, x, RHO(x), K(x)) for all x (a definitional extension: C08's lemma bracket.count... shows every point at or
    above the first threshold lies in a bracket, and strictly increasing thresholds make it unique)"""

    def __init__(self, ctx, S, tag):
        self.S = S
        self.f = z3.Function(ctx.fresh_name("RHO_" + tag), z3.RealSort(), z3.RealSort())
        self.k = z3.Function(ctx.fresh_name("K_" + tag), z3.RealSort(), z3.IntSort())
        x = z3.Real(ctx.fresh_name("x_def"))
        ctx.assume(z3.ForAll([x], rho_at(S, x, self.f(x), self.k(x)), patterns=[self.f(x)]))


def well_formed(ctx, S, nr=None):
    q1, q2 = z3.Int(ctx.fresh_name("wf1")), z3.Int(ctx.fresh_name("wf2"))
    t1, t2 = S.T(q1), S.T(q2)
    simple = all(z3.is_app(t) and t.decl().kind() == z3.Z3_OP_UNINTERPRETED for t in (t1, t2))
    f = z3.ForAll([q1, q2], z3.Implies(z3.And(0 <= q1, q1 < q2, q2 < S.n), t1 < t2), **({"patterns": [z3.MultiPattern(t1, t2)]} if simple else {}))
    return z3.And(f, S.n >= 0, nr == S.n) if nr is not None else z3.And(f, S.n >= 0)


def replace_lists(ctx, scale, n, tag):
    TN, RN = fresh_fn(ctx, "T_" + tag), fresh_fn(ctx, "R_" + tag)
    for key, F in (("thresholds", TN), ("rates", RN)):
        lst = scale.fields[key]
        new = SeqVal(n, lambda x, F=F: Sym(F(B._z(x))), key + "_" + tag)
        if isinstance(lst, SymList):
            lst.seq = new
        else:
            scale.fields[key] = SymList(new)
    return State(TN, RN, n)


class CombineBracketSite(Contract):
    """call-site form of CombineBracket: requires a well-formed scale and high > low, high != 0; ensures a well-formed scale
    whose marginal-rate function is the previous one plus `rate` on [low, high)"""
    name = f"{MR}.combine_bracket"
    prop = ()

    def outcomes(self, I, ctx, a, old):
        s = a["self"]
        before, nr = state_of(I, ctx, s)
        rho = ctx.ghost.get("rho", {}).get(id(s))
        ctx.oblige("combine_bracket.requires.well-formed-scale", well_formed(ctx, before, nr), kind="requires")
        rate, lo = B.zreal(a["rate"]), B.zreal(a.get("threshold_low", 0))
        hi = a.get("threshold_high", False)
        if hi is not False:
            hi = B.zreal(hi)
            ctx.oblige("combine_bracket.requires.high-above-low-and-not-zero", z3.And(hi > lo, hi != 0), kind="requires")
        if rho is None:
            rho = Rho(ctx, before, "before")
        n_after = ctx.fresh_int("n_after")
        after = replace_lists(ctx, s, n_after, "combined")
        ctx.assume(well_formed(ctx, after))
        rho2 = Rho(ctx, after, "after")
        x = z3.Real(ctx.fresh_name("x_cb"))
        inside = z3.And(lo <= x, x < hi) if hi is not False else lo <= x
        ctx.assume(z3.ForAll([x], rho2.f(x) == rho.f(x) + z3.If(inside, rate, 0), patterns=[rho2.f(x)]))
        ctx.ghost.setdefault("rho", {})[id(s)] = rho2
        return ("return", None)

    def post(self, I, ctx, a, out, old):
        return []


class AddTaxScale(Contract):
    name = f"{MR}.add_tax_scale"
    loop_heads = {0: 'for (threshold_low, threshold_high, rate) in zip(tax_scale.thresholds[:-1], tax_scale.thresholds[1:], tax_scale.rates)'}
    prop = ("C09",)
    top_level = True
    cases = ("non-empty", "empty")
    descr = ("add_tax_scale makes the marginal rate of the receiving scale, at every point, the sum of its previous marginal rate "
             "and the added scale's (so the tax on any base, the integral of the marginal rate, is the sum of the two taxes); the "
             "scale stays well formed and the added scale is unchanged")

    def setup(self, I, ctx, case):
        w = ScaleWorld(I, ctx, MR, min_brackets=0)
        o = ScaleWorld(I, ctx, MR, min_brackets=1 if case == "non-empty" else 0)
        if case == "empty":
            ctx.assume(o.n == 0)
        else:
            ctx.assume(o.T(0) >= 0)        # the statement's scales have non-negative thresholds (a zero upper threshold reads as "no upper bound")
        ctx.ghost["sw"], ctx.ghost["so"] = w, o
        S0, SO = State(w.T, w.R, w.n), State(o.T, o.R, o.n)
        rho0, rhoo = Rho(ctx, S0, "self"), Rho(ctx, SO, "other")
        ctx.ghost["rho"] = {id(w.scale): rho0}
        ctx.ghost["rho0"], ctx.ghost["rhoo"] = rho0, rhoo
        return {"self": w.scale, "tax_scale": o.scale, "__w": w, "__o": o}

    @staticmethod
    def local_contracts():
        return {CombineBracketSite.name: CombineBracketSite()}

    def _inv(self, ctx, I, vars):
        w, o = ctx.ghost["sw"], ctx.ghost["so"]
        m = B._z(vars["__k0"])
        s = vars["self"]
        cur, nr = state_of(I, ctx, s)
        rho, rho0, rhoo = ctx.ghost["rho"][id(s)], ctx.ghost["rho0"], ctx.ghost["rhoo"]
        x = z3.Real(ctx.fresh_name("x_inv"))
        return [("receiver-stays-well-formed", well_formed(ctx, cur, nr)),
                ("brackets-done-so-far-are-added",
                 z3.ForAll([x], rho.f(x) == rho0.f(x) + z3.If(z3.And(o.T(0) <= x, x < o.T(m)), rhoo.f(x), 0), patterns=[rho.f(x)]))]

    def _havoc(self, ctx, I, vars):
        s = vars["self"]
        n = ctx.fresh_int("n_h")
        cur = replace_lists(ctx, s, n, "h")
        ctx.ghost["rho"][id(s)] = Rho(ctx, cur, "h")
        for v in ("threshold_low", "threshold_high", "rate"):
            vars[v] = Sym(ctx.fresh_real("hv_" + v))

    @property
    def loops(self):
        ls = LoopSpec(self._inv, self._havoc)
        ls.heap_frame = ("self.thresholds", "self.rates")
        return {0: ls}

    def post(self, I, ctx, a, out, old):
        w, o = a["__w"], a["__o"]
        if out[0] != "return":
            return [("no-exception", False)]
        fin, nr = state_of(I, ctx, w.scale)
        rho, rho0, rhoo = ctx.ghost["rho"][id(w.scale)], ctx.ghost["rho0"], ctx.ghost["rhoo"]
        x = ctx.fresh_real("x")
        return [("receiver-stays-well-formed", well_formed(ctx, fin, nr)),
                ("marginal-rate-everywhere-is-the-sum-of-the-two-marginal-rates", rho.f(x) == rho0.f(x) + rhoo.f(x))] + \
            unchanged(I, ctx, o, scale=o.scale)

    def probes(self, case):
        S = [([0.0, 10.0, 20.0], [0.1, 0.2, 0.4]), ([0.0], [0.3]), ([0.0, 5.0], [0.0, 0.5]), ([10.0], [0.1]), ([100.0, 200.0], [0.1, 0.2]), ([], [])]
        return [{"callee": self.name, "script": NATIVE, "op": "add_tax_scale", "thresholds": t, "rates": r, "thresholds2": t2, "rates2": r2}
                for t, r in S for t2, r2 in (S if case == "non-empty" else [([], [])]) if case == "empty" or t2]

    def judge_native(self, I, case, call, nat):
        return judge(nat)


class Inverse(Contract):
    name = f"{MR}.inverse"
    loop_heads = {0: 'for (threshold, rate) in zip(self.thresholds, self.rates)'}
    prop = ("C09",)
    top_level = True
    descr = ("inverse of a scale starting at 0 with rates below 1: a new scale whose k-th threshold is the net amount at the k-th "
             "gross threshold (T(k) - tax(T(k))) and whose k-th rate is 1/(1 - rate k); then gross bracket k maps onto net bracket "
             "k, and the summands of calc of the inverse at the net amount are the gross bracket widths below the gross amount "
             "(which telescope to the gross amount: lemma); the operand is unchanged")

    cases = (None, "after-an-earlier-inverse-and-an-in-place-change")

    @staticmethod
    def _pre(ctx, w):
        q = z3.Int(ctx.fresh_name("q_pre"))
        ctx.assume(w.T(0) == 0)
        ctx.assume(z3.ForAll([q], z3.Implies(z3.And(q >= 0, q < w.n), w.R(q) < 1), patterns=[w.R(q)]))
        # ghost: A(k) = tax at the k-th threshold = sum_{q<k} R(q) (T(q+1) - T(q)), unfolded one step at a time where needed
        w.A = z3.Function(ctx.fresh_name("TAX_AT_T"), z3.IntSort(), z3.RealSort())
        ctx.assume(w.A(0) == 0)

    def setup(self, I, ctx, case):
        w = ScaleWorld(I, ctx, MR, min_brackets=1)
        self._pre(ctx, w)
        if case is not None:
            # history: inverse() was used on this scale object before, when its lists held other thresholds / rates (as many), and
            # the scale was then changed in place (multiply_rates / multiply_thresholds); the inverse asked for now is the
            # inverse of the scale as it is now
            w0 = ScaleWorld(I, ctx, MR, min_brackets=1)
            ctx.assume(w0.n == w.n)
            self._pre(ctx, w0)
            now = (w.thresholds.seq, w.values.seq)
            w.thresholds.seq, w.values.seq = w0.thresholds.seq, w0.values.seq
            w0.scale, w0.thresholds, w0.values = w.scale, w.thresholds, w.values
            ctx.ghost["sw"] = w0
            f, _ = self.target(I)
            ctx.depth += 1
            try:
                I.inline_call(ctx, f, [], {"self": w.scale})
            finally:
                ctx.depth -= 1
            w.thresholds.seq, w.values.seq = now
        ctx.ghost["sw"] = w
        return {"self": w.scale, "__w": w}

    @staticmethod
    def unfold(ctx, w, k):
        ctx.assume(z3.Implies(k >= 0, w.A(k + 1) == w.A(k) + w.R(k) * (w.T(k + 1) - w.T(k))))

    @staticmethod
    def local_contracts():
        return {AddBracketSite.name: AddBracketSite()}

    def _inv(self, ctx, I, vars):
        w = ctx.ghost["sw"]
        m = B._z(vars["__k0"])
        inv = vars["inverse"]
        cur, nr = state_of(I, ctx, inv)
        q = z3.Int(ctx.fresh_name("q_inv"))
        res = [("one-net-bracket-per-gross-bracket-done", z3.And(cur.n == m, nr == m)),
               ("net-thresholds-are-gross-thresholds-minus-the-tax-there", z3.ForAll([q], z3.Implies(z3.And(q >= 0, q < m), cur.T(q) == w.T(q) - w.A(q)))),
               ("net-rates-are-the-inverse-rates", z3.ForAll([q], z3.Implies(z3.And(q >= 0, q < m), cur.R(q) * (1 - w.R(q)) == 1))),
               ("net-thresholds-strictly-increasing", well_formed(ctx, cur))]
        if "previous_rate" in vars and "theta" in vars:
            res.append(("running-rate-and-intercept", z3.Implies(m >= 1, z3.And(B.zreal(vars["previous_rate"]) == w.R(m - 1),
                                                                               B.zreal(vars["theta"]) == w.R(m - 1) * w.T(m - 1) - w.A(m - 1)))))
        res.append(("a-new-scale-is-being-filled", inv is not w.scale and inv.fields["thresholds"] is not w.thresholds and inv.fields["rates"] is not w.values))
        return res

    def _havoc(self, ctx, I, vars):
        w = ctx.ghost["sw"]
        m = B._z(vars["__k0"])
        Inverse.unfold(ctx, w, m - 1)
        Inverse.unfold(ctx, w, m)
        replace_lists(ctx, vars["inverse"], m, "inv_h")
        for v in ("previous_rate", "theta", "net_threshold", "threshold", "rate"):
            vars[v] = Sym(ctx.fresh_real("hv_" + v))

    @property
    def loops(self):
        ls = LoopSpec(self._inv, self._havoc)
        ls.heap_frame = ("inverse.thresholds", "inverse.rates")
        return {0: ls}

    def post(self, I, ctx, a, out, old):
        w = a["__w"]
        if out[0] != "return" or not isinstance(out[1], Obj):
            return [("returns-a-scale", False)]
        r = out[1]
        inv, nr = state_of(I, ctx, r)
        q, k = ctx.fresh_int("q"), ctx.fresh_int("k")
        b = ctx.fresh_real("gross")
        Inverse.unfold(ctx, w, q)
        Inverse.unfold(ctx, w, k)
        net = b - w.A(k) - w.R(k) * (b - w.T(k))
        in_gross = z3.And(k >= 0, k < w.n, w.T(k) <= b, z3.Or(k + 1 >= w.n, b < w.T(k + 1)))
        res = [("a-new-scale-with-its-own-lists", is_new_scale(I, r, w)),
               ("one-net-bracket-per-gross-bracket", z3.And(inv.n == w.n, nr == w.n)),
               ("net-threshold-k-is-the-net-amount-at-gross-threshold-k", z3.Implies(z3.And(q >= 0, q < w.n), inv.T(q) == w.T(q) - w.A(q))),
               ("net-rate-k-is-one-over-one-minus-rate-k", z3.Implies(z3.And(q >= 0, q < w.n), inv.R(q) * (1 - w.R(q)) == 1)),
               ("net-bracket-width-is-the-gross-width-times-one-minus-the-rate",
                z3.Implies(z3.And(q >= 0, q + 1 < w.n), inv.T(q + 1) - inv.T(q) == (1 - w.R(q)) * (w.T(q + 1) - w.T(q)))),
               ("a-gross-amount-in-bracket-k-has-its-net-amount-in-net-bracket-k",
                z3.Implies(in_gross, z3.And(inv.T(k) <= net, z3.Or(k + 1 >= w.n, net < inv.T(k + 1))))),
               ("summand-of-a-full-net-bracket-is-the-gross-bracket-width",
                z3.Implies(z3.And(q >= 0, q + 1 < w.n), inv.R(q) * (inv.T(q + 1) - inv.T(q)) == w.T(q + 1) - w.T(q))),
               ("summand-of-the-last-net-bracket-reached-is-the-gross-amount-above-its-threshold",
                z3.Implies(in_gross, inv.R(k) * (net - inv.T(k)) == b - w.T(k)))]
        return res + unchanged(I, ctx, w)

    def probes(self, case):
        return [{"callee": self.name, "script": NATIVE, "op": "inverse" if case is None else "inverse_history", "thresholds": t, "rates": r}
                for t, r in (([0.0], [0.3]), ([0.0, 10.0, 20.0], [0.1, 0.2, 0.4]), ([0.0, 5.0], [0.0, 0.5]), ([0.0, 1.0, 2.0, 3.0], [0.5, 0.25, 0.0, 0.75]))]

    def judge_native(self, I, case, call, nat):
        return judge(nat)



class AverageShape:
    """ghost, shared by to_average (which ensures it) and to_marginal (which requires it): the average-rate scale AV of a
    marginal-rate scale S with n >= 1 brackets, 0 <= t_0 < ... < t_{n-1} < +inf. `off` = 1 when t_0 > 0 (then AV starts with
    an extra knot (0, 0)), else 0. A(k) = tax of S at its k-th threshold = sum_{j<k} r_j (t_{j+1} - t_j).
      knots:  AV.T(off + q) = t_q (q < n),  AV.T(off + n) = +inf,  AV.T(0) = 0
      rates:  AV.R(off + q) * t_q = A(q) (1 <= q < n)  -- average rate x base = tax at the knots --,
              AV.R(q) = 0 for q <= off,  AV.R(off + n) = r_{n-1} (the marginal rate at infinity)"""

    @staticmethod
    def ghost(ctx, w):
        w.A = z3.Function(ctx.fresh_name("TAX_AT_T"), z3.IntSort(), z3.RealSort())
        ctx.assume(w.A(0) == 0)
        q = z3.Int(ctx.fresh_name("q_fin"))
        ctx.assume(z3.ForAll([q], z3.Implies(z3.And(q >= 0, q < w.n), w.T(q) < smt.PLUS_INF), patterns=[w.T(q)]))
        ctx.assume(smt.PLUS_INF > 0)

    @staticmethod
    def unfold(ctx, w, k):
        ctx.assume(z3.Implies(k >= 0, w.A(k + 1) == w.A(k) + w.R(k) * (w.T(k + 1) - w.T(k))))

    @staticmethod
    def clauses(w, off, AV, nr, q):
        """the shape, with a free index q"""
        n = w.n
        res = [("one-knot-per-threshold-plus-infinity" + ("-and-zero" if off else ""), z3.And(AV.n == n + off + 1, nr == AV.n)),
               ("knots-are-the-thresholds", z3.Implies(z3.And(q >= 0, q < n), AV.T(q + off) == w.T(q))),
               ("the-last-knot-is-infinity", AV.T(n + off) == smt.PLUS_INF),
               ("average-rate-times-threshold-is-the-tax-at-the-threshold", z3.Implies(z3.And(q >= 1, q < n), AV.R(q + off) * w.T(q) == w.A(q))),
               ("the-average-rate-is-zero-up-to-the-first-threshold", z3.And(AV.R(0) == 0, AV.R(off) == 0)),
               ("the-rate-at-infinity-is-the-last-marginal-rate", AV.R(n + off) == w.R(n - 1))]
        if off:
            res.append(("the-scale-starts-at-zero", AV.T(0) == 0))
        return res


class ToAverage(Contract):
    name = f"{MR}.to_average"
    loop_heads = {0: 'for (threshold, rate) in itertools.islice(zip(self.thresholds, self.rates), 1, None)'}
    prop = ("C09",)
    top_level = True
    cases = ("first-threshold-zero", "first-threshold-positive")
    descr = ("to_average of a scale with finite thresholds 0 <= t_0 < t_1 < ...: a new linear-average scale whose knots are 0, the "
             "thresholds and +inf, whose rate at each threshold times the threshold is the tax at that threshold (ghost partial sums), zero "
             "up to the first threshold, and the last marginal rate at infinity; the operand is unchanged")

    def setup(self, I, ctx, case):
        w = ScaleWorld(I, ctx, MR, min_brackets=1)
        ctx.ghost["sw"] = w
        ctx.ghost["off"] = 0 if case == "first-threshold-zero" else 1
        ctx.assume(w.T(0) == 0 if case == "first-threshold-zero" else w.T(0) > 0)
        AverageShape.ghost(ctx, w)
        return {"self": w.scale, "__w": w}

    @staticmethod
    def local_contracts():
        return {AddBracketSite.name: AddBracketSite()}

    def _inv(self, ctx, I, vars):
        w, off = ctx.ghost["sw"], ctx.ghost["off"]
        m = B._z(vars["__k0"])
        av = vars["average_tax_scale"]
        cur, nr = state_of(I, ctx, av)
        q = z3.Int(ctx.fresh_name("q_inv"))
        res = [("one-knot-per-threshold-done", z3.And(cur.n == m + off + 1, nr == cur.n)),
               ("knots-are-the-thresholds-done", z3.ForAll([q], z3.Implies(z3.And(q >= 0, q <= m), cur.T(q + off) == w.T(q)))),
               ("average-rate-times-threshold-is-the-tax-there", z3.ForAll([q], z3.Implies(z3.And(q >= 1, q <= m), cur.R(q + off) * w.T(q) == w.A(q)))),
               ("zero-up-to-the-first-threshold", z3.And(cur.R(0) == 0, cur.R(off) == 0, cur.T(0) == 0)),
               ("knots-strictly-increasing", well_formed(ctx, cur))]
        if all(v in vars for v in ("i", "previous_threshold", "previous_rate", "rate")):
            res.append(("running-tax-threshold-and-rates", z3.And(B.zreal(vars["i"]) == w.A(m), B.zreal(vars["previous_threshold"]) == w.T(m),
                                                                  B.zreal(vars["previous_rate"]) == w.R(m), B.zreal(vars["rate"]) == w.R(m))))
        res.append(("a-new-scale-is-being-filled", av is not w.scale and av.fields["thresholds"] is not w.thresholds and av.fields["rates"] is not w.values))
        return res

    def _havoc(self, ctx, I, vars):
        w, off = ctx.ghost["sw"], ctx.ghost["off"]
        m = B._z(vars["__k0"])
        AverageShape.unfold(ctx, w, m)
        replace_lists(ctx, vars["average_tax_scale"], m + off + 1, "av_h")
        for v in ("i", "previous_threshold", "previous_rate", "threshold", "rate"):
            vars[v] = Sym(ctx.fresh_real("hv_" + v))

    @property
    def loops(self):
        ls = LoopSpec(self._inv, self._havoc)
        ls.heap_frame = ("average_tax_scale.thresholds", "average_tax_scale.rates")
        return {0: ls}

    def post(self, I, ctx, a, out, old):
        w, off = a["__w"], ctx.ghost["off"]
        if out[0] != "return" or not isinstance(out[1], Obj):
            return [("returns-a-scale", False)]
        r = out[1]
        AV, nr = state_of(I, ctx, r)
        q = ctx.fresh_int("q")
        return [("a-new-linear-average-scale-with-its-own-lists", is_new_scale(I, r, w, cls=LA))] + AverageShape.clauses(w, off, AV, nr, q) + \
            [("knots-strictly-increasing", well_formed(ctx, AV))] + unchanged(I, ctx, w)

    def probes(self, case):
        S = ([([0.0], [0.3]), ([0.0, 10.0, 20.0], [0.1, 0.2, 0.4]), ([0.0, 5.0], [0.0, 0.5]), ([0.0, 1.0, 2.0, 3.0], [0.5, 0.25, 0.0, 0.75])]
             if case == "first-threshold-zero" else
             [([10.0], [0.1]), ([100.0, 200.0], [0.1, 0.2]), ([5.0, 15.0, 25.0], [0.0, 0.5, 0.25]), ([2.0, 4.0, 6.0], [0.5, 0.0, 0.0])])
        return [{"callee": self.name, "script": NATIVE, "op": "average_round_trip", "thresholds": t, "rates": r} for t, r in S]

    def judge_native(self, I, case, call, nat):
        return judge(nat)


class ToMarginal(Contract):
    name = f"{LA}.to_marginal"
    loop_heads = {0: 'for (threshold, rate) in zip(self.thresholds[1:], self.rates[1:])'}
    prop = ("C09",)
    top_level = True
    cases = ("first-threshold-zero", "first-threshold-positive")
    descr = ("to_marginal of the average-rate scale that to_average produces for a marginal-rate scale S (the shape to_average "
             "ensures is what this contract requires): a new marginal-rate scale with the thresholds and rates of S, preceded by a "
             "bracket (0, rate 0) when S starts above 0 - so every summand of calc, hence the tax on every base, is that of S; the "
             "operand is unchanged")

    def setup(self, I, ctx, case):
        w = ScaleWorld(I, ctx, MR, min_brackets=1)          # ghost: the marginal scale S the operand was made from
        off = 0 if case == "first-threshold-zero" else 1
        ctx.ghost["sw"], ctx.ghost["off"] = w, off
        ctx.assume(w.T(0) == 0 if off == 0 else w.T(0) > 0)
        AverageShape.ghost(ctx, w)
        TA, RA = fresh_fn(ctx, "T_av"), fresh_fn(ctx, "R_av")
        na = w.n + off + 1
        AV = State(TA, RA, na)
        q = z3.Int(ctx.fresh_name("q_shape"))
        for name, f in AverageShape.clauses(w, off, AV, na, q):
            ctx.assume(z3.ForAll([q], f) if _mentions(f, q) else f)
        ctx.ghost["AV"] = AV
        th = SymList(SeqVal(na, lambda k: Sym(TA(B._z(k))), "av_thresholds"))
        rt = SymList(SeqVal(na, lambda k: Sym(RA(B._z(k))), "av_rates"))
        av = Obj(I.resolve_qualified(LA), {"name": "average", "option": None, "unit": None, "thresholds": th, "rates": rt}, label="average-scale")
        ctx.ghost["av_lists"] = (th, rt)
        return {"self": av, "__w": w, "__av": av}

    @staticmethod
    def local_contracts():
        return {AddBracketSite.name: AddBracketSite()}

    @staticmethod
    def _marginal(w, off, cur, q):
        """bracket q of the scale being built is bracket q - off of S (the extra first bracket has rate 0)"""
        if off:
            return z3.And(cur.T(q) == z3.If(q == 0, 0, w.T(q - 1)), cur.R(q) == z3.If(q == 0, 0, w.R(q - 1)))
        return z3.And(cur.T(q) == w.T(q), cur.R(q) == w.R(q))

    def _inv(self, ctx, I, vars):
        w, off, AV = ctx.ghost["sw"], ctx.ghost["off"], ctx.ghost["AV"]
        m = B._z(vars["__k0"])
        mt = vars["marginal_tax_scale"]
        cur, nr = state_of(I, ctx, mt)
        q = z3.Int(ctx.fresh_name("q_inv"))
        nfin = w.n + off - 1                     # iterations over finite knots (the last one is +inf and adds nothing)
        f = z3.If(m <= nfin, m, nfin)
        taxat = lambda j: w.A(j - off) if off == 0 else z3.If(j == 0, 0, w.A(j - 1))
        res = [("one-bracket-per-finite-knot-done", z3.And(cur.n == f, nr == f)),
               ("brackets-done-are-those-of-the-original", z3.ForAll([q], z3.Implies(z3.And(q >= 0, q < f), self._marginal(w, off, cur, q)))),
               ("thresholds-strictly-increasing", well_formed(ctx, cur))]
        if all(v in vars for v in ("previous_i", "previous_threshold")):
            res.append(("running-tax-and-threshold", z3.And(B.zreal(vars["previous_i"]) == taxat(f), B.zreal(vars["previous_threshold"]) == AV.T(f))))
        if "rate" in vars:
            res.append(("rate-of-the-last-knot-seen", z3.Implies(m >= 1, B.zreal(vars["rate"]) == AV.R(m))))
        res.append(("a-new-scale-is-being-filled", mt is not vars["self"] and mt.fields["thresholds"] is not ctx.ghost["av_lists"][0]
                    and mt.fields["rates"] is not ctx.ghost["av_lists"][1]))
        return res

    def _havoc(self, ctx, I, vars):
        w, off = ctx.ghost["sw"], ctx.ghost["off"]
        m = B._z(vars["__k0"])
        AverageShape.unfold(ctx, w, m - off)
        AverageShape.unfold(ctx, w, m - off - 1)
        nfin = w.n + off - 1
        replace_lists(ctx, vars["marginal_tax_scale"], smt.simp(z3.If(m <= nfin, m, nfin)), "mt_h")
        for v in ("previous_i", "previous_threshold", "threshold", "rate", "i"):
            vars[v] = Sym(ctx.fresh_real("hv_" + v))

    @property
    def loops(self):
        ls = LoopSpec(self._inv, self._havoc)
        ls.heap_frame = ("marginal_tax_scale.thresholds", "marginal_tax_scale.rates")
        return {0: ls}

    def post(self, I, ctx, a, out, old):
        w, off, AV = a["__w"], ctx.ghost["off"], ctx.ghost["AV"]
        if out[0] != "return" or not isinstance(out[1], Obj):
            return [("returns-a-scale", False)]
        r = out[1]
        M, nr = state_of(I, ctx, r)
        q = ctx.fresh_int("q")
        b = ctx.fresh_real("base")
        th, rt = ctx.ghost["av_lists"]
        partM = lambda k: part_of(M.T, M.n, b, k)
        partS = lambda k: part_of(w.T, w.n, b, k)
        res = [("a-new-marginal-rate-scale-with-its-own-lists",
                isinstance(r, Obj) and r is not a["__av"] and r.cls is I.resolve_qualified(MR) and r.fields.get("thresholds") is not th and r.fields.get("rates") is not rt),
               ("one-bracket-per-original-bracket" + ("-plus-the-zero-bracket" if off else ""), z3.And(M.n == w.n + off, nr == M.n)),
               ("thresholds-and-rates-are-the-original's", z3.Implies(z3.And(q >= 0, q < w.n), z3.And(M.T(q + off) == w.T(q), M.R(q + off) == w.R(q)))),
               ("every-summand-of-calc-is-the-original's",
                z3.Implies(z3.And(q >= 0, q < w.n), M.R(q + off) * partM(q + off) == w.R(q) * partS(q)))]
        if off:
            res.append(("the-extra-first-bracket-starts-at-zero-and-taxes-nothing", z3.And(M.T(0) == 0, M.R(0) == 0, M.R(0) * partM(z3.IntVal(0)) == 0)))
        q2 = ctx.fresh_int("fq")
        res += [("operand-keeps-its-thresholds", z3.And(a["__av"].fields["thresholds"] is th, same_list(I, ctx, th, AV.n, AV.T, q2))),
                ("operand-keeps-its-rates", z3.And(a["__av"].fields["rates"] is rt, same_list(I, ctx, rt, AV.n, AV.R, q2)))]
        return res

    def probes(self, case):
        return ToAverage.probes(self, case)

    def judge_native(self, I, case, call, nat):
        return judge(nat)



class AddTaxScaleSite(Contract):
    """call-site form of AddTaxScale (what it proves): requires both scales well formed and the added one with non-negative thresholds;
    ensures the receiver well formed with marginal rate = previous marginal rate + the added scale's, the added scale unchanged"""
    name = f"{MR}.add_tax_scale"
    prop = ()

    def outcomes(self, I, ctx, a, old):
        s, o = a["self"], a["tax_scale"]
        before, nr = state_of(I, ctx, s)
        other, nro = state_of(I, ctx, o)
        ctx.oblige("add_tax_scale.requires.receiver-well-formed", well_formed(ctx, before, nr), kind="requires")
        ctx.oblige("add_tax_scale.requires.added-scale-well-formed", well_formed(ctx, other, nro), kind="requires")
        ctx.oblige("add_tax_scale.requires.added-scale-has-non-negative-thresholds", z3.Implies(other.n > 0, other.T(0) >= 0), kind="requires")
        rhos = ctx.ghost.setdefault("rho", {})
        rho = rhos.get(id(s)) or Rho(ctx, before, "recv")
        rho_o = rhos.get(id(o)) or Rho(ctx, other, "added")
        rhos[id(o)] = rho_o
        n_after = ctx.fresh_int("n_after")
        after = replace_lists(ctx, s, n_after, "added_to")
        ctx.assume(well_formed(ctx, after))
        rho2 = Rho(ctx, after, "sum")
        x = z3.Real(ctx.fresh_name("x_ats"))
        ctx.assume(z3.ForAll([x], rho2.f(x) == rho.f(x) + rho_o.f(x), patterns=[rho2.f(x)]))
        rhos[id(s)] = rho2
        ctx.ghost.setdefault("added_scales", []).append(o)
        return ("return", None)

    def post(self, I, ctx, a, out, old):
        return []


class CombineTaxScales(Contract):
    name = "openfisca_core.taxscales.helpers.combine_tax_scales"
    prop = ("C09",)
    top_level = True
    cases = ("three-members-new-scale", "three-members-into-a-given-scale", "empty-group", "no-group")
    descr = ("combining the marginal-rate scales of a parameter group (three members, each a marginal-rate scale or something else): the "
             "result's marginal rate at every point is the sum of the marginal rates of the members that are marginal-rate scales (plus "
             "the given scale's), other members are skipped, every member scale is added once and left unchanged; an empty group gives "
             "back what was given")
    inline = ("openfisca_core.taxscales.tax_scale_like.TaxScaleLike.__init__",
              "openfisca_core.taxscales.rate_tax_scale_like.RateTaxScaleLike.__init__")

    def setup(self, I, ctx, case):
        R = I.resolve_qualified
        NAI = R("openfisca_core.parameters.parameter_node_at_instant.ParameterNodeAtInstant")
        if case == "no-group":
            return {"node": None, "combined_tax_scales": None, "__case": case, "__members": [], "__given": None}
        members, kids = [], []
        if case.startswith("three"):
            for k in range(3):
                w = ScaleWorld(I, ctx, MR, min_brackets=0)
                ctx.assume(z3.Implies(w.n > 0, w.T(0) >= 0))
                is_scale = ctx.fresh_bool(f"member{k}_is_a_marginal_rate_scale")
                other = Opaque(None, f"member{k}-not-a-scale", {"isinstance": lambda ctx2, c: False})
                members.append((w, is_scale, other))
        given = None
        if case == "three-members-into-a-given-scale":
            gw = ScaleWorld(I, ctx, MR, min_brackets=0)
            given = gw
        a = {"__case": case, "__members": members, "__given": given}
        ctx.ghost["rho"] = {}
        for w, _, _ in members:
            ctx.ghost["rho"][id(w.scale)] = Rho(ctx, State(w.T, w.R, w.n), "member")
        if given is not None:
            ctx.ghost["rho"][id(given.scale)] = Rho(ctx, State(given.T, given.R, given.n), "given")
            ctx.ghost["rho_given0"] = ctx.ghost["rho"][id(given.scale)]
        # which members are scales is decided here (one path per combination)
        chosen = []
        for k, (w, is_scale, other) in enumerate(members):
            chosen.append(w.scale if ctx.branch(is_scale) else other)
        a["__chosen"] = chosen
        node = Obj(NAI, {"_name": "taxes", "_instant_str": "2020-01-01",
                         "_children": dict_of6([(f"m{k}", v) for k, v in enumerate(chosen)])}, label="group-at-instant")
        a["node"] = node
        a["combined_tax_scales"] = given.scale if given is not None else None
        return a

    @staticmethod
    def local_contracts():
        return {AddTaxScaleSite.name: AddTaxScaleSite(), AddBracketSite.name: AddBracketSite()}

    def post(self, I, ctx, a, out, old):
        case = a["__case"]
        if out[0] != "return":
            return [("no-exception", False)]
        r = out[1]
        if case == "no-group":
            return [("nothing-to-combine-gives-back-what-was-given", r is None)]
        if case == "empty-group":
            return [("an-empty-group-gives-back-what-was-given", r is a["combined_tax_scales"])]
        if not isinstance(r, Obj) or r.cls is not I.resolve_qualified(MR):
            return [("returns-a-marginal-rate-scale", False)]
        added = ctx.ghost.get("added_scales", [])
        scales = [c for c in a["__chosen"] if isinstance(c, Obj)]
        res = [("every-member-scale-is-added-once-in-order-and-nothing-else", len(added) == len(scales) and all(x is y for x, y in zip(added, scales)))]
        if a["__given"] is not None:
            res.append(("the-given-scale-is-the-one-filled", r is a["__given"].scale))
        else:
            res.append(("a-new-scale", all(r is not c for c in scales)))
        rho = ctx.ghost["rho"].get(id(r))
        x = ctx.fresh_real("x")
        if rho is None:
            # no member scale was added: the result is the scale as given / the fresh (0, 0) scale
            fin, nr = state_of(I, ctx, r)
            rho = Rho(ctx, fin, "result")
        total = z3.RealVal(0)
        for c in scales:
            total = total + ctx.ghost["rho"][id(c)].f(x)
        if a["__given"] is not None:
            total = total + ctx.ghost["rho_given0"].f(x)
        res.append(("marginal-rate-everywhere-is-the-sum-of-the-member-scales'-marginal-rates", rho.f(x) == total))
        for k, (w, _, _) in enumerate(a["__members"]):
            res += [(f"member-{k}-" + nm, f) for nm, f in unchanged(I, ctx, w, scale=w.scale)]
        return res

    def probes(self, case):
        return [{"callee": self.name, "script": NATIVE, "op": "combine_tax_scales", "thresholds": [0.0, 10.0], "rates": [0.1, 0.2]}]

    def judge_native(self, I, case, call, nat):
        return judge(nat)


def next_k(k, p, t, x):
    """the bracket containing x after a threshold t was inserted at position p, when it was bracket k before"""
    return z3.If(k >= p, k + 1, z3.If(z3.And(k == p - 1, x >= t), p, k))


class CombineBracket(Contract):
    name = f"{MR}.combine_bracket"
    loop_heads = {0: 'while i <= j'}
    prop = ("C09",)
    top_level = True
    cases = ("open", "bounded")
    descr = ("combine_bracket(rate, low, high) keeps the scale well formed and adds `rate` to the marginal rate of every point of "
             "[low, high) (of [low, +inf) without high) and of no other point: for every x, the rate of the bracket containing x "
             "afterwards is the rate of the bracket that contained it before (0 below the first threshold) plus rate if low <= x < high")

    def setup(self, I, ctx, case):
        w = ScaleWorld(I, ctx, MR, min_brackets=0)
        ctx.ghost["sw"] = w
        rate, lo = ctx.fresh_real("rate"), ctx.fresh_real("low")
        ctx.ghost["rate"] = rate
        a = {"self": w.scale, "rate": Sym(rate), "threshold_low": Sym(lo), "__w": w, "__rate": rate, "__lo": lo, "__hi": None}
        if case == "bounded":
            hi = ctx.fresh_real("high")
            ctx.assume(z3.And(hi > lo, hi != 0))
            a["threshold_high"] = Sym(hi)
            a["__hi"] = hi
        return a

    @staticmethod
    def local_contracts():
        return {AddBracketSite.name: AddBracketSite()}

    def _inv(self, ctx, I, vars):
        rate = ctx.ghost["rate"]
        s = vars["self"]
        cur, nr = state_of(I, ctx, s)
        i, j = B._z(vars["i"]), B._z(vars["j"])
        if "cb_entry" not in ctx.ghost:
            ctx.ghost["cb_entry"] = (cur, i, j, s.fields["thresholds"], s.fields["rates"], len(ctx.ghost.get("add_bracket_calls", [])))
        E, i0, _, thl, rtl, _ = ctx.ghost["cb_entry"]
        q, q2 = z3.Int(ctx.fresh_name("q_inv")), z3.Int(ctx.fresh_name("q2_inv"))
        return [("same-list-objects", s.fields["thresholds"] is thl and s.fields["rates"] is rtl),
                ("lists-keep-their-length", z3.And(cur.n == E.n, nr == E.n)),
                ("thresholds-are-not-changed-by-the-loop", z3.ForAll([q], z3.Implies(z3.And(q >= 0, q < E.n), cur.T(q) == E.T(q)))),
                ("thresholds-strictly-increasing", z3.ForAll([q, q2], z3.Implies(z3.And(0 <= q, q < q2, q2 < E.n), E.T(q) < E.T(q2)))),
                ("cursor-in-range", z3.And(i0 >= 0, i0 <= i, i <= j + 1, j < E.n)),
                ("rate-added-exactly-to-the-brackets-done",
                 z3.ForAll([q], z3.Implies(z3.And(q >= 0, q < E.n), cur.R(q) == E.R(q) + z3.If(z3.And(i0 <= q, q < i), rate, 0))))]

    def _havoc(self, ctx, I, vars):
        E, i0, j, thl, rtl, _ = ctx.ghost["cb_entry"]
        thl.seq = fresh_seq(ctx, "thresholds_h", E.n)[0]
        rtl.seq = fresh_seq(ctx, "rates_h", E.n)[0]
        vars["i"] = Sym(ctx.fresh_int("hv_i"))

    @property
    def loops(self):
        ls = LoopSpec(self._inv, self._havoc)
        ls.heap_frame = ("self.thresholds", "self.rates")
        return {0: ls}

    def post(self, I, ctx, a, out, old):
        w, rate, lo, hi = a["__w"], a["__rate"], a["__lo"], a["__hi"]
        if out[0] != "return" or "cb_entry" not in ctx.ghost:
            return [("no-exception", False)]
        fin, nr = state_of(I, ctx, w.scale)
        E, i0, j, _, _, ncalls = ctx.ghost["cb_entry"]
        calls = ctx.ghost.get("add_bracket_calls", [])[:ncalls]          # the insertions made before the loop
        x = ctx.fresh_real("x")
        k0, k2 = ctx.fresh_int("k_before"), ctx.fresh_int("k_after")
        q, q2 = ctx.fresh_int("q"), ctx.fresh_int("q2")
        inside = z3.And(lo <= x, x < hi) if hi is not None else lo <= x
        add = z3.If(inside, rate, 0)
        S0 = State(w.T, w.R, w.n)
        res = [("as-many-rates-as-thresholds", nr == fin.n),
               ("thresholds-stay-strictly-increasing", z3.Implies(z3.And(0 <= q, q < q2, q2 < fin.n), fin.T(q) < fin.T(q2))),
               ("only-new-thresholds-are-inserted-before-the-rates-are-raised", all(not c["present"] for c in calls))]
        # proof steps (each is proved, then available to the next ones): follow the point x through the insertions
        hypA = in_bracket(S0.T, S0.n, x, k0)
        hypB = below_first(S0.T, S0.n, x)
        kA, inbB, kB = k0, z3.BoolVal(False), z3.IntVal(0)
        prev = S0
        for m, c in enumerate(calls):
            kA2 = next_k(kA, c["p"], c["t"], x)
            res.append((f"step{m + 1}.a-point-in-a-bracket-stays-in-a-bracket-of-the-same-rate",
                        z3.Implies(hypA, z3.And(in_bracket(c["after"].T, c["after"].n, x, kA2), c["after"].R(kA2) == prev.R(kA)))))
            inbB2 = z3.Or(inbB, x >= c["t"])
            kB2 = z3.If(inbB, next_k(kB, c["p"], c["t"], x), z3.IntVal(0))
            res.append((f"step{m + 1}.a-point-below-the-first-threshold-stays-below-or-enters-a-bracket-of-rate-zero",
                        z3.Implies(hypB, z3.If(inbB2, z3.And(in_bracket(c["after"].T, c["after"].n, x, kB2), c["after"].R(kB2) == 0),
                                               below_first(c["after"].T, c["after"].n, x)))))
            kA, inbB, kB, prev = kA2, inbB2, kB2, c["after"]
        # the loop raised exactly the brackets from low's position to the one before high's (the last one without high)
        res.append(("low-is-where-the-loop-started", z3.And(i0 >= 0, i0 < fin.n, fin.T(i0) == lo)))
        res.append(("high-is-where-the-loop-stopped", z3.And(j + 1 < fin.n, fin.T(j + 1) == hi, i0 <= j) if hi is not None else j == fin.n - 1))
        res.append(("final-rates-are-the-rates-at-loop-entry-plus-the-rate-on-those-brackets",
                    z3.Implies(z3.And(q >= 0, q < fin.n), z3.And(fin.T(q) == E.T(q), fin.R(q) == E.R(q) + z3.If(z3.And(i0 <= q, q <= j), rate, 0)))))
        res.append(("a-point-is-in-a-raised-bracket-iff-it-is-in-the-range",
                    z3.Implies(in_bracket(fin.T, fin.n, x, k2), z3.And(i0 <= k2, k2 <= j) == inside)))
        res.append(("a-point-is-in-one-bracket-only", z3.Implies(z3.And(in_bracket(fin.T, fin.n, x, k2), in_bracket(fin.T, fin.n, x, q)), k2 == q)))
        # the statement
        res += [("a-point-in-a-bracket-before-or-in-the-range-is-in-a-bracket-after",
                 z3.Implies(z3.Or(z3.Not(hypB), inside), z3.And(fin.n > 0, fin.T(0) <= x))),
                ("rate-of-a-point-that-was-in-a-bracket",
                 z3.Implies(z3.And(hypA, in_bracket(fin.T, fin.n, x, k2)), z3.And(k2 == kA, fin.R(k2) == w.R(k0) + add))),
                ("rate-of-a-point-that-was-below-the-first-threshold",
                 z3.Implies(z3.And(hypB, in_bracket(fin.T, fin.n, x, k2)), z3.And(inbB, k2 == kB, fin.R(k2) == add)))]
        # the same as one equation between the marginal-rate functions of the scale before and after (the call-site form)
        vB, vA = ctx.fresh_real("rho_before"), ctx.fresh_real("rho_after")
        res.append(("marginal-rate-function-after-is-the-one-before-plus-the-rate-on-the-range",
                    z3.Implies(z3.And(rho_at(S0, x, vB, k0), rho_at(fin, x, vA, k2)), vA == vB + add)))
        return res

    def probes(self, case):
        out = []
        for t, r in (([], []), ([10.0], [0.1]), ([0.0, 10.0, 20.0], [0.1, 0.2, 0.4])):
            for lo in (0.0, 5.0, 10.0, 25.0):
                for hi in ((None,) if case == "open" else (lo + 5.0, lo + 10.0, lo + 100.0)):
                    out.append({"callee": self.name, "script": NATIVE, "op": "combine_bracket", "thresholds": t, "rates": r, "low": lo, "high": hi, "rate": 0.25})
        return out

    def judge_native(self, I, case, call, nat):
        return judge(nat)


NATIVE = "import sys; sys.path.insert(0, '/verif/native')\nimport c09_replay\noutcome = c09_replay.run(call)\n"


def judge(nat):
    if nat.get("kind") == "harness-error":
        return "undecided", str(nat)[:300]
    if nat["kind"] == "raise":
        return "violates", "raised " + nat.get("exc", "") + ": " + nat.get("msg", "")
    return ("satisfies", "law holds on the grid of bases") if nat["value"].get("ok") else ("violates", str(nat["value"])[:400])


def part_of(T, n, b, k):
    upper = z3.If(k + 1 < n, z3.If(b <= T(k + 1), b, T(k + 1)), b)
    d = upper - T(k)
    return z3.If(d >= 0, d, 0)


def scaled_summand_clause(I, ctx, w, r, f, q, b):
    """calc(result) on factor x base: every summand (rate' x part' of factor x base) is factor x the operand's summand on base;
    and the result's thresholds are still strictly increasing"""
    st, sr = seq_of(I, ctx, r.fields["thresholds"]), seq_of(I, ctx, r.fields["rates"])
    T2 = lambda x: el(st, x)
    q2 = ctx.fresh_int("q2")
    return [("every-summand-of-calc-on-the-scaled-base-is-the-scaled-summand",
             z3.Implies(z3.And(q >= 0, q < w.n, B._z(st.length) == w.n),
                        el(sr, q) * part_of(T2, w.n, f * b, q) == f * (w.R(q) * part(w, b, q)))),
            ("thresholds-stay-strictly-increasing", z3.Implies(z3.And(0 <= q, q < q2, q2 < B._z(st.length)), T2(q) < T2(q2)))]


def _grid(tier):
    import itertools
    ts = [0.0, 1.0, 2.5, 4.0, 10.0, 100.0]
    rs = [0.0, 0.1, 0.25, 0.5]
    out = []
    for n in (1, 2, 3) if tier == "quick" else (1, 2, 3, 4):
        for t in itertools.combinations(ts, n):
            for r in list(itertools.product(rs, repeat=n))[:: (7 if tier == "quick" else 2)]:
                out.append((list(t), list(r)))
    return out


NATIVE_STANDINS = [
    {"name": "to_average().to_marginal() taxes every base like the original scale",
     "where": "MarginalRateTaxScale.to_average / LinearAverageRateTaxScale.to_marginal",
     "bound": "scales of 1 to 3 (thorough: 4) brackets over thresholds {0, 1, 2.5, 4, 10, 100} (first threshold zero or not) and rates "
              "{0, .1, .25, .5}; bases: every threshold, +-0.5 around it, 0, 1, 1e6",
     "calls": lambda tier: [{"callee": "to_average/to_marginal", "script": NATIVE, "op": "batch",
                             "calls": [{"op": "average_round_trip", "thresholds": t, "rates": r} for t, r in _grid(tier)]}],
     "judge": judge},
]


def lemmas(prop, timeout_ms):
    if prop != "C09":
        return []
    recs = []
    F = z3.Function("F_l", z3.IntSort(), z3.RealSort())
    G = z3.Function("G_l", z3.IntSort(), z3.RealSort())
    SF = z3.Function("SF_l", z3.IntSort(), z3.RealSort())
    SG = z3.Function("SG_l", z3.IntSort(), z3.RealSort())
    m = z3.Int("m")
    c = z3.Real("c")
    q = z3.Int("q")
    # linearity of finite sums: termwise G = c*F gives SG = c*SF; termwise H = F + G gives SH = SF + SG (inductions on the prefix)
    L = [("sum-of-scaled-terms.base", [SF(0) == 0, SG(0) == 0], SG(0) == c * SF(0)),
         ("sum-of-scaled-terms.step", [m >= 0, G(m) == c * F(m), SF(m + 1) == SF(m) + F(m), SG(m + 1) == SG(m) + G(m), SG(m) == c * SF(m)],
          SG(m + 1) == c * SF(m + 1))]
    H = z3.Function("H_l", z3.IntSort(), z3.RealSort())
    SH = z3.Function("SH_l", z3.IntSort(), z3.RealSort())
    L += [("sum-of-added-terms.base", [SF(0) == 0, SG(0) == 0, SH(0) == 0], SH(0) == SF(0) + SG(0)),
          ("sum-of-added-terms.step", [m >= 0, H(m) == F(m) + G(m), SF(m + 1) == SF(m) + F(m), SG(m + 1) == SG(m) + G(m),
                                        SH(m + 1) == SH(m) + H(m), SH(m) == SF(m) + SG(m)], SH(m + 1) == SF(m + 1) + SG(m + 1))]
    # telescoping: the gross bracket widths below bracket k add up to T(k) - T(0)   (inverse: inverse.calc(net) = gross)
    Tl = z3.Function("T_l", z3.IntSort(), z3.RealSort())
    W = z3.Function("W_l", z3.IntSort(), z3.RealSort())
    L += [("widths-telescope.base", [W(0) == 0], W(0) == Tl(0) - Tl(0)),
          ("widths-telescope.step", [m >= 0, W(m + 1) == W(m) + (Tl(m + 1) - Tl(m)), W(m) == Tl(m) - Tl(0)], W(m + 1) == Tl(m + 1) - Tl(0))]
    for name, hyps, goal in L:
        verdict, backend, model, dt = smt.prove(hyps, goal, timeout_ms=timeout_ms)
        recs.append({"name": "lemma." + name, "where": "contracts/c09_transforms.py", "kind": "lemma", "verdict": verdict,
                     "backend": backend, "time": round(dt, 4), "contract": "c09-lemmas", "case": "None"})
    return recs


CONTRACTS = [MultiplyRates(), MultiplyThresholds(), Copy(), ScaleTaxScales(), CombineBracket(), AddTaxScale(), Inverse(), ToAverage(), ToMarginal(), CombineTaxScales()]
