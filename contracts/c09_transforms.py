"""C09 -- tax-scale transformations preserve the amounts they are meant to preserve (DESIGN 4 C09, 3.4).
Every transformation gets a structural contract on the real function (thresholds / rates of the result as functions of the
operand's, frame: the operand is unchanged unless the operation is in place), and the property's law is carried to calc()
through C08's MarginalRateCalc contract (calc = sum over brackets of rate x part-of-the-base-in-the-bracket) by a lemma about
the summands (termwise) plus linearity of finite sums (induction)."""
from __future__ import annotations

import z3

from pyvc import builtins_ as B
from pyvc import nparr
from pyvc import smt
from pyvc.contract import Contract, LoopSpec
from pyvc.values import Builtin, ClassVal, DictVal, ExcVal, ListVal, Obj, Opaque, SeqVal, Sym, SymList, TupleVal, Unsupported

from .common import *  # noqa
from .c08_taxscales import ScaleWorld, MR, LA, RL, part

TL = "openfisca_core.taxscales.tax_scale_like.TaxScaleLike"


def fresh_seq(ctx, name, n):
    F = z3.Function(ctx.fresh_name(name), z3.IntSort(), z3.RealSort())
    return SeqVal(n, lambda q, F=F: Sym(F(B._z(q))), name), F


def seq_of(I, ctx, v):
    return I.as_seq(ctx, v)


def el(seq, q):
    return B.zreal(seq.elem(q))


def same_list(I, ctx, lst, n, F, q):
    """list `lst` has length n and elements F(0..n-1): one clause with a free index q"""
    s = seq_of(I, ctx, lst)
    if isinstance(s.length, int):
        return z3.And(B._z(s.length) == n, *[el(s, j) == F(z3.IntVal(j)) for j in range(s.length)])
    return z3.And(B._z(s.length) == n, z3.Implies(z3.And(q >= 0, q < n), el(s, q) == F(q)))


def forall_list(I, ctx, lst, n, fn, lo=0):
    """for all q in [lo, n): lst[q] == fn(q)  (quantified: for invariants that are assumed and proved)"""
    s = seq_of(I, ctx, lst)
    if isinstance(s.length, int):
        return z3.And(*[z3.Implies(z3.And(z3.IntVal(j) >= lo, z3.IntVal(j) < n), el(s, j) == fn(z3.IntVal(j))) for j in range(s.length)] + [z3.BoolVal(True)])
    q = z3.Int(ctx.fresh_name("q_inv"))
    body = z3.Implies(z3.And(q >= lo, q < n), el(s, q) == fn(q))
    return z3.ForAll([q], body)


def unchanged(I, ctx, w, scale=None, second="rates"):
    """frame clauses: the operand still has its thresholds and rates (same list objects, same content)"""
    scale = scale or w.scale
    q = ctx.fresh_int("fq")
    return [("operand-keeps-its-thresholds", z3.And(scale.fields["thresholds"] is w.thresholds, same_list(I, ctx, w.thresholds, w.n, w.T, q))),
            ("operand-keeps-its-rates", z3.And(scale.fields[second] is w.values, same_list(I, ctx, w.values, w.n, w.R, q)))]


def is_new_scale(I, r, w, cls=MR):
    return (isinstance(r, Obj) and r is not w.scale and r.cls is I.resolve_qualified(cls)
            and r.fields.get("thresholds") is not w.thresholds and r.fields.get("rates") is not w.values)


# ---------------------------------------------------------------------------------------------------------------
class MultiplyRates(Contract):
    name = f"{RL}.multiply_rates"
    prop = ("C09",)
    top_level = True
    cases = ("inplace", "new")
    descr = ("multiply_rates gives a scale with the same thresholds and every rate multiplied by the factor - every summand of "
             "calc, hence (linearity lemma) every tax, is multiplied by the factor; not in place: the operand is unchanged")

    def setup(self, I, ctx, case):
        w = ScaleWorld(I, ctx, MR, min_brackets=0)
        ctx.ghost["sw"] = w
        f = ctx.fresh_real("factor")
        ctx.ghost["f"] = f
        return {"self": w.scale, "factor": Sym(f), "inplace": case == "inplace", "__w": w, "__f": f}

    def _inv0(self, ctx, I, vars):
        w, f = ctx.ghost["sw"], ctx.ghost["f"]
        k = B._z(vars["__k0"])
        s = vars["self"]
        rates = s.fields["rates"]
        sr = seq_of(I, ctx, rates)
        return [("rates-keep-their-number", z3.And(rates is w.values, B._z(sr.length) == w.n)),
                ("earlier-rates-are-multiplied", forall_list(I, ctx, rates, k, lambda q: w.R(q) * f)),
                ("later-rates-are-untouched", forall_list(I, ctx, rates, w.n, lambda q: w.R(q), lo=k))]

    def _havoc0(self, ctx, I, vars):
        w = ctx.ghost["sw"]
        seq, _ = fresh_seq(ctx, "rates_h", w.n)
        vars["self"].fields["rates"].seq = seq
        vars["i"] = Sym(ctx.fresh_int("hv_i"))
        vars["rate"] = Sym(ctx.fresh_real("hv_rate"))

    def _inv1(self, ctx, I, vars):
        w, f = ctx.ghost["sw"], ctx.ghost["f"]
        k = B._z(vars["__k1"])
        new = vars["new_tax_scale"]
        st, sr = seq_of(I, ctx, new.fields["thresholds"]), seq_of(I, ctx, new.fields["rates"])
        return [("new-lists-have-one-entry-per-bracket-done", z3.And(B._z(st.length) == k, B._z(sr.length) == k)),
                ("new-thresholds-are-the-operand's", forall_list(I, ctx, new.fields["thresholds"], k, lambda q: w.T(q))),
                ("new-rates-are-multiplied", forall_list(I, ctx, new.fields["rates"], k, lambda q: w.R(q) * f)),
                ("new-lists-are-not-the-operand's", new.fields["thresholds"] is not w.thresholds and new.fields["rates"] is not w.values)]

    def _havoc1(self, ctx, I, vars):
        k = B._z(vars["__k1"])
        new = vars["new_tax_scale"]
        new.fields["thresholds"] = SymList(fresh_seq(ctx, "new_thresholds_h", k)[0])
        new.fields["rates"] = SymList(fresh_seq(ctx, "new_rates_h", k)[0])
        vars["threshold"] = Sym(ctx.fresh_real("hv_threshold"))
        vars["rate"] = Sym(ctx.fresh_real("hv_rate"))

    @property
    def loops(self):
        l0 = LoopSpec(self._inv0, self._havoc0)
        l0.heap_frame = ("self.rates",)
        l1 = LoopSpec(self._inv1, self._havoc1)
        l1.heap_frame = ("new_tax_scale.thresholds", "new_tax_scale.rates")
        return {0: l0, 1: l1}

    def post(self, I, ctx, a, out, old):
        w, f = a["__w"], a["__f"]
        if out[0] != "return" or not isinstance(out[1], Obj):
            return [("returns-a-scale", False)]
        r = out[1]
        q = ctx.fresh_int("q")
        b = ctx.fresh_real("b")
        res = [("thresholds-are-the-operand's", same_list(I, ctx, r.fields["thresholds"], w.n, w.T, q)),
               ("every-rate-is-multiplied-by-the-factor", same_list(I, ctx, r.fields["rates"], w.n, lambda x: w.R(x) * f, q))]
        # the law, termwise on calc's summands (C08 MarginalRateCalc): rate' x part == factor x (rate x part)
        rr = seq_of(I, ctx, r.fields["rates"])
        res.append(("every-summand-of-calc-is-multiplied-by-the-factor",
                    z3.Implies(z3.And(q >= 0, q < w.n), el(rr, q) * part(w, b, q) == f * (w.R(q) * part(w, b, q)))))
        if a["inplace"]:
            res.append(("in-place-returns-the-operand", r is w.scale))
            res.append(("thresholds-list-untouched", r.fields["thresholds"] is w.thresholds))
        else:
            res.append(("a-new-scale-with-its-own-lists", is_new_scale(I, r, w)))
            res += unchanged(I, ctx, w)
        return res


class MultiplyThresholds(Contract):
    name = f"{RL}.multiply_thresholds"
    prop = ("C09",)
    top_level = True
    cases = ("inplace", "new")
    descr = ("multiply_thresholds (positive factor, no rounding) gives a scale with the same rates and every threshold multiplied by "
             "the factor - every summand of calc on the scaled base is the scaled summand; not in place: the operand is unchanged")

    def setup(self, I, ctx, case):
        w = ScaleWorld(I, ctx, MR, min_brackets=0)
        ctx.ghost["sw"] = w
        f = ctx.fresh_real("factor")
        ctx.assume(f > 0)
        ctx.ghost["f"] = f
        return {"self": w.scale, "factor": Sym(f), "inplace": case == "inplace", "__w": w, "__f": f}

    def _inv0(self, ctx, I, vars):
        w, f = ctx.ghost["sw"], ctx.ghost["f"]
        k = B._z(vars["__k0"])
        th = vars["self"].fields["thresholds"]
        st = seq_of(I, ctx, th)
        return [("thresholds-keep-their-number", z3.And(th is w.thresholds, B._z(st.length) == w.n)),
                ("earlier-thresholds-are-multiplied", forall_list(I, ctx, th, k, lambda q: w.T(q) * f)),
                ("later-thresholds-are-untouched", forall_list(I, ctx, th, w.n, lambda q: w.T(q), lo=k))]

    def _havoc0(self, ctx, I, vars):
        w = ctx.ghost["sw"]
        vars["self"].fields["thresholds"].seq = fresh_seq(ctx, "thresholds_h", w.n)[0]
        vars["i"] = Sym(ctx.fresh_int("hv_i"))
        vars["threshold"] = Sym(ctx.fresh_real("hv_threshold"))

    def _inv1(self, ctx, I, vars):
        w, f = ctx.ghost["sw"], ctx.ghost["f"]
        k = B._z(vars["__k1"])
        new = vars["new_tax_scale"]
        st, sr = seq_of(I, ctx, new.fields["thresholds"]), seq_of(I, ctx, new.fields["rates"])
        return [("new-lists-have-one-entry-per-bracket-done", z3.And(B._z(st.length) == k, B._z(sr.length) == k)),
                ("new-thresholds-are-multiplied", forall_list(I, ctx, new.fields["thresholds"], k, lambda q: w.T(q) * f)),
                ("new-rates-are-the-operand's", forall_list(I, ctx, new.fields["rates"], k, lambda q: w.R(q))),
                ("new-lists-are-not-the-operand's", new.fields["thresholds"] is not w.thresholds and new.fields["rates"] is not w.values)]

    _havoc1 = MultiplyRates._havoc1

    @property
    def loops(self):
        l0 = LoopSpec(self._inv0, self._havoc0)
        l0.heap_frame = ("self.thresholds",)
        l1 = LoopSpec(self._inv1, self._havoc1)
        l1.heap_frame = ("new_tax_scale.thresholds", "new_tax_scale.rates")
        return {0: l0, 1: l1}

    def post(self, I, ctx, a, out, old):
        w, f = a["__w"], a["__f"]
        if out[0] != "return" or not isinstance(out[1], Obj):
            return [("returns-a-scale", False)]
        r = out[1]
        q = ctx.fresh_int("q")
        b = ctx.fresh_real("b")
        res = [("every-threshold-is-multiplied-by-the-factor", same_list(I, ctx, r.fields["thresholds"], w.n, lambda x: w.T(x) * f, q)),
               ("rates-are-the-operand's", same_list(I, ctx, r.fields["rates"], w.n, w.R, q))]
        res += scaled_summand_clause(I, ctx, w, r, f, q, b)
        if a["inplace"]:
            res.append(("in-place-returns-the-operand", r is w.scale))
            res.append(("rates-list-untouched", r.fields["rates"] is w.values))
        else:
            res.append(("a-new-scale-with-its-own-lists", is_new_scale(I, r, w)))
            res += unchanged(I, ctx, w)
        return res


def part_of(T, n, b, k):
    upper = z3.If(k + 1 < n, z3.If(b <= T(k + 1), b, T(k + 1)), b)
    d = upper - T(k)
    return z3.If(d >= 0, d, 0)


def scaled_summand_clause(I, ctx, w, r, f, q, b):
    """calc(result) on factor x base: every summand (rate' x part' of factor x base) is factor x the operand's summand on base;
    and the result's thresholds are still strictly increasing"""
    st, sr = seq_of(I, ctx, r.fields["thresholds"]), seq_of(I, ctx, r.fields["rates"])
    T2 = lambda x: el(st, x)
    q2 = ctx.fresh_int("q2")
    return [("every-summand-of-calc-on-the-scaled-base-is-the-scaled-summand",
             z3.Implies(z3.And(q >= 0, q < w.n, B._z(st.length) == w.n),
                        el(sr, q) * part_of(T2, w.n, f * b, q) == f * (w.R(q) * part(w, b, q)))),
            ("thresholds-stay-strictly-increasing", z3.Implies(z3.And(0 <= q, q < q2, q2 < B._z(st.length)), T2(q) < T2(q2)))]


def lemmas(prop, timeout_ms):
    if prop != "C09":
        return []
    recs = []
    F = z3.Function("F_l", z3.IntSort(), z3.RealSort())
    G = z3.Function("G_l", z3.IntSort(), z3.RealSort())
    SF = z3.Function("SF_l", z3.IntSort(), z3.RealSort())
    SG = z3.Function("SG_l", z3.IntSort(), z3.RealSort())
    m = z3.Int("m")
    c = z3.Real("c")
    q = z3.Int("q")
    # linearity of finite sums: termwise G = c*F gives SG = c*SF; termwise H = F + G gives SH = SF + SG (inductions on the prefix)
    L = [("sum-of-scaled-terms.base", [SF(0) == 0, SG(0) == 0], SG(0) == c * SF(0)),
         ("sum-of-scaled-terms.step", [m >= 0, G(m) == c * F(m), SF(m + 1) == SF(m) + F(m), SG(m + 1) == SG(m) + G(m), SG(m) == c * SF(m)],
          SG(m + 1) == c * SF(m + 1))]
    H = z3.Function("H_l", z3.IntSort(), z3.RealSort())
    SH = z3.Function("SH_l", z3.IntSort(), z3.RealSort())
    L += [("sum-of-added-terms.base", [SF(0) == 0, SG(0) == 0, SH(0) == 0], SH(0) == SF(0) + SG(0)),
          ("sum-of-added-terms.step", [m >= 0, H(m) == F(m) + G(m), SF(m + 1) == SF(m) + F(m), SG(m + 1) == SG(m) + G(m),
                                        SH(m + 1) == SH(m) + H(m), SH(m) == SF(m) + SG(m)], SH(m + 1) == SF(m + 1) + SG(m + 1))]
    for name, hyps, goal in L:
        verdict, backend, model, dt = smt.prove(hyps, goal, timeout_ms=timeout_ms)
        recs.append({"name": "lemma." + name, "where": "contracts/c09_transforms.py", "kind": "lemma", "verdict": verdict,
                     "backend": backend, "time": round(dt, 4), "contract": "c09-lemmas", "case": "None"})
    return recs


CONTRACTS = [MultiplyRates(), MultiplyThresholds()]
