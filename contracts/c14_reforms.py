"""C14 -- reforms and system copies leave the system they derive from untouched.
Frame postconditions (heap) on TaxBenefitSystem.clone, Reform.__init__/modify_parameters, the variable-table mutators,
the neutralise/annualise helpers, Variable.set / set_formulas (DESIGN 4 C14)."""
from __future__ import annotations

import z3

from pyvc import builtins_ as B
from pyvc.contract import Contract
from pyvc.values import (Builtin, ClassVal, DictVal, ExcVal, FuncVal, ListVal, Obj, Opaque, SetVal, Sym, SymList, TupleVal,
                         Unsupported)

from .common import *  # noqa
from . import engine as E
from .c13_clone import dict_of

TBS = E.TBS
REFORM = "openfisca_core.reforms.reform.Reform"
VAR = "openfisca_core.variables.variable.Variable"
VHELP = "openfisca_core.variables.helpers"
PNODE = "openfisca_core.parameters.parameter_node.ParameterNode"
PARAM = "openfisca_core.parameters.parameter.Parameter"
PAI = "openfisca_core.parameters.parameter_at_instant.ParameterAtInstant"

CONTAINERS = (Obj, DictVal, SetVal, ListVal)


def reach(roots, stop=()):
    """all heap objects reachable from roots (field-wise), not following into `stop`"""
    seen, out, work = set(), [], list(roots)
    stop_ids = {id(s) for s in stop}
    while work:
        o = work.pop()
        if not isinstance(o, CONTAINERS) or id(o) in seen or id(o) in stop_ids:
            continue
        seen.add(id(o))
        out.append(o)
        if isinstance(o, Obj):
            work.extend(o.fields.values())
        elif isinstance(o, (DictVal, SetVal)):
            work.extend(o.items.values())
        else:
            work.extend(o.items)
    return out


def snap(objs):
    s = {}
    for o in objs:
        if isinstance(o, Obj):
            s[id(o)] = (o, dict(o.fields), o.cls)
        elif isinstance(o, (DictVal, SetVal)):
            s[id(o)] = (o, dict(o.items), None)
        else:
            s[id(o)] = (o, list(o.items), None)
    return s


def changed(s):
    """labels of snapshot objects whose fields / entries differ (identity of references, equality of scalars)"""
    bad = []
    for o, old, cls in s.values():
        cur = o.fields if isinstance(o, Obj) else o.items
        if isinstance(o, ListVal):
            same = len(cur) == len(old) and all(_same(a, b) for a, b in zip(cur, old))
        else:
            same = set(cur) == set(old) and all(_same(cur[k], old[k]) for k in old)
        if isinstance(o, Obj) and o.cls is not cls:
            same = False
        if not same:
            bad.append(getattr(o, "label", None) or repr(o)[:40])
    return bad


def _same(a, b):
    if a is b:
        return True
    if isinstance(a, CONTAINERS) or isinstance(b, CONTAINERS):
        return False
    try:
        return B.eq_formula(None, None, a, b) is True
    except Exception:
        return False


def _probe(name, scenario):
    return {"callee": name, "script": "import sys; sys.path.insert(0, '/verif/native')\nimport c14_replay\n"
            "outcome = c14_replay.run(call['scenario'])\n", "scenario": scenario}


class _NativeJudge:
    scenarios = ()

    def probes(self, case):
        return [_probe(self.name, s) for s in self.scenarios]

    def call_descriptor(self, I, case, a, ev):
        return None

    def judge_native(self, I, case, call, nat):
        if nat.get("kind") != "return":
            return "violates", "scenario raised " + nat.get("exc", "?") + ": " + nat.get("msg", "")
        v = nat["value"]
        return ("satisfies", "scenario ok") if v["ok"] else ("violates", call["scenario"] + ": " + "; ".join(v["detail"]))


class World14:
    """a base system: two entities, three variables, a small parameter tree"""

    def __init__(self, I, ctx):
        R = I.resolve_qualified
        self.I = I
        ecls, gcls = R("openfisca_core.entities.entity.Entity"), R("openfisca_core.entities.group_entity.GroupEntity")
        # entities as declared by the country package (variables point to these) and the system's own copies
        self.decl_person = Obj(ecls, {"key": "person", "plural": "persons"}, label="declared:person")
        self.decl_household = Obj(gcls, {"key": "household", "plural": "households"}, label="declared:household")
        self.base = Obj(R(TBS), {}, label="base")
        self.person = Obj(ecls, {"key": "person", "plural": "persons", "_tax_benefit_system": self.base}, label="base.entity:person")
        self.household = Obj(gcls, {"key": "household", "plural": "households", "_tax_benefit_system": self.base}, label="base.entity:household")
        vcls = R(VAR)
        fdict = lambda pairs: self.sorted_dict(I, pairs)
        self.f_old = self.formula(I, "f2000")
        self.f_new = self.formula(I, "f2010")

        def var(name, entity, **kw):
            f = {"name": name, "entity": entity, "definition_period": dateunit(I, "month"), "is_neutralized": False,
                 "label": None, "baseline_variable": None, "formulas": fdict([]), "end": None, "value_type": I.builtins["float"],
                 "default_value": 0, "set_input": None, "calculate_output": None, "reference": None, "unit": None,
                 "documentation": None, "dtype": "float32", "json_type": "number", "cerfa_field": None,
                 "is_period_size_independent": False, "introspection_data": None}
            f.update(kw)
            return Obj(vcls, f, label="var:" + name)
        self.v_salary = var("salary", self.decl_person)
        self.v_tax = var("tax", self.decl_person, formulas=fdict([("2000-01-01", self.f_old), ("2010-01-01", self.f_new)]), label="Income tax")
        self.v_rent = var("rent", self.decl_household)
        self.variables = dict_of([("salary", self.v_salary), ("tax", self.v_tax), ("rent", self.v_rent)])
        self.parameters = self.param_tree(I, ctx)
        self.base.fields.update({
            "parameters": self.parameters, "variables": self.variables, "open_api_config": DictVal(),
            "entities": ListVal([self.person, self.household]), "person_entity": self.person,
            "group_entities": ListVal([self.household]), "baseline": None, "_base_tax_benefit_system": None,
            "decomposition_file_path": None, "cache_blacklist": None})
        self.roots = [self.base]

    @staticmethod
    def formula(I, tag):
        return Opaque(None, "formula:" + tag, {})

    @staticmethod
    def sorted_dict(I, pairs):
        cls = I.ext["sortedcontainers.sorteddict"]["SortedDict"]
        o = Obj(cls, {"__data__": dict_of(sorted(pairs))})
        return o

    def param_tree(self, I, ctx):
        R = I.resolve_qualified
        from . import c06_parameters as C6

        def pai(key, tag):
            return Obj(R(PAI), {"name": f"rate[{key}]", "instant_str": key, "file_path": None, "metadata": DictVal(),
                                "value": C6.mk_pval(I, ctx.fresh_const(tag, C6.PVAL))}, label=f"pai:{key}")
        self.rate = Obj(R(PARAM), {"name": "taxes.rate", "file_path": None, "metadata": DictVal(), "description": None,
                                   "documentation": None, "values_list": ListVal([pai("2015-01-01", "r2"), pai("2010-01-01", "r1")])},
                        label="param:rate")
        self.rate.fields["values_history"] = self.rate
        taxes = Obj(R(PNODE), {"name": "taxes", "children": dict_of([("rate", self.rate)]), "rate": self.rate, "metadata": DictVal(),
                               "description": None, "documentation": None, "file_path": None}, label="node:taxes")
        root = Obj(R(PNODE), {"name": "", "children": dict_of([("taxes", taxes)]), "taxes": taxes, "metadata": DictVal(),
                              "description": None, "documentation": None, "file_path": None}, label="node:root")
        return root


def entity_binding_checks(w, derived):
    res = []
    for e in (w.person, w.household):
        res.append((f"base-{e.fields['key']}-entity-still-bound-to-the-base", e.fields.get("_tax_benefit_system") is w.base))
    ents = derived.fields.get("entities")
    ok = isinstance(ents, ListVal) and len(ents.items) == 2
    res.append(("derived-has-its-entities", ok))
    if ok:
        for e in ents.items:
            k = e.fields.get("key") if isinstance(e, Obj) else "?"
            res.append((f"derived-{k}-entity-is-not-the-base-object", isinstance(e, Obj) and e is not w.person and e is not w.household))
            res.append((f"derived-{k}-entity-bound-to-the-derived-system", isinstance(e, Obj) and e.fields.get("_tax_benefit_system") is derived))
        pe = derived.fields.get("person_entity")
        res.append(("derived-person-entity-is-one-of-its-entities", any(pe is e for e in ents.items)))
        ge = derived.fields.get("group_entities")
        res.append(("derived-group-entities-are-its-entities",
                    isinstance(ge, ListVal) and all(any(g is e for e in ents.items) for g in ge.items)))
    return res


class TbsClone(_NativeJudge, Contract):
    scenarios = ("clone-entities", "parameter-alias")
    name = f"{TBS}.clone"
    prop = ("C14",)
    top_level = True
    descr = ("a copy of a system has its own variables table, variables, parameter tree and entities; nothing reachable from "
             "the original changes, and the original's entities stay bound to it")
    inline = ("openfisca_core.commons.misc.empty_clone", "openfisca_core.commons.misc.empty_clone.<locals>.__init__",
              "openfisca_core.entities._core_entity.CoreEntity.set_tax_benefit_system", f"{PNODE}.clone", f"{PARAM}.clone",
              f"{PAI}.clone")

    def setup(self, I, ctx, case):
        w = World14(I, ctx)
        # the original has been read at a date before: its memo of at-instant views holds a view of ITS tree
        view = Obj(I.builtins["object"], {"_name": "", "_instant_str": "2017-01-01", "_children": DictVal()}, label="base.view@2017-01-01")
        w.base.fields["_parameters_at_instant_cache"] = dict_of([("2017-01-01", view)])
        return {"self": w.base, "__w": w, "__snap": snap(reach(w.roots)), "__view": view}

    def post(self, I, ctx, a, out, old):
        w = a["__w"]
        if out[0] != "return" or not isinstance(out[1], Obj):
            return [("returns-a-system", False)]
        new = out[1]
        f = new.fields
        res = [("new-system", new is not w.base), ("original-untouched", not changed(a["__snap"]))]
        memo = f.get("_parameters_at_instant_cache")
        res.append(("the-copy-starts-without-resolved-views (a view of the original's tree is not a view of the copy's)",
                    isinstance(memo, DictVal) and memo is not w.base.fields["_parameters_at_instant_cache"] and not memo.items))
        res += entity_binding_checks(w, new)
        nv = f.get("variables")
        res.append(("own-variables-table", isinstance(nv, DictVal) and nv is not w.variables and set(nv.items) == set(w.variables.items)))
        if isinstance(nv, DictVal) and set(nv.items) == set(w.variables.items):
            for k, ov in w.variables.items.items():
                v = nv.items[k]
                res.append((f"own-variable-{w.variables.keyvals[k]}", isinstance(v, Obj) and v is not ov and v.cls is ov.cls and
                            _same(v.fields.get("name"), ov.fields["name"])))
        np_ = f.get("parameters")
        res.append(("own-parameter-tree", isinstance(np_, Obj) and np_ is not w.parameters))
        if isinstance(np_, Obj):
            mine = {id(o) for o in reach([np_])}
            theirs = [o for o in reach([w.parameters]) if id(o) in mine and isinstance(o, (Obj, DictVal, ListVal))]
            res.append(("parameter-trees-share-no-mutable-node" + ("" if not theirs else "[shared: " + ", ".join(sorted(str(getattr(o, "label", "?")) for o in theirs))[:80] + "]"), not theirs))
            try:
                r2 = np_.fields["children"].items[("c", "taxes")].fields["children"].items[("c", "rate")]
                vals = [(_x.fields["instant_str"], _x.fields["value"]) for _x in r2.fields["values_list"].items]
                orig = [(_x.fields["instant_str"], _x.fields["value"]) for _x in w.rate.fields["values_list"].items]
                res.append(("parameter-values-copied", len(vals) == len(orig) and all(x[0] == y[0] and _same(x[1], y[1]) for x, y in zip(vals, orig))))
            except (KeyError, AttributeError):
                res.append(("parameter-values-copied", False))
        res.append(("own-api-config", isinstance(f.get("open_api_config"), DictVal) and f["open_api_config"] is not w.base.fields["open_api_config"]))
        return res


class ReformInit(_NativeJudge, Contract):
    scenarios = ("reform-leaves-base", "neutralize-updated-variable")
    name = f"{REFORM}.__init__"
    prop = ("C14",)
    top_level = True
    cases = ("empty-apply", "apply-modifies-variables-and-parameters", "chained-on-a-reform-that-modified-parameters")
    descr = ("building a reform leaves the baseline untouched: own variables table (a copy), own entity copies bound to the "
             "reform, changes made by apply() stay in the reform")
    inline = (f"{TBS}.__init__", "openfisca_core.entities._core_entity.CoreEntity.set_tax_benefit_system",
              f"{REFORM}.modify_parameters", f"{TBS}.neutralize_variable", f"{TBS}.get_variable",
              f"{VHELP}.get_neutralized_variable", f"{TBS}.__init__.<locals>.*")

    def setup(self, I, ctx, case):
        w = World14(I, ctx)
        rcls = I.resolve_qualified(REFORM)
        marks = {}

        def apply_(ctx, self_):
            marks["applied"] = True
            if case == "empty-apply":
                return None
            if case == "chained-on-a-reform-that-modified-parameters":
                def modifier2(ctx3, params):
                    rate = params.fields["children"].items[("c", "taxes")].fields["children"].items[("c", "rate")]
                    rate.fields["values_list"].items.pop()
                    marks["modifier_got"] = params
                    return params
                I.call(ctx, I.getattr(ctx, self_, "modify_parameters"), [Builtin("modifier", modifier2)], {})
                return None
            # a reform that replaces a variable entry, neutralises another and modifies parameters
            vt = self_.fields["variables"]
            newvar = Obj(I.resolve_qualified(VAR), dict(w.v_salary.fields), label="var:salary(reform)")
            I.setitem(ctx, vt, "salary", newvar)
            I.call(ctx, I.getattr(ctx, self_, "neutralize_variable"), ["rent"], {})

            def modifier(ctx, params):
                rate = params.fields["children"].items[("c", "taxes")].fields["children"].items[("c", "rate")]
                rate.fields["values_list"].items.pop()      # in-place edit of the copy it was handed
                marks["modifier_got"] = params
                return params
            mod = Builtin("modifier", modifier)
            I.call(ctx, I.getattr(ctx, self_, "modify_parameters"), [mod], {})
            return None
        sub = ClassVal("MyReform", None, [rcls], {"apply": Builtin("apply", apply_, {"method": True})})
        baseline = w.base
        if case == "chained-on-a-reform-that-modified-parameters":
            # the baseline of the reform under test is itself a reform that owns a modified parameter tree
            def inner_apply(ctx2, self_):
                def modifier(ctx3, params):
                    params.fields["metadata"].items[("c", "inner")] = True
                    params.fields["metadata"].keyvals[("c", "inner")] = "inner"
                    return params
                I.call(ctx2, I.getattr(ctx2, self_, "modify_parameters"), [Builtin("inner-modifier", modifier)], {})
            inner_cls = ClassVal("InnerReform", None, [rcls], {"apply": Builtin("apply", inner_apply, {"method": True})})
            saved = I.under_test
            baseline = Obj(inner_cls, {}, label="inner-reform")
            init, _ = inner_cls.lookup("__init__")
            ctx.depth += 1
            try:
                I.call(ctx, init, [baseline, w.base], {})
            finally:
                ctx.depth -= 1
            w.inner = baseline
            w.roots = [w.base, baseline]
        return {"self": Obj(sub, {}, label="reform"), "baseline": baseline, "__w": w, "__snap": snap(reach(w.roots)),
                "__marks": marks}

    def post(self, I, ctx, a, out, old):
        w, r = a["__w"], a["self"]
        if out[0] != "return":
            return [("no-exception", False)]
        f = r.fields
        res = [("baseline-untouched" + ("" if not changed(a["__snap"]) else "[changed: " + ", ".join(map(str, changed(a["__snap"])))[:80] + "]"), not changed(a["__snap"])),
               ("apply-was-run", a["__marks"].get("applied") is True),
               ("baseline-recorded", f.get("baseline") is a["baseline"])]
        if a["baseline"] is not w.base:
            # chained: the intermediate reform and the root stay as they were; the outer reform owns what it modifies
            got = a["__marks"].get("modifier_got")
            inner_params = a["baseline"].fields.get("parameters")
            res.append(("modifier-works-on-a-copy-of-the-intermediate-tree", got is not None and got is not inner_params and not (
                {id(o) for o in reach([got])} & {id(o) for o in reach([inner_params]) if isinstance(o, (Obj, DictVal, ListVal))})))
            res.append(("outer-reform-parameters-are-the-modifier-result", f.get("parameters") is got))
            return res
        res += entity_binding_checks(w, r)
        rv = f.get("variables")
        res.append(("own-variables-table", isinstance(rv, DictVal) and rv is not w.variables))
        if isinstance(rv, DictVal):
            res.append(("same-variable-names", set(rv.items) == set(w.variables.items)))
            res.append(("untouched-variable-shared-as-is", rv.items.get(("c", "tax")) is w.v_tax))
        if a["__marks"].get("modifier_got") is not None:
            got = a["__marks"]["modifier_got"]
            res.append(("modifier-works-on-a-copy", got is not w.parameters and not (
                {id(o) for o in reach([got])} & {id(o) for o in reach([w.parameters]) if isinstance(o, (Obj, DictVal, ListVal))})))
            res.append(("reform-parameters-are-the-modifier-result", f.get("parameters") is got))
            n = rv.items.get(("c", "rent")) if isinstance(rv, DictVal) else None
            res.append(("neutralised-variable-is-a-new-object", isinstance(n, Obj) and n is not w.v_rent and n.fields.get("is_neutralized") is True))
            res.append(("baseline-variable-not-neutralised", w.v_rent.fields["is_neutralized"] is False))
        else:
            res.append(("reform-starts-from-the-baseline-parameters", f.get("parameters") is w.parameters))
        return res


class VariableCloneSite(Contract):
    """call-site contract of Variable.clone (verified on its own below): a new variable object, same definition"""
    name = f"{VAR}.clone"
    prop = ()

    def outcomes(self, I, ctx, a, old):
        v = a["self"]
        return ("return", Obj(v.cls, dict(v.fields), label=(v.label or "var") + "'"))

    def post(self, I, ctx, a, out, old):
        return []


class _TableMutator(Contract):
    prop = ("C14",)
    top_level = True
    op = ""

    def setup(self, I, ctx, case):
        w = World14(I, ctx)
        # derived system sharing variable objects with the base through a copied table (as a reform does)
        d = Obj(I.resolve_qualified(TBS), dict(w.base.fields), label="derived")
        d.fields["variables"] = dict_of([(w.variables.keyvals[k], v) for k, v in w.variables.items.items()])
        d.fields["baseline"] = w.base
        return {"self": d, "variable_name": "tax", "__w": w, "__snap": snap(reach(w.roots)), "__d": d}

    def common(self, a, out):
        w, d = a["__w"], a["__d"]
        res = [("base-untouched", not changed(a["__snap"]))]
        return res, w, d


class TbsLoadVariable(_TableMutator):
    name = f"{TBS}.load_variable"
    cases = ("add-new", "add-existing", "update-existing", "update-unknown")
    descr = ("adding or updating a variable on a derived system changes that system's table only; an update keeps the attributes "
             "and earlier formulas it does not redefine; adding an existing name is refused")
    inline = (f"{TBS}.get_variable", f"{VAR}.__init__", f"{VAR}.set", f"{VAR}.set_*", f"{VHELP}._partition",
              f"{VAR}.parse_formula_name", f"{VAR}.parse_formula_name.<locals>.*")

    def setup(self, I, ctx, case):
        a = super().setup(I, ctx, case)
        w = a["__w"]
        vcls = I.resolve_qualified(VAR)
        newf = World14.formula(I, "f2005")
        if case in ("add-new", "update-unknown"):
            ns = {"value_type": I.builtins["float"], "entity": w.decl_person, "definition_period": dateunit(I, "month"),
                  "label": "Brand new", "formula_2005": newf}
            cls = ClassVal("bonus", None, [vcls], ns)
        else:
            cls = ClassVal("tax", None, [vcls], {"formula_2005": newf} if case == "update-existing" else
                           {"value_type": I.builtins["float"], "entity": w.decl_person, "definition_period": dateunit(I, "month")})
        a.pop("variable_name")
        a.update({"variable_class": cls, "update": case.startswith("update"), "__newf": newf, "__case": case})
        return a

    def post(self, I, ctx, a, out, old):
        res, w, d = self.common(a, out)
        case = a["__case"]
        tab = d.fields["variables"]
        if case == "add-existing":
            return res + [("existing-name-refused", out[0] == "raise" and out[1].cls.name == "VariableNameConflictError"),
                          ("table-unchanged", all(tab.items.get(k) is v for k, v in w.variables.items.items()) and len(tab.items) == 3)]
        if out[0] != "return" or not isinstance(out[1], Obj):
            return res + [("returns-the-variable", False)]
        v = out[1]
        name = "bonus" if case in ("add-new", "update-unknown") else "tax"
        res.append(("installed-under-its-name", tab.items.get(("c", name)) is v and v.fields.get("name") == name))
        res.append(("other-entries-kept", all(tab.items.get(k) is x for k, x in w.variables.items.items() if k != ("c", name))))
        data = v.fields["formulas"].fields["__data__"]
        got = [(data.keyvals[k], x) for k, x in data.items.items()]
        if case == "update-existing":
            res += [("new-object", v is not w.v_tax),
                    ("attributes-not-redefined-come-from-the-updated-variable",
                     v.fields.get("label") == "Income tax" and v.fields.get("entity") is w.v_tax.fields["entity"] and
                     v.fields.get("value_type") is w.v_tax.fields["value_type"] and
                     _same(v.fields.get("definition_period"), w.v_tax.fields["definition_period"])),
                    ("formulas-are-new-ones-plus-strictly-earlier-old-ones",
                     len(got) == 2 and got[0][0] == "2000-01-01" and got[0][1] is w.f_old and got[1][0] == "2005-01-01" and got[1][1] is a["__newf"])]
        else:
            res += [("declared-attributes-kept", v.fields.get("label") == "Brand new"),
                    ("declared-formula-kept", len(got) == 1 and got[0][0] == "2005-01-01" and got[0][1] is a["__newf"])]
        return res


class TbsReplaceVariable(TbsLoadVariable):
    name = f"{TBS}.replace_variable"
    cases = ("replace-existing", "replace-unknown")
    descr = "replacing a variable installs a fresh definition (nothing inherited) in the derived system only"
    inline = TbsLoadVariable.inline + (f"{TBS}.load_variable",)

    def setup(self, I, ctx, case):
        a = _TableMutator.setup(self, I, ctx, case)
        w = a["__w"]
        vcls = I.resolve_qualified(VAR)
        newf = World14.formula(I, "f2005")
        name = "tax" if case == "replace-existing" else "bonus"
        cls = ClassVal(name, None, [vcls], {"value_type": I.builtins["float"], "entity": w.decl_person,
                                            "definition_period": dateunit(I, "year"), "formula_2005": newf})
        a.pop("variable_name")
        a.update({"variable": cls, "__newf": newf, "__name": name})
        return a

    def post(self, I, ctx, a, out, old):
        res, w, d = self.common(a, out)
        if out[0] != "return":
            return res + [("no-exception", False)]
        v = d.fields["variables"].items.get(("c", a["__name"]))
        ok = isinstance(v, Obj) and v is not w.v_tax
        res.append(("fresh-definition-installed", ok))
        if ok:
            data = v.fields["formulas"].fields["__data__"]
            res += [("nothing-inherited", v.fields.get("label") is None and unit_name(v.fields.get("definition_period")) == "year" and
                     [data.keyvals[k] for k in data.items] == ["2005-01-01"]),
                    ("other-entries-kept", all(d.fields["variables"].items.get(k) is x for k, x in w.variables.items.items() if k != ("c", a["__name"])))]
        return res


class TbsNeutralize(_TableMutator):
    name = f"{TBS}.neutralize_variable"
    descr = "neutralising on a derived system installs a new neutralised variable there and leaves the base variable as it was"
    inline = (f"{TBS}.get_variable", f"{VHELP}.get_neutralized_variable")

    def post(self, I, ctx, a, out, old):
        res, w, d = self.common(a, out)
        if out[0] != "return":
            return res + [("no-exception", False)]
        n = d.fields["variables"].items.get(("c", "tax"))
        res += [("new-variable-object", isinstance(n, Obj) and n is not w.v_tax),
                ("it-is-neutralised", isinstance(n, Obj) and n.fields.get("is_neutralized") is True),
                ("same-name-and-entity", isinstance(n, Obj) and n.fields.get("name") == "tax" and n.fields.get("entity") is w.v_tax.fields["entity"]),
                ("other-entries-kept", all(d.fields["variables"].items.get(k) is v for k, v in w.variables.items.items() if k != ("c", "tax")))]
        return res


class TbsAnnualize(_TableMutator):
    name = f"{TBS}.annualize_variable"
    descr = "annualising on a derived system installs a new variable there and leaves the base variable and its formulas as they were"
    inline = (f"{TBS}.get_variable", f"{VHELP}.get_annualized_variable", f"{VHELP}.get_annualized_variable.<locals>.*")

    def setup(self, I, ctx, case):
        a = super().setup(I, ctx, case)
        a["period"] = None
        return a

    def post(self, I, ctx, a, out, old):
        res, w, d = self.common(a, out)
        if out[0] != "return":
            return res + [("no-exception", False)]
        n = d.fields["variables"].items.get(("c", "tax"))
        ok = isinstance(n, Obj) and n is not w.v_tax
        res.append(("new-variable-object", ok))
        if ok:
            nf = n.fields.get("formulas")
            data = nf.fields.get("__data__") if isinstance(nf, Obj) else None
            res.append(("own-formula-table", isinstance(data, DictVal) and nf is not w.v_tax.fields["formulas"]))
            if isinstance(data, DictVal):
                res.append(("same-formula-dates", list(data.keyvals.values()) == ["2000-01-01", "2010-01-01"]))
                res.append(("every-formula-wrapped", all(isinstance(x, FuncVal) and x.name == "annual_formula" for x in data.items.values())))
        return res


class AnnualFormula(Contract):
    """the inner annual_formula built by get_annualized_variable"""
    name = f"{VHELP}.get_annualized_variable"
    prop = ("C14",)
    top_level = True
    cases = ("january", "other-month", "other-month-outside-annualisation-period")
    descr = ("an annualised variable yields, for a non-January month, the value requested for January of that year; for January "
             "(or outside the annualisation period) the original formula's value")
    inline = (f"{VHELP}.get_annualized_variable.<locals>.*",)

    def setup(self, I, ctx, case):
        w = World14(I, ctx)
        y = ctx.fresh_int("yy")
        ctx.assume(z3.And(y >= 1000, y <= 9000))
        m = ctx.fresh_int("mm") if case != "january" else 1
        if case != "january":
            ctx.assume(z3.And(m >= 2, m <= 12))
        period = mk_period(I, "month", mk_instant(I, y, m, 1), 1)
        ap = None
        if case == "other-month-outside-annualisation-period":
            ap = mk_period(I, "year", mk_instant(I, y + 1, 1, 1), 1)
        return {"variable": w.v_tax, "annualization_period": ap, "__w": w, "__period": period, "__snap": snap(reach(w.roots))}

    def post(self, I, ctx, a, out, old):
        w = a["__w"]
        if out[0] != "return" or not isinstance(out[1], Obj):
            return [("returns-a-variable", False)]
        nv = out[1]
        res = [("base-variable-untouched", not changed(a["__snap"])), ("new-object", nv is not w.v_tax)]
        data = nv.fields["formulas"].fields["__data__"]
        period = a["__period"]
        y, m, d = ymd(period.items[1])
        # every dated formula has its own wrapper, around that formula
        for key, original, tag in (("2010-01-01", w.f_new, "latest-formula"), ("2000-01-01", w.f_old, "earlier-formula")):
            f = data.items.get(("c", key))
            if f is None:
                res.append((f"{tag}.wrapped", False))
                continue
            requests = []

            def population(ctx2, name, p, options=None, requests=requests):
                requests.append((name, p))
                return Opaque(None, "requested-value")
            pop = Opaque(None, "population", {"call": population})
            called = []
            # original formulas are opaque callables: record their calls
            for k in list(w.v_tax.fields["formulas"].fields["__data__"].items):
                orig = w.v_tax.fields["formulas"].fields["__data__"].items[k]
                orig.attrs["call"] = (lambda ctx2, *args, _o=orig, called=called: called.append((_o, args)) or Opaque(None, "original-value"))
                orig.attrs["getattr"] = (lambda ctx2, n: (Opaque(None, "code", {"fields": {"co_argcount": 3}}) if n == "__code__" else None))
            r = I.call(ctx, f, [pop, period, Opaque(None, "parameters")], {})
            if z3.is_true(z3.simplify(m == 1)) or a["annualization_period"] is not None:
                res.append((f"{tag}.original-formula-used", len(called) == 1 and called[0][0] is original and not requests and
                            isinstance(r, Opaque) and r.tag == "original-value"))
                if called:
                    res.append((f"{tag}.original-formula-gets-the-same-period", called[0][1][1] is period))
            else:
                ok = len(requests) == 1 and not called and isinstance(r, Opaque) and r.tag == "requested-value"
                res.append((f"{tag}.january-value-requested", ok))
                if ok:
                    nm, p = requests[0]
                    pu, ps, pn = period_parts(p)
                    py, pm, pd = ymd(ps)
                    res.append((f"{tag}.request-is-the-variable-at-january-of-that-year",
                                z3.And(z3.BoolVal(nm == "tax" and pu == "month"), zi(pn) == 1, py == y, pm == 1, pd == 1)))
        return res


class VariableClone(_NativeJudge, Contract):
    scenarios = ("neutralize-updated-variable",)
    name = f"{VAR}.clone"
    prop = ("C14",)
    top_level = True
    cases = ("variable-updated-by-a-reform",)
    descr = "cloning a variable gives a new variable with the same definition, also when it was built as an update of another one"
    inline = (f"{VAR}.__init__", f"{VAR}.set", f"{VAR}.set_*", f"{VHELP}._partition", f"{VAR}.parse_formula_name",
              f"{VAR}.parse_formula_name.<locals>.*")

    def setup(self, I, ctx, case):
        w = World14(I, ctx)
        vcls = I.resolve_qualified(VAR)
        newf = World14.formula(I, "f2015")
        # class tax(Variable): formula_2015 = ...   (an update: every other attribute comes from the baseline variable)
        sub = ClassVal("tax", None, [vcls], {"formula_2015": newf, "__module__": "reform", "__qualname__": "tax"})
        fields = dict(w.v_tax.fields)
        fields["baseline_variable"] = w.v_tax
        fields["formulas"] = World14.sorted_dict(I, [("2000-01-01", w.f_old), ("2010-01-01", w.f_new), ("2015-01-01", newf)])
        me = Obj(sub, fields, label="var:tax(updated)")
        return {"self": me, "__w": w, "__snap": snap(reach(w.roots + [me]))}

    def post(self, I, ctx, a, out, old):
        me = a["self"]
        res = [("nothing-existing-is-modified", not changed(a["__snap"]))]
        if out[0] != "return" or not isinstance(out[1], Obj):
            return res + [("clone-succeeds", False)]
        c = out[1]
        res.append(("new-object-of-the-same-class", c is not me and c.cls is me.cls))
        for f in ("name", "value_type", "entity", "definition_period", "label", "end", "default_value"):
            res.append((f"same-{f}", _same(c.fields.get(f), me.fields.get(f))))
        cf = c.fields.get("formulas")
        ok = isinstance(cf, Obj) and "__data__" in cf.fields
        res.append(("same-formulas", ok and [(cf.fields["__data__"].keyvals[k], v) for k, v in cf.fields["__data__"].items.items()] ==
                    [(me.fields["formulas"].fields["__data__"].keyvals[k], v) for k, v in me.fields["formulas"].fields["__data__"].items.items()]))
        return res


class ParameterClone(_NativeJudge, Contract):
    scenarios = ("parameter-alias",)
    name = f"{PARAM}.clone"
    prop = ("C14",)
    top_level = True
    descr = "a cloned parameter shares no mutable part with the original (entries, metadata, backward-compatibility alias)"
    inline = (f"{PAI}.clone", "openfisca_core.commons.misc.empty_clone", "openfisca_core.commons.misc.empty_clone.<locals>.__init__")

    def setup(self, I, ctx, case):
        w = World14(I, ctx)
        return {"self": w.rate, "__w": w, "__snap": snap(reach(w.roots))}

    def post(self, I, ctx, a, out, old):
        w = a["__w"]
        if out[0] != "return" or not isinstance(out[1], Obj):
            return [("returns-a-parameter", False)]
        c = out[1]
        mine = {id(o) for o in reach([c])}
        theirs = [str(getattr(o, "label", "?")) for o in reach([w.rate]) if id(o) in mine]
        return [("original-untouched", not changed(a["__snap"])), ("new-object", c is not w.rate),
                ("history-alias-points-to-the-clone", c.fields.get("values_history") is c),
                ("no-mutable-part-shared", not theirs)]



PSCALE = "openfisca_core.parameters.parameter_scale.ParameterScale"
PBRACKET = "openfisca_core.parameters.parameter_scale_bracket.ParameterScaleBracket"


def _meta(tag):
    inner = ListVal(["ref-" + tag])
    return dict_of([("unit", "currency"), ("type", "marginal_rate"), ("reference", inner)])


class _CloneSite(Contract):
    """call-site contract of the clone() of a child (Parameter.clone / ParameterNode.clone are verified on their own): a fresh
    object of the same class, logged"""
    prop = ()

    def outcomes(self, I, ctx, a, old):
        o = a["self"]
        c = Obj(o.cls, {"name": o.fields.get("name"), "__clone_of": o}, label="clone-of:" + str(o.label))
        ctx.ghost.setdefault("child_clones", []).append((o, c))
        return ("return", c)

    def post(self, I, ctx, a, out, old):
        return []


def _site(name):
    c = _CloneSite()
    c.name = name
    return c


class ParamNodeClone(Contract):
    name = f"{PNODE}.clone"
    prop = ("C14", "C07")
    top_level = True
    cases = ("group", "scale")
    descr = ("a cloned parameter group / scale shares no mutable part with the original: its metadata is a copy of its own (changing "
             "the kind of a scale on a copied system does not reach the original), its children / brackets are the clones of the "
             "original's, reachable under the same names; the original is untouched")
    inline = ("openfisca_core.commons.misc.empty_clone", "openfisca_core.commons.misc.empty_clone.<locals>.__init__")

    def setup(self, I, ctx, case):
        R = I.resolve_qualified
        if case == "group":
            kids = [Obj(R(PARAM), {"name": "taxes." + k, "metadata": DictVal()}, label="param:" + k) for k in ("rate", "ceiling")]
            node = Obj(R(PNODE), {"name": "taxes", "children": dict_of([("rate", kids[0]), ("ceiling", kids[1])]), "rate": kids[0], "ceiling": kids[1],
                                  "metadata": _meta("g"), "description": None, "documentation": None, "file_path": None}, label="node:taxes")
        else:
            kids = [Obj(R(PBRACKET), {"name": f"scale[{k}]", "metadata": DictVal(), "children": DictVal()}, label=f"bracket:{k}") for k in range(2)]
            node = Obj(R(PSCALE), {"name": "scale", "brackets": ListVal(list(kids)), "metadata": _meta("s"), "description": None,
                                   "documentation": None, "file_path": None}, label="scale")
        return {"self": node, "__kids": kids, "__snap": snap(reach([node])), "__case": case}

    def target_name(self, case):
        return f"{PSCALE}.clone" if case == "scale" else self.name

    @staticmethod
    def local_contracts():
        return {f"{PARAM}.clone": _site(f"{PARAM}.clone")}

    def post(self, I, ctx, a, out, old):
        node, kids = a["self"], a["__kids"]
        if out[0] != "return" or not isinstance(out[1], Obj):
            return [("returns-a-node", False)]
        c = out[1]
        clones = ctx.ghost.get("child_clones", [])
        md, md0 = c.fields.get("metadata"), node.fields["metadata"]
        res = [("original-untouched", not changed(a["__snap"])), ("new-object-of-the-same-class", c is not node and c.cls is node.cls),
               ("own-metadata-with-the-same-content", isinstance(md, DictVal) and md is not md0 and set(md.items) == set(md0.items)
                and all(_same(md.items[k], md0.items[k]) or isinstance(md0.items[k], CONTAINERS) for k in md0.items)),
               ("no-container-inside-the-metadata-is-shared", isinstance(md, DictVal) and not any(any(x is y for y in reach([md0])) for x in reach([md]))),
               ("every-child-cloned-once", [o for o, _ in clones] == kids or sorted(id(o) for o, _ in clones) == sorted(id(k) for k in kids))]
        by = {id(o): cl for o, cl in clones}
        if a["__case"] == "group":
            ch = c.fields.get("children")
            ok = isinstance(ch, DictVal) and ch is not node.fields["children"] and set(ch.items) == set(node.fields["children"].items)
            res.append(("own-children-table-with-the-same-names", ok))
            if ok:
                for k, v0 in node.fields["children"].items.items():
                    nm = node.fields["children"].keyvals[k]
                    res.append((f"child-{nm}-is-the-clone-of-the-original's", ch.items[k] is by.get(id(v0))))
                    res.append((f"attribute-{nm}-is-that-clone", c.fields.get(nm) is by.get(id(v0))))
        else:
            br = c.fields.get("brackets")
            ok = isinstance(br, (ListVal, SymList)) and br is not node.fields["brackets"]
            res.append(("own-list-of-brackets", ok))
            if ok and isinstance(br, ListVal):
                res.append(("brackets-are-the-clones-of-the-original's-in-order", len(br.items) == len(kids) and all(b is by.get(id(k)) for b, k in zip(br.items, kids))))
        return res


class ParamScaleClone(ParamNodeClone):
    name = f"{PSCALE}.clone"
    cases = ("scale",)

    @staticmethod
    def local_contracts():
        return {f"{PNODE}.clone": _site(f"{PNODE}.clone")}


ParamNodeClone.cases = ("group",)


class NeutralizedHelper(Contract):
    name = f"{VHELP}.get_neutralized_variable"
    prop = ("C14",)
    top_level = True
    descr = "neutralising returns a new variable flagged neutralised; the variable given is not modified"

    def setup(self, I, ctx, case):
        w = World14(I, ctx)
        return {"variable": w.v_tax, "__w": w, "__snap": snap(reach(w.roots))}

    def post(self, I, ctx, a, out, old):
        w = a["__w"]
        if out[0] != "return" or not isinstance(out[1], Obj):
            return [("returns-a-variable", False)]
        n = out[1]
        return [("given-variable-untouched", not changed(a["__snap"])), ("new-object", n is not w.v_tax),
                ("neutralised", n.fields.get("is_neutralized") is True), ("same-name", n.fields.get("name") == "tax")]


class VariableSet(Contract):
    name = f"{VAR}.set"
    prop = ("C14", "C01")
    top_level = True
    cases = ("redefined", "inherited", "missing-required", "neither", "redefined-as-empty-text", "redefined-as-false", "redefined-as-zero")
    FALSY = {"redefined-as-empty-text": ("label", "", "str"), "redefined-as-false": ("is_period_size_independent", False, "bool"),
             "redefined-as-zero": ("default_value", 0, "int")}
    descr = ("an updated variable keeps every attribute it does not redefine from the variable it updates - and what it does "
             "redefine wins, also when the new value is '', False or 0")

    def setup(self, I, ctx, case):
        w = World14(I, ctx)
        attrs = DictVal()
        if case == "redefined":
            attrs.items[("c", "label")] = "New label"
            attrs.keyvals[("c", "label")] = "label"
        if case in self.FALSY:
            nm, val, tp = self.FALSY[case]
            w.v_tax.fields.update({"label": "Income tax", "is_period_size_independent": True, "default_value": 5})
            attrs.items[("c", nm)] = val
            attrs.keyvals[("c", nm)] = nm
            me = Obj(I.resolve_qualified(VAR), {"name": "tax", "baseline_variable": w.v_tax}, label="updated")
            return {"self": me, "attributes": attrs, "attribute_name": nm, "required": False, "allowed_type": I.builtins[tp], "__w": w,
                    "__snap": snap(reach(w.roots)), "__falsy": val}
        me = Obj(I.resolve_qualified(VAR), {"name": "tax", "baseline_variable": w.v_tax if case in ("redefined", "inherited") else None},
                 label="updated")
        return {"self": me, "attributes": attrs, "attribute_name": "label", "required": case == "missing-required",
                "allowed_type": I.builtins["str"], "__w": w, "__snap": snap(reach(w.roots))}

    def post(self, I, ctx, a, out, old):
        w = a["__w"]
        res = [("baseline-variable-untouched", not changed(a["__snap"]))]
        if "__falsy" in a:
            return res + [("redefined-value-wins-also-when-it-is-empty-false-or-zero",
                           out[0] == "return" and type(out[1]) is type(a["__falsy"]) and out[1] == a["__falsy"])]
        redefined = ("c", "label") in a["attributes"].items or out[0] == "return" and out[1] == "New label"
        base = a["self"].fields["baseline_variable"]
        if a["required"] and base is None:
            return res + [("missing-required-attribute-refused", raised(out, I, "ValueError"))]
        if out[0] != "return":
            return res + [("no-exception", False)]
        if out[1] == "New label":
            return res + [("redefined-value-wins", True)]
        if base is not None:
            return res + [("inherited-from-the-updated-variable", out[1] == w.v_tax.fields["label"])]
        return res + [("absent-attribute-is-none", out[1] is None)]


class VariableSetFormulas(Contract):
    name = f"{VAR}.set_formulas"
    prop = ("C14", "C01")
    top_level = True
    cases = ("update-later-formula", "update-earlier-formula", "update-same-date-formula", "update-after-all", "no-new-formula", "no-baseline")
    descr = ("an updated variable has its new formulas plus the formulas of the variable it updates that start strictly "
             "before its first new formula")
    inline = (f"{VAR}.parse_formula_name", f"{VAR}.parse_formula_name.<locals>.*")

    def setup(self, I, ctx, case):
        w = World14(I, ctx)
        newf = World14.formula(I, "fnew")
        attrs = DictVal()
        name = {"update-later-formula": "formula_2005", "update-earlier-formula": "formula_1995_06", "no-new-formula": None,
                "no-baseline": "formula_2005", "update-same-date-formula": "formula_2010", "update-after-all": "formula_2020_02_03"}[case]
        if name:
            attrs.items[("c", name)] = newf
            attrs.keyvals[("c", name)] = name
        me = Obj(I.resolve_qualified(VAR), {"name": "tax", "end": None, "baseline_variable": None if case == "no-baseline" else w.v_tax},
                 label="updated")
        return {"self": me, "formulas_attr": attrs, "__w": w, "__snap": snap(reach(w.roots)), "__new": newf, "__case": case}

    def post(self, I, ctx, a, out, old):
        w = a["__w"]
        res = [("baseline-variable-and-its-formulas-untouched", not changed(a["__snap"]))]
        if out[0] != "return" or not isinstance(out[1], Obj):
            return res + [("returns-a-formula-table", False)]
        data = out[1].fields.get("__data__")
        got = [(data.keyvals[k], data.items[k]) for k in sorted(data.items, key=lambda k: data.keyvals[k])]
        want = {"update-later-formula": [("2000-01-01", w.f_old), ("2005-01-01", a["__new"])],
                "update-earlier-formula": [("1995-06-01", a["__new"])],
                "no-new-formula": [("2000-01-01", w.f_old), ("2010-01-01", w.f_new)],
                "update-same-date-formula": [("2000-01-01", w.f_old), ("2010-01-01", a["__new"])],
                "update-after-all": [("2000-01-01", w.f_old), ("2010-01-01", w.f_new), ("2020-02-03", a["__new"])],
                "no-baseline": [("2005-01-01", a["__new"])]}[a["__case"]]
        res.append(("own-table", out[1] is not w.v_tax.fields["formulas"]))
        res.append(("new-formulas-plus-strictly-earlier-baseline-formulas",
                    len(got) == len(want) and all(g[0] == x[0] and g[1] is x[1] for g, x in zip(got, want))))
        return res


def install(I):
    """external model: sortedcontainers.SortedDict over concrete string keys (iteration in key order)"""
    from pyvc.values import PropertyVal
    obj = I.builtins["object"]
    cls = ClassVal("SortedDict", None, [obj], {}, external="sortedcontainers.SortedDict")

    def new_model(ctx, c, *args, **kw):
        ctx.assumed_ext.add("sortedcontainers.SortedDict: mapping iterated in key order; peekitem(0) = smallest key")
        o = Obj(c, {"__data__": DictVal()})
        if args:
            upd(ctx, o, args[0])
        return o

    def resort(o):
        d = o.fields["__data__"]
        ks = sorted(d.items, key=lambda k: d.keyvals[k])
        d.items = {k: d.items[k] for k in ks}
        d.keyvals = {k: d.keyvals[k] for k in ks}

    def upd(ctx, o, src):
        d = o.fields["__data__"]
        if isinstance(src, Obj) and "__data__" in src.fields:
            src = src.fields["__data__"]
        if not isinstance(src, DictVal):
            raise Unsupported("SortedDict.update source")
        for k, v in src.items.items():
            if not isinstance(src.keyvals[k], str):
                raise Unsupported("SortedDict with non-string keys")
            d.items[k] = v
            d.keyvals[k] = src.keyvals[k]
        resort(o)

    def setitem(ctx, o, k, v):
        from pyvc.interp import hkey
        d = o.fields["__data__"]
        if not isinstance(k, str):
            raise Unsupported("SortedDict with non-string keys")
        d.items[hkey(k)] = v
        d.keyvals[hkey(k)] = k
        resort(o)

    def peekitem(ctx, o, index=-1):
        d = o.fields["__data__"]
        ks = list(d.items)
        if not ks:
            raise I.raise_exc("IndexError")
        k = ks[index]
        return TupleVal([d.keyvals[k], d.items[k]])
    def setdefault(ctx, o, k, v=None):
        from pyvc.interp import hkey
        d = o.fields["__data__"]
        if not isinstance(k, str):
            raise Unsupported("SortedDict with non-string keys")
        if hkey(k) in d.items:
            return d.items[hkey(k)]
        setitem(ctx, o, k, v)
        return v

    def get(ctx, o, k, default=None):
        from pyvc.interp import hkey
        d = o.fields["__data__"]
        return d.items.get(hkey(k), default) if isinstance(k, str) else default
    M = lambda n, f: Builtin(n, f, {"method": True})
    cls.ns.update({"setdefault": M("setdefault", setdefault), "get": M("get", get)})
    cls.ns.update({"__new_model__": new_model, "update": M("update", upd), "__setitem__": M("__setitem__", setitem),
                   "peekitem": M("peekitem", peekitem),
                   "__len__": M("__len__", lambda ctx, o: len(o.fields["__data__"].items)),
                   "__bool__": M("__bool__", lambda ctx, o: len(o.fields["__data__"].items) > 0),
                   "__iter__": M("__iter__", lambda ctx, o: ListVal(list(o.fields["__data__"].keyvals.values()))),
                   "__reversed__": M("__reversed__", lambda ctx, o: ListVal(list(reversed(list(o.fields["__data__"].keyvals.values()))))),
                   "__getitem__": M("__getitem__", lambda ctx, o, k: B.getitem(I, ctx, o.fields["__data__"], k)),
                   "__contains__": M("__contains__", lambda ctx, o, k: B.contains(I, ctx, o.fields["__data__"], k)),
                   "items": M("items", lambda ctx, o: I.call(ctx, I.getattr(ctx, o.fields["__data__"], "items"), [], {})),
                   "keys": M("keys", lambda ctx, o: ListVal(list(o.fields["__data__"].keyvals.values()))),
                   "values": M("values", lambda ctx, o: ListVal(list(o.fields["__data__"].items.values())))})
    I.ext["sortedcontainers.sorteddict"] = {"SortedDict": cls}
    I.ext["sortedcontainers"] = {"SortedDict": cls, "sorteddict": None}


CONTRACTS = [VariableClone(), ParameterClone(), ParamNodeClone(), ParamScaleClone(), TbsClone(), ReformInit(), TbsLoadVariable(), TbsReplaceVariable(), TbsNeutralize(), TbsAnnualize(), AnnualFormula(), NeutralizedHelper(), VariableSet(),
             VariableSetFormulas()]
for _c in (ReformInit, TbsNeutralize, TbsAnnualize, AnnualFormula, NeutralizedHelper):
    _c.local_contracts = staticmethod(lambda: {VariableCloneSite.name: VariableCloneSite()})
