"""C06 -- a parameter's value at a date is its latest entry; updates touch only their span.
History view (DESIGN 3.3): strictly decreasing list of (key, value); keys are ISO date strings through their
order embedding; value_at(H, d) = value of the first entry with key <= d, undefined (None) if none."""
from __future__ import annotations

import z3

from pyvc import builtins_ as B
from pyvc import smt
from pyvc import strings
from pyvc import theory_cal as cal
from pyvc.contract import Contract, LoopSpec
from pyvc.values import (Builtin, DictVal, ExcVal, IsoStr, ListVal, Obj, Opaque, SeqVal, Sym, SymList, TupleVal, Unsupported)

from .common import *  # noqa
from .c04_periods import sym_period, period_requires

PARAM = "openfisca_core.parameters.parameter.Parameter"
PAI = "openfisca_core.parameters.parameter_at_instant.ParameterAtInstant"
AIL = "openfisca_core.parameters.at_instant_like.AtInstantLike"
NODE_AT = "openfisca_core.parameters.parameter_node_at_instant.ParameterNodeAtInstant"
INST = f"{P}.instant_.Instant"

PVAL = z3.DeclareSort("PVal")
PNONE = z3.Const("PNONE", PVAL)
TYPEIS = z3.Function("TYPEIS", PVAL, z3.IntSort(), z3.BoolSort())
CLASS_ID = {"float": 0, "int": 1, "bool": 2, "NoneType": 3, "list": 4, "dict": 5, "str": 6}
ALLOWED_IDS = (0, 1, 2, 3, 4)


def allowed(v):
    return z3.Or(*[TYPEIS(v, c) for c in ALLOWED_IDS])


def none_typing():
    """None is exactly the value of NoneType"""
    x = z3.Const("x_pv", PVAL)
    return [TYPEIS(PNONE, 3)] + [z3.Not(TYPEIS(PNONE, c)) for c in (0, 1, 2, 4, 5, 6)] + \
           [z3.ForAll([x], z3.Implies(TYPEIS(x, 3), x == PNONE), patterns=[TYPEIS(x, 3)])]


def mk_pval(I, e):
    def isinst(ctx, c):
        cid = CLASS_ID.get(c.name)
        if cid is None or not c.external:
            return False
        return B.wrap(TYPEIS(e, cid))
    TYPEOF = z3.Function("PVAL_TYPE", e.sort(), z3.IntSort())
    attrs = {"is_none": lambda: e == PNONE, "isinstance": isinst, "type_token": lambda: Opaque(TYPEOF(e), "type-of-a-parameter-value", {})}
    v = Opaque(e, "pval", attrs)
    attrs["none_value"] = None
    return v


def pv(I, v):
    """PVal term of a parameter value as the code holds it (python None = PNONE)"""
    if v is None:
        return PNONE
    if isinstance(v, Opaque) and v.e is not None and v.e.sort() == PVAL:
        return v.e
    if isinstance(v, B.OptVal):
        return z3.If(v.is_none, PNONE, pv(I, v.val))
    raise Unsupported(f"not a parameter value: {v!r}")


def pai_cls(I):
    return I.resolve_qualified(PAI)


class History:
    """symbolic input history: length n, keys K(i), values V(i)"""

    def __init__(self, I, ctx, tag="H", wf=True):
        self.n = ctx.fresh_int("n" + tag)
        self.K = z3.Function(ctx.fresh_name("K" + tag), z3.IntSort(), z3.IntSort())
        self.V = z3.Function(ctx.fresh_name("V" + tag), z3.IntSort(), PVAL)
        ctx.assume(self.n >= 0)
        i, j = z3.Ints("i_h j_h")
        if wf:
            ctx.assume(z3.ForAll([i, j], z3.Implies(z3.And(0 <= i, i < j, j < self.n), self.K(i) > self.K(j)),
                                 patterns=[z3.MultiPattern(self.K(i), self.K(j))]))
        ctx.assume(z3.ForAll([i], z3.Implies(z3.And(0 <= i, i < self.n), allowed(self.V(i))), patterns=[self.V(i)]))
        # keys are texts of 4-digit-year dates (order embedding)
        ctx.assume(z3.ForAll([i], z3.Implies(z3.And(0 <= i, i < self.n), z3.And(self.K(i) >= 10000101, self.K(i) <= 99991231)),
                             patterns=[self.K(i)]))
        for f in none_typing():
            ctx.assume(f)
        cls = pai_cls(I)
        K, V = self.K, self.V
        self.seq = SeqVal(self.n, lambda idx: B.SymRec(cls, {"instant_str": IsoStr(key=K(B._z(idx))),
                                                             "value": mk_pval(I, V(B._z(idx))),
                                                             "name": "p[..]", "file_path": None}), tag="history")


def view(I, ctx, lst):
    """(n, key(j), val(j)) of a values_list as the code holds it"""
    seq = I.as_seq(ctx, lst)

    def key(j):
        return strings.iso_key(I.getattr(ctx, seq.elem(j), "instant_str"))

    def val(j):
        return pv(I, I.getattr(ctx, seq.elem(j), "value"))
    return B._z(seq.length), key, val


def undefined_at(n, key, d):
    """no entry on or before d (for a strictly decreasing history: the last key is the smallest)"""
    return z3.Or(n == 0, key(n - 1) > d)


def selects(n, key, d, k):
    """entry k is the first one with key <= d"""
    return z3.And(0 <= k, k < n, key(k) <= d, z3.Or(k == 0, key(k - 1) > d))


def enc_history(h, ev, limit=40):
    n = ev(h.n)
    none = ev(PNONE)
    ids = {}
    out = []
    for x in range(min(n, limit)):
        v = ev(h.V(z3.IntVal(x)))
        out.append([ev(h.K(z3.IntVal(x))), None if v == none else 100 + ids.setdefault(v, len(ids))])
    return out, n, ids, none


def enc_newval(ev, term, ids, none, allowed_):
    v = ev(term)
    if v == none:
        return None
    if not allowed_:
        return {"t": "dict", "v": {}}
    return 100 + ids.setdefault(v, len(ids))


REPLAY = "import sys; sys.path.insert(0, '/verif/native')\nimport c06_replay\noutcome = c06_replay.run(call['mode'], call['history'], call['args'])\n"


def judge(nat, refusal=None):
    if nat.get("kind") == "harness-error":
        return "undecided", str(nat)[:300]
    if refusal is not None:
        if nat["kind"] == "raise" and refusal in nat.get("mro", []):
            return "satisfies", "refused"
        return "violates", "expected " + refusal + ", got " + str(nat)[:200]
    if nat["kind"] == "raise":
        return "violates", "raised " + nat.get("exc", "") + ": " + nat.get("msg", "")
    return ("satisfies", "all probe dates agree") if nat["value"].get("ok") else ("violates", str(nat["value"])[:400])


def mk_parameter(I, values_list, name="p"):
    cls = I.resolve_qualified(PARAM)
    o = Obj(cls, {"name": name, "values_list": values_list, "file_path": None, "metadata": DictVal(),
                  "description": None, "documentation": None})
    o.fields["values_history"] = o
    return o


# ----------------------------------------------------------------------
class InstantStr(Contract):
    name = f"{INST}.__str__"
    prop = ("C06", "C05")
    descr = "an instant prints as its ISO date (module cache keeps that invariant)"

    def setup(self, I, ctx, case):
        inst, (y, m, d) = sym_instant(I, ctx, "s")
        return {"self": inst}

    def requires(self, I, ctx, a):
        return [("valid-instant", cal.valid(*ymd(a["self"])))]

    def outcomes(self, I, ctx, a, old):
        y, m, d = ymd(a["self"])
        return ("return", IsoStr(y, m, d))

    def post(self, I, ctx, a, out, old):
        y, m, d = ymd(a["self"])
        if out[0] != "return" or not isinstance(out[1], IsoStr):
            return [("returns-iso-date-text", False)]
        return [("text-is-iso-date-of-the-instant", B._z(out[1].key) == y * 10000 + m * 100 + d)]

    def call_descriptor(self, I, case, a, ev):
        return {"callee": self.name, "script": "from openfisca_core import periods\n"
                "i = periods.Instant(tuple(call['inst']))\n"
                "outcome = {'kind': 'return', 'value': {'ok': str(i) == '%04d-%02d-%02d' % tuple(call['inst']), 'got': str(i)}}\n",
                "inst": ev_instant(ev, a["self"])}

    def judge_native(self, I, case, call, nat):
        if nat.get("kind") == "return":
            return ("satisfies", "") if nat["value"]["ok"] else ("violates", f"str() gave {nat['value']['got']}")
        return "violates", str(nat)[:300]


def str_cache_model(I):
    """ghost model of periods.config.str_by_instant_cache: invariant cache[i] == ISO text of i"""
    from pyvc.values import Builtin
    from pyvc.interp import _MISSING

    def get(ctx, key, default=None):
        y, m, d = ymd(key)
        if ctx.choose([z3.BoolVal(True), z3.BoolVal(True)]) == 0:
            return default
        return IsoStr(y, m, d)

    def setitem(ctx, key, value):
        y, m, d = ymd(key)
        ok = isinstance(value, IsoStr)
        ctx.oblige("str-cache-invariant", z3.And(z3.BoolVal(ok), B._z(value.key) == y * 10000 + m * 100 + d) if ok else z3.BoolVal(False),
                   kind="invariant")

    def ga(ctx, name):
        if name == "get":
            return Builtin("str_cache.get", get)
        return _MISSING
    return Opaque(None, "str_by_instant_cache", {"getattr": ga, "setitem": setitem})


# ----------------------------------------------------------------------
class PaiInit(Contract):
    name = f"{PAI}.__init__"
    prop = ("C06",)
    cases = ("value-dict", "bare-value")
    descr = "a dated entry stores its date text and its value; values of a type outside the allowed ones are refused"
    inline = ("openfisca_core.parameters.helpers.*", f"{PAI}.validate")

    def setup(self, I, ctx, case):
        cls = pai_cls(I)
        v = mk_pval(I, ctx.fresh_const("val", PVAL))
        for f in none_typing():
            ctx.assume(f)
        key = ctx.fresh_int("key")
        if case == "value-dict":
            data = DictVal()
            data.items[("c", "value")] = v
            data.keyvals[("c", "value")] = "value"
        else:
            data = v
            ctx.assume(z3.Not(TYPEIS(v.e, 5)))
        return {"self": Obj(cls), "name": "p[..]", "instant_str": IsoStr(key=key), "data": data, "file_path": None,
                "metadata": None}

    def _value(self, a):
        d = a["data"]
        if isinstance(d, DictVal):
            return d.items.get(("c", "value"))
        return d

    def outcomes(self, I, ctx, a, old):
        v = self._value(a)
        vt = pv(I, v)
        if not isinstance(a["data"], DictVal) and not isinstance(a["data"], Opaque):
            raise Unsupported("ParameterAtInstant data shape")
        if ctx.branch(allowed(vt)):
            o = a["self"]
            o.fields.update({"name": a["name"], "instant_str": a["instant_str"], "file_path": a.get("file_path"),
                             "metadata": DictVal(), "value": mk_pval(I, vt)})
            return ("return", None)
        if isinstance(a["data"], Opaque):
            raise Unsupported("bare value of a disallowed type")
        return ("raise", ExcVal(I.resolve_qualified("openfisca_core.errors.parameter_parsing_error.ParameterParsingError")))

    def post(self, I, ctx, a, out, old):
        vt = pv(I, self._value(a))
        if out[0] == "raise":
            return [("refused-only-for-disallowed-type", z3.Not(allowed(vt)))]
        o = a["self"]
        if "value" not in o.fields or "instant_str" not in o.fields:
            return [("fields-set", False)]
        return [("value-allowed", allowed(vt)), ("value-stored", pv(I, o.fields["value"]) == vt),
                ("date-stored", strings.iso_key(o.fields["instant_str"]) == strings.iso_key(a["instant_str"]))]


# ----------------------------------------------------------------------
class ParamGetAtInstant(Contract):
    name = f"{PARAM}._get_at_instant"
    loop_heads = {0: 'for value_at_instant in self.values_list'}
    prop = ("C06",)
    top_level = True
    cases = (None, "read-before-and-the-history-replaced-by-one-as-long")
    descr = ("value at a date = value of the most recent entry on or before it; undefined (None) before the first entry - of the "
             "history the parameter has at the time of the read, also when it was read before and its history has been replaced "
             "since by another one with as many entries (what Parameter.update does when it moves a date)")

    def setup(self, I, ctx, case):
        h = History(I, ctx)
        ctx.ghost["H"] = h
        d = ctx.fresh_int("d")
        ctx.assume(z3.And(d >= 10000101, d <= 99991231))
        param = mk_parameter(I, SymList(h.seq))
        if case is not None:
            h0 = History(I, ctx, tag="H_before")
            ctx.assume(h0.n == h.n)
            param.fields["values_list"] = SymList(h0.seq)
            d0 = ctx.fresh_int("d_before")
            ctx.assume(z3.And(d0 >= 10000101, d0 <= 99991231))
            ctx.ghost["H"] = h0
            f, _ = self.target(I)
            ctx.depth += 1
            try:
                I.inline_call(ctx, f, [], {"self": param, "instant": IsoStr(key=d0)})
            finally:
                ctx.depth -= 1
            ctx.ghost["H"] = h
            param.fields["values_list"] = SymList(h.seq)        # update() rebinds values_list to a new list
        return {"self": param, "instant": IsoStr(key=d), "__H": h}

    def _inv(self, ctx, I, vars):
        n, key, val = view(I, ctx, vars["self"].fields["values_list"])
        d = strings.iso_key(vars["instant"])
        k = B.zint(vars["__k0"])
        j = z3.Int("j_inv")
        return [("index-in-range", z3.And(k >= 0, k <= n)),
                ("no-earlier-entry-on-or-before-the-date", z3.ForAll([j], z3.Implies(z3.And(0 <= j, j < k), key(j) > d)))]

    @property
    def loops(self):
        return {0: LoopSpec(self._inv, lambda ctx, I, vars: None)}

    def outcomes(self, I, ctx, a, old):
        n, key, val = view(I, ctx, a["self"].fields["values_list"])
        r = ctx.fresh_const("pv_at", PVAL)
        return ("return", mk_pval(I, r))

    def post(self, I, ctx, a, out, old):
        if out[0] != "return":
            return [("no-exception", False)]
        n, key, val = view(I, ctx, a["self"].fields["values_list"])
        d = strings.iso_key(a["instant"])
        r = pv(I, out[1])
        k = ctx.fresh_int("k_sel")
        return [("undefined-before-the-first-entry", z3.Implies(undefined_at(n, key, d), r == PNONE)),
                ("value-of-the-latest-entry-on-or-before", z3.Implies(selects(n, key, d, k), r == val(k)))]

    def call_descriptor(self, I, case, a, ev):
        hist, n, ids, none = enc_history(a["__H"], ev)
        return {"callee": self.name, "script": REPLAY, "mode": "get", "history": hist,
                "args": {"d": ev(strings.iso_key(a["instant"]))}}

    def judge_native(self, I, case, call, nat):
        return judge(nat)


def wf_lemmas(timeout_ms):
    """contract-level lemmas linking the quantifier-free selectors to the statement (no code involved)"""
    recs = []
    n, d, k, j = z3.Ints("n d k j")
    K = z3.Function("K_l", z3.IntSort(), z3.IntSort())
    a, b = z3.Ints("a b")
    wf = z3.ForAll([a, b], z3.Implies(z3.And(0 <= a, a < b, b < n), K(a) > K(b)), patterns=[z3.MultiPattern(K(a), K(b))])
    key = lambda x: K(x)
    lemmas = [
        ("selected-entry-is-the-most-recent-on-or-before",
         [wf, selects(n, key, d, k), 0 <= j, j < n, K(j) <= d], K(j) <= K(k)),
        ("undefined-iff-no-entry-on-or-before",
         [wf, n >= 0, 0 <= j, j < n, undefined_at(n, key, d)], K(j) > d),
        ("defined-means-some-entry-on-or-before",
         [wf, n >= 0, z3.Not(undefined_at(n, key, d))], z3.And(n >= 1, K(n - 1) <= d)),
        ("at-most-one-selected-entry",
         [wf, selects(n, key, d, k), selects(n, key, d, j)], k == j),
    ]
    for name, hyps, goal in lemmas:
        verdict, backend, model, dt = smt.prove(hyps, goal, timeout_ms=timeout_ms)
        recs.append({"name": "lemma." + name, "where": "contracts/c06_parameters.py", "kind": "lemma", "verdict": verdict,
                     "backend": backend, "time": round(dt, 4), "contract": "c06-lemmas", "case": "None"})
    return recs


# ----------------------------------------------------------------------
class ParamUpdate(Contract):
    name = f"{PARAM}.update"
    loop_heads = {0: 'while i < n and old_values[i].instant_str >= stop_str',
                  1: 'while i < n and old_values[i].instant_str >= start_str',
                  2: 'while i < n'}
    prop = ("C06", "C14")
    top_level = True
    cases = tuple(("period", u) for u in DATED_UNITS) + ("start-stop", "start-only", "period-and-start", "period-and-stop", "nothing", "stop-only")
    descr = ("update makes the parameter equal to the new value on every date of the range and leaves its value on every "
             "other date unchanged; the history stays strictly decreasing; the two argument errors are refused")
    inline = ("openfisca_core.parameters.helpers._compose_name",)

    def setup(self, I, ctx, case):
        h = History(I, ctx)
        ctx.ghost["H"] = h
        value = mk_pval(I, ctx.fresh_const("newval", PVAL))
        a = {"self": mk_parameter(I, SymList(h.seq)), "period": None, "start": None, "stop": None, "value": value, "__H": h}
        if isinstance(case, tuple):
            a["period"] = sym_period(I, ctx, case[1])
            ctx.assume(ymd(a["period"].items[1])[0] >= 1000)
        if case in ("start-stop", "start-only", "period-and-start"):
            a["start"], (y, m, d) = sym_instant(I, ctx, "a")
            ctx.assume(y >= 1000)
        if case in ("start-stop", "period-and-stop", "stop-only"):
            a["stop"], (y, m, d) = sym_instant(I, ctx, "b")
            ctx.assume(z3.And(y >= 1000, y <= 9990))
        if case == "start-stop":
            ctx.assume(ORD(a["start"]) <= ORD(a["stop"]))
        if case in ("period-and-start", "period-and-stop"):
            a["period"] = sym_period(I, ctx, "month")
        return a

    # ---- loop invariants (DESIGN 2.4: definitional for the list under construction) -------------
    def _old(self, ctx, I, vars):
        return view(I, ctx, vars["old_values"])

    def _inv0(self, ctx, I, vars):
        n, key, val = self._old(ctx, I, vars)
        i = B.zint(vars["i"])
        e = strings.iso_key(vars["stop_str"])
        j = z3.Int("j_inv0")
        return [("index-in-range", z3.And(i >= 0, i <= n)),
                ("copied-prefix", seq_equal(I, ctx, vars["new_values"], B.getslice(I, ctx, vars["old_values"], ("slice", None, vars["i"], None)))),
                ("copied-entries-are-after-the-range", z3.ForAll([j], z3.Implies(z3.And(0 <= j, j < i), key(j) >= e)))]

    def _havoc0(self, ctx, I, vars):
        i = ctx.fresh_int("i0")
        vars["i"] = Sym(i)
        vars["new_values"] = B.getslice(I, ctx, vars["old_values"], ("slice", None, vars["i"], None))

    def _inv1(self, ctx, I, vars):
        n, key, val = self._old(ctx, I, vars)
        i = B.zint(vars["i"])
        i_in = B.zint(vars.get("__entry_i1", vars["i"]))
        s = strings.iso_key(vars["start_str"])
        j = z3.Int("j_inv1")
        return [("index-in-range", z3.And(i >= i_in, i <= n)),
                ("skipped-entries-are-inside-or-after-the-range-start",
                 z3.ForAll([j], z3.Implies(z3.And(i_in <= j, j < i), key(j) >= s)))]

    def _havoc1(self, ctx, I, vars):
        vars["__entry_i1"] = vars["i"]
        vars["i"] = Sym(ctx.fresh_int("i1"))

    def _inv2(self, ctx, I, vars):
        n, key, val = self._old(ctx, I, vars)
        i = B.zint(vars["i"])
        i_in = B.zint(vars.get("__entry_i2", vars["i"]))
        prefix = vars.get("__entry_new2", vars["new_values"])
        want = B.seq_concat(I.as_seq(ctx, prefix),
                            I.as_seq(ctx, B.getslice(I, ctx, vars["old_values"], ("slice", vars.get("__entry_i2", vars["i"]), vars["i"], None))))
        return [("index-in-range", z3.And(i >= i_in, i <= n)),
                ("kept-suffix-copied", seq_equal(I, ctx, vars["new_values"], want))]

    def _havoc2(self, ctx, I, vars):
        vars["__entry_i2"] = vars["i"]
        cur = vars["new_values"]
        vars["__entry_new2"] = SymList(I.as_seq(ctx, cur)) if not isinstance(cur, SymList) else SymList(cur.seq)
        vars["i"] = Sym(ctx.fresh_int("i2"))
        want = B.seq_concat(I.as_seq(ctx, vars["__entry_new2"]),
                            I.as_seq(ctx, B.getslice(I, ctx, vars["old_values"], ("slice", vars["__entry_i2"], vars["i"], None))))
        vars["new_values"] = SymList(want)

    @property
    def loops(self):
        return {0: LoopSpec(self._inv0, self._havoc0), 1: LoopSpec(self._inv1, self._havoc1),
                2: LoopSpec(self._inv2, self._havoc2)}

    def _range(self, I, a):
        """(s, e): keys with s <= d < e inside the range (e None = open ended)"""
        if a["period"] is not None:
            p = a["period"]
            u, st, n = period_parts(p)
            return st, ("period", p)
        return a["start"], a["stop"]

    def post(self, I, ctx, a, out, old):
        has_p, has_s, has_e = a["period"] is not None, a["start"] is not None, a["stop"] is not None
        if has_p and (has_s or has_e):
            return [("period-with-start-or-stop-refused", raised(out, I, "TypeError"))]
        if not has_p and not has_s:
            return [("missing-start-refused", raised(out, I, "ValueError"))]
        h = ctx.ghost["H"]
        if out[0] == "raise":
            return [("refused-only-for-a-value-of-disallowed-type", z3.Not(allowed(pv(I, a["value"]))))]
        n, key, val = h.n, (lambda x: h.K(x)), (lambda x: h.V(x))
        n2, key2, val2 = view(I, ctx, a["self"].fields["values_list"])
        start, stop = self._range(I, a)
        sy, sm, sd = ymd(start)
        s = sy * 10000 + sm * 100 + sd
        res = [("value-type-allowed", allowed(pv(I, a["value"])))]
        if stop is None:
            e = None
        else:
            # first date after the range
            if isinstance(stop, tuple):
                # the range of a period is [period.start, period.stop]: period.stop enters through its C04 contract
                # (modular: "stop is the period's last day" is proved there, not again here)
                rets = [o for (nm, aa, o) in ctx.ghost.get("callee_outcomes", []) if nm.endswith("Period.stop") and o[0] == "return"]
                if not rets:
                    return res + [("range-end-is-period-stop", False)]
                last = ORD(rets[-1][1])
            else:
                last = ORD(stop)
            ey, em, ed = ctx.fresh_int("ey"), ctx.fresh_int("em"), ctx.fresh_int("ed")
            nxt = z3.And(cal.valid(ey, em, ed), cal.ordinal(ey, em, ed) == last + 1)
            e = ey * 10000 + em * 100 + ed
        d = ctx.fresh_int("d")
        k, k2, i, j = ctx.fresh_int("k"), ctx.fresh_int("k2"), ctx.fresh_int("wi"), ctx.fresh_int("wj")
        pre = nxt if stop is not None else z3.BoolVal(True)
        inside = z3.And(d >= s, d < e) if e is not None else d >= s
        newv = pv(I, a["value"])

        def imp(*hyps_goal):
            *hs, g = hyps_goal
            return z3.Implies(z3.And(pre, *hs), g)
        res.append(("history-stays-strictly-decreasing", imp(0 <= i, i < j, j < n2, key2(i) > key2(j))))
        res.append(("defined-on-the-range", imp(inside, z3.Not(undefined_at(n2, key2, d)))))
        res.append(("new-value-on-every-date-of-the-range", imp(inside, selects(n2, key2, d, k2), val2(k2) == newv)))
        # the observable value conflates "no entry" and "null entry" (both read as None): DESIGN 9, false alarm 1
        res.append(("undefined-outside-the-range-only-where-it-read-None-before",
                    imp(z3.Not(inside), undefined_at(n2, key2, d), selects(n, key, d, k), val(k) == PNONE)))
        res.append(("null-entry-outside-the-range-only-where-it-was-undefined-or-null",
                    imp(z3.Not(inside), undefined_at(n, key, d), selects(n2, key2, d, k2), val2(k2) == PNONE)))
        res.append(("value-unchanged-on-every-date-outside-the-range",
                    imp(z3.Not(inside), selects(n, key, d, k), selects(n2, key2, d, k2), val2(k2) == val(k))))
        return res

    def call_descriptor(self, I, case, a, ev):
        hist, n, ids, none = enc_history(a["__H"], ev)
        ok = ev(allowed(pv(I, a["value"])))
        args = {"period": enc_period(ev, a["period"]) if a["period"] is not None else None,
                "start": ev_instant(ev, a["start"]) if a["start"] is not None else None,
                "stop": ev_instant(ev, a["stop"]) if a["stop"] is not None else None,
                "value": enc_newval(ev, pv(I, a["value"]), ids, none, ok is True)}
        return {"callee": self.name, "script": REPLAY, "mode": "update", "history": hist, "args": args,
                "value_allowed": ok is True}

    def judge_native(self, I, case, call, nat):
        ar = call["args"]
        if ar["period"] is not None and (ar["start"] is not None or ar["stop"] is not None):
            return judge(nat, "TypeError")
        if ar["period"] is None and ar["start"] is None:
            return judge(nat, "ValueError")
        if not call.get("value_allowed", True):
            return judge(nat, "ParameterParsingError")
        return judge(nat)


class AtInstantGet(Contract):
    name = f"{AIL}.get_at_instant"
    prop = ("C06", "C07")
    top_level = True
    cases = ("get_at_instant", "__call__", "iso-date-text", "iso-week-date-text", "month-text")
    TEXTS = {"iso-date-text": ("2015-06-08", (2015, 6, 8)), "iso-week-date-text": ("2015-W24-1", (2015, 6, 8)), "month-text": ("2015-06", (2015, 6, 1))}
    descr = ("reading a parameter at an instant reads its history at the ISO text of that instant - whatever spelling the instant "
             "is given in (an instant, an ISO date, an ISO week date, a month)")
    inline = (f"{AIL}.get_at_instant", "openfisca_core.periods.helpers.instant*", "openfisca_core.periods._parsers.*", "openfisca_core.types.*")

    def target(self, I):
        return super().target(I)

    def setup(self, I, ctx, case):
        h = History(I, ctx)
        if case in self.TEXTS:
            text, (y, m, d) = self.TEXTS[case]
            return {"self": mk_parameter(I, SymList(h.seq)), "instant": text, "__H": h, "__case": case, "__ymd": (y, m, d)}
        inst, (y, m, d) = sym_instant(I, ctx, "q")
        ctx.assume(y >= 1000)
        return {"self": mk_parameter(I, SymList(h.seq)), "instant": inst, "__H": h, "__case": case}

    def post(self, I, ctx, a, out, old):
        calls = [(aa, o) for (nm, aa, o) in ctx.ghost.get("callee_outcomes", []) if nm.endswith("Parameter._get_at_instant")]
        if out[0] != "return" or len(calls) != 1 or calls[0][1][0] != "return":
            return [("reads-the-history-once", False)]
        aa, o = calls[0]
        if "__ymd" in a:
            y, m, d = a["__ymd"]
            got = aa["instant"]
            same = (got == "%04d-%02d-%02d" % (y, m, d)) if isinstance(got, str) else (strings.iso_key(got) == cal.iso_key(z3.IntVal(y), z3.IntVal(m), z3.IntVal(d)))
            return [("history-read-at-the-iso-text-of-the-instant-denoted", same), ("same-parameter", z3.BoolVal(aa["self"] is a["self"])),
                    ("returns-what-the-history-gives", pv(I, out[1]) == pv(I, o[1]))]
        y, m, d = ymd(a["instant"])
        return [("history-read-at-the-iso-text-of-the-instant", strings.iso_key(aa["instant"]) == cal.iso_key(y, m, d)),
                ("same-parameter", z3.BoolVal(aa["self"] is a["self"])),
                ("returns-what-the-history-gives", pv(I, out[1]) == pv(I, o[1]))]


def _spelling_probes(self, case):
    return [{"callee": self.name, "script": REPLAY, "mode": "spellings", "history": h, "args": {}}
            for h in ([[20160101, 0.2], [20150601, 0.3], [20100101, 0.5]], [[20200229, 1], [20191230, 2], [20150608, 3]])]


AtInstantGet.probes = _spelling_probes
AtInstantGet.judge_native = lambda self, I, case, call, nat: judge(nat)


class AtInstantCall(AtInstantGet):
    name = f"{AIL}.__call__"
    cases = (None,)
    TEXTS = {}
    top_level = False
    descr = "calling a parameter with an instant is get_at_instant"


NODE = "openfisca_core.parameters.parameter_node.ParameterNode"


def dict_of6(pairs):
    from pyvc.interp import hkey
    d = DictVal()
    for k, v in pairs:
        d.items[hkey(k)] = v
        d.keyvals[hkey(k)] = k
    return d


class NodeGetAtInstant(Contract):
    """a group evaluated at a date is a group view built from the group as it is at the time of the call"""
    name = f"{NODE}._get_at_instant"
    prop = ("C06",)
    top_level = True
    cases = ("first-read", "read-again-after-a-member-was-updated")
    descr = ("evaluating a group at a date builds its view from the group's current members every time - also when the same date was "
             "read before and a member's history has been replaced since (Parameter.update rebinds values_list), so that a read "
             "after an update shows the update")

    def setup(self, I, ctx, case):
        from .c18_engine import rec
        h = History(I, ctx)
        member = mk_parameter(I, SymList(h.seq), name="group.member")
        node = Obj(I.resolve_qualified(NODE), {"name": "group", "children": dict_of6([("member", member)]), "member": member,
                                              "metadata": DictVal(), "description": None, "documentation": None, "file_path": None}, label="group")
        inst = IsoStr(key=ctx.fresh_int("date_key"))
        a = {"self": node, "instant": inst, "__member": member, "__case": case}
        if case != "first-read":
            # history: the same date read once, then the member's history replaced (what Parameter.update does)
            f, _ = self.target(I)
            ctx.depth += 1
            saved = dict(I.contracts)
            try:
                I.contracts[NODE_AT + ".__init__"] = rec(NODE_AT + ".__init__", "view_init", [("return", None)])
                a["__earlier"] = I.inline_call(ctx, f, [], {"self": node, "instant": inst})
            finally:
                I.contracts = saved
                ctx.depth -= 1
            h2 = History(I, ctx)
            member.fields["values_list"] = SymList(h2.seq)
        return a

    @staticmethod
    def local_contracts():
        from .c18_engine import rec
        return {NODE_AT + ".__init__": rec(NODE_AT + ".__init__", "view_init", [("return", None)])}

    def post(self, I, ctx, a, out, old):
        from .c18_engine import log_of
        if "__case" not in a:
            return []            # used as a call-site contract
        inits = log_of(ctx, "view_init")
        want = 1 if a["__case"] == "first-read" else 2
        if out[0] != "return" or not isinstance(out[1], Obj):
            return [("returns-a-view", False)]
        res = [("a-view-is-built-by-this-call", len(inits) == want)]
        if len(inits) != want:
            return res
        c = inits[-1]["args"]
        res += [("built-from-this-group-at-this-date", c.get("node") is a["self"] and c.get("instant_str") is a["instant"]),
                ("the-view-built-by-this-call-is-returned", out[1] is c.get("self"))]
        if a["__case"] != "first-read":
            res.append(("not-the-view-built-before-the-update", out[1] is not a["__earlier"]))
        return res

    def outcomes(self, I, ctx, a, old):
        cls = I.resolve_qualified(NODE_AT)
        return ("return", Obj(cls, {"_name": a["self"].fields.get("name"), "_instant_str": a["instant"], "_children": DictVal(),
                                    "__of": a["self"]}))


SCALE = "openfisca_core.parameters.parameter_scale.ParameterScale"
KINDS = (("single_amount", "amount", "SingleAmountTaxScale"), ("marginal_amount", "amount", "MarginalAmountTaxScale"),
         ("average_rate", "average_rate", "LinearAverageRateTaxScale"), ("marginal_rate", "rate", "MarginalRateTaxScale"))


class ScaleGetAtInstant(Contract):
    name = f"{SCALE}._get_at_instant"
    prop = ("C06",)
    top_level = True
    cases = tuple(k[0] for k in KINDS)
    descr = ("a scale evaluated at a date is the scale of its kind holding one bracket per bracket whose threshold and value are both "
             "defined at that date, with those values, in order - whichever of its brackets are defined at that date")

    def setup(self, I, ctx, case):
        kind, key, _ = [k for k in KINDS if k[0] == case][0]
        views = []
        for b in range(3):
            has_t, has_v = ctx.fresh_bool("b%d_has_threshold" % b), ctx.fresh_bool("b%d_has_%s" % (b, key))
            tv, vv = Sym(ctx.fresh_real("b%d_threshold" % b)), Sym(ctx.fresh_real("b%d_%s" % (b, key)))
            pres = {"threshold": (has_t, tv), key: (has_v, vv)}
            children = B.MapVal(lambda q, pres=pres: pres.get(B.enum_str(q), (z3.BoolVal(False), None)) if isinstance(B.enum_str(q), str) else (z3.BoolVal(False), None), "children")
            view = Opaque(None, "bracket-at-instant", {"fields": {"_children": children, "threshold": tv, key: vv}})
            views.append({"view": view, "has": z3.And(has_t, has_v), "t": tv, "v": vv})
        ctx.ghost["views"] = views
        brackets = ListVal([Opaque(None, "bracket%d" % b, {"getattr": (lambda ctx2, n, b=b: Builtin("get_at_instant", lambda ctx3, inst: ctx.ghost["views"][b]["view"]) if n == "get_at_instant" else None)})
                            for b in range(3)])
        md = DictVal()
        if case == "single_amount":
            from pyvc.interp import hkey
            md.items[hkey("type")] = "single_amount"
            md.keyvals[hkey("type")] = "type"
        scale = Obj(I.resolve_qualified(SCALE), {"brackets": brackets, "metadata": md, "name": "scale"}, label="scale")
        return {"self": scale, "instant": IsoStr(key=ctx.fresh_int("date_key")), "__case": case}

    @staticmethod
    def local_contracts():
        from .c18_engine import rec
        out = {}
        for mod, cls in (("single_amount_tax_scale", "SingleAmountTaxScale"), ("marginal_amount_tax_scale", "MarginalAmountTaxScale"),
                         ("linear_average_rate_tax_scale", "LinearAverageRateTaxScale"), ("marginal_rate_tax_scale", "MarginalRateTaxScale")):
            pass
        RL = "openfisca_core.taxscales.rate_tax_scale_like.RateTaxScaleLike.add_bracket"
        AL = "openfisca_core.taxscales.amount_tax_scale_like.AmountTaxScaleLike.add_bracket"
        out[RL] = rec(RL, "add_bracket", [("return", None)])
        out[AL] = rec(AL, "add_bracket", [("return", None)])
        return out

    def post(self, I, ctx, a, out, old):
        from .c18_engine import log_of
        kind, key, clsname = [k for k in KINDS if k[0] == a["__case"]][0]
        views = ctx.ghost["views"]
        if out[0] != "return" or not isinstance(out[1], Obj):
            return [("returns-a-scale", False)]
        adds = log_of(ctx, "add_bracket")
        any_value = z3.Or(*[B._zb(v["view"].attrs["fields"]["_children"].lookup(key)[0]) for v in views])
        res = []
        # which kind: by the type given, else by what the brackets define at that date (any of them)
        if kind in ("marginal_amount", "average_rate"):
            res.append(("kind-of-scale-follows-what-the-brackets-define", z3.Implies(any_value, z3.BoolVal(out[1].cls.name == clsname))))
            if out[1].cls.name != clsname:
                return res
        else:
            res.append(("kind-of-scale", out[1].cls.name == clsname))
        res.append(("brackets-go-to-the-scale-returned", all(c["args"]["self"] is out[1] for c in adds)))
        # the brackets added are exactly the defined ones, in order, with their values: compare position by position
        n = len(adds)
        defined = [v["has"] for v in views]
        count = sum([z3.If(d, 1, 0) for d in defined])
        res.append(("one-bracket-per-bracket-defined-at-that-date", count == n))
        for pos, c in enumerate(adds):
            th = c["args"].get("threshold")
            val = c["args"].get("rate", c["args"].get("amount"))
            alts = []
            for b, v in enumerate(views):
                before = sum([z3.If(d, 1, 0) for d in defined[:b]]) if b else z3.IntVal(0)
                alts.append(z3.And(v["has"], before == pos, B.zreal(th) == B.zreal(v["t"]), B.zreal(val) == B.zreal(v["v"])))
            res.append((f"bracket-{pos + 1}-added-is-the-{pos + 1}th-defined-one-with-its-threshold-and-value", z3.Or(*alts)))
        return res


class NodeAtInstantInit(Contract):
    name = f"{NODE_AT}.__init__"
    prop = ("C06",)
    top_level = True
    cases = ("two-parameters-and-a-subgroup",)
    descr = ("a parameter group evaluated at a date exposes exactly its members that are defined at that date, each with "
             "its own value at that date (member loop unrolled for a group of three members)")
    inline = (f"{NODE_AT}.add_child",)

    def setup(self, I, ctx, case):
        ncls = I.resolve_qualified(NODE)
        children = DictVal()
        hs = {}
        for nm in ("alpha", "beta"):
            h = History(I, ctx, tag=nm)
            hs[nm] = h
            children.items[("c", nm)] = mk_parameter(I, SymList(h.seq), name="root." + nm)
            children.keyvals[("c", nm)] = nm
        sub = Obj(ncls, {"name": "root.sub", "children": DictVal()})
        children.items[("c", "sub")] = sub
        children.keyvals[("c", "sub")] = "sub"
        node = Obj(ncls, {"name": "root", "children": children})
        d = ctx.fresh_int("d")
        ctx.assume(z3.And(d >= 10000101, d <= 99991231))
        return {"self": Obj(I.resolve_qualified(NODE_AT)), "name": "root", "node": node, "instant_str": IsoStr(key=d), "__H": hs}

    def post(self, I, ctx, a, out, old):
        if out[0] != "return":
            return [("no-exception", False)]
        me = a["self"]
        ch = me.fields.get("_children")
        if not isinstance(ch, DictVal):
            return [("children-table-built", False)]
        res = []
        reads = {id(aa["self"]): o for (nm, aa, o) in ctx.ghost.get("callee_outcomes", []) if nm.endswith("._get_at_instant")}
        for hk, child in a["node"].fields["children"].items.items():
            nm = a["node"].fields["children"].keyvals[hk]
            o = reads.get(id(child))
            if o is None or o[0] != "return":
                res.append((f"member-{nm}-read-at-the-date", False))
                continue
            v = o[1]
            exposed = hk in ch.items
            if isinstance(v, Obj):
                res.append((f"subgroup-{nm}-exposed", exposed and ch.items[hk] is v and me.fields.get(nm) is v))
                continue
            defined = pv(I, v) != PNONE
            res.append((f"member-{nm}-exposed-iff-defined-at-the-date", defined == z3.BoolVal(exposed)))
            if exposed:
                res.append((f"member-{nm}-exposed-with-its-value-at-the-date",
                            z3.And(pv(I, ch.items[hk]) == pv(I, v), pv(I, me.fields.get(nm)) == pv(I, v))))
        res.append(("nothing-else-exposed", all(hk in a["node"].fields["children"].items for hk in ch.items)))
        return res


class ParamInit(Contract):
    name = f"{PARAM}.__init__"
    prop = ("C06",)
    top_level = True
    cases = ("shuffled-with-null-and-expected", "values-form")
    descr = ("a parameter built from dated entries in any order holds them newest first, keeps null values and skips "
             "'expected' placeholders (bounded: a document of five entries)")
    inline = ("openfisca_core.parameters.helpers.*",)

    DATES = ["2015-01-01", "2019-06-01", "2012-03-15", "2021-01-01", "2017-12-31"]

    def setup(self, I, ctx, case):
        for f in none_typing():
            ctx.assume(f)
        doc = DictVal()
        vals = {}

        def put(k, v):
            doc.items[("c", k)] = v
            doc.keyvals[("c", k)] = k
        for idx, dte in enumerate(self.DATES):
            if idx == 3:
                put(dte, "expected")
                continue
            inner = DictVal()
            if idx == 4:
                inner.items[("c", "expected")] = True
                inner.keyvals[("c", "expected")] = "expected"
                put(dte, inner)
                continue
            v = None if idx == 2 else mk_pval(I, ctx.fresh_const("v%d" % idx, PVAL))
            if v is not None:
                ctx.assume(allowed(v.e))
            vals[dte] = v
            inner.items[("c", "value")] = v
            inner.keyvals[("c", "value")] = "value"
            put(dte, inner)
        data = doc
        if case == "values-form":
            data = DictVal()
            data.items[("c", "values")] = doc
            data.keyvals[("c", "values")] = "values"
            data.items[("c", "description")] = "d"
            data.keyvals[("c", "description")] = "description"
        return {"self": Obj(I.resolve_qualified(PARAM)), "name": "p", "data": data, "file_path": None, "__vals": vals}

    def post(self, I, ctx, a, out, old):
        if out[0] != "return":
            return [("no-exception", False)]
        vl = a["self"].fields.get("values_list")
        if not isinstance(vl, ListVal):
            return [("history-built", False)]
        want = sorted(a["__vals"], reverse=True)
        got = [I.getattr(ctx, e, "instant_str") for e in vl.items]
        res = [("placeholders-skipped-and-newest-first", got == want)]
        if got == want:
            for e, dte in zip(vl.items, want):
                res.append((f"value-kept-{dte}", pv(I, I.getattr(ctx, e, "value")) == pv(I, a["__vals"][dte])))
        return res


def seq_equal(I, ctx, a, b):
    """formula: two sequences have the same length and the same elements (Skolem index)"""
    sa, sb = I.as_seq(ctx, a), I.as_seq(ctx, b)
    la, lb = B._z(sa.length), B._z(sb.length)
    if isinstance(sa.length, int) and isinstance(sb.length, int):
        if sa.length != sb.length:
            return z3.BoolVal(False)
        fs = [B._zb(B.eq_formula(I, ctx, sa.elem(x), sb.elem(x))) for x in range(sa.length)]
        return z3.And(*fs) if fs else z3.BoolVal(True)
    for x, y in ((sa, sb), (sb, sa)):
        if isinstance(x.length, int):
            fs = [B._zb(B.eq_formula(I, ctx, x.elem(t), y.elem(t))) for t in range(x.length)]
            return z3.And(la == lb, *fs)
    j = z3.Int(ctx.fresh_name("j_eq"))
    body = B._zb(B.eq_formula(I, ctx, sa.elem(j), sb.elem(j)))
    return z3.And(la == lb, z3.ForAll([j], z3.Implies(z3.And(0 <= j, j < la), body)))


def lemmas(prop, timeout_ms):
    if prop != "C06":
        return []
    return wf_lemmas(timeout_ms)


def install(I):
    I.overrides[(f"{P}.config", "str_by_instant_cache")] = str_cache_model(I)


CONTRACTS = [ScaleGetAtInstant(), InstantStr(), PaiInit(), ParamGetAtInstant(), ParamUpdate(), AtInstantGet(), AtInstantCall(),
             NodeGetAtInstant(), NodeAtInstantInit(), ParamInit()]
