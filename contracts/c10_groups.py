"""C10 -- group aggregations and projections equal their per-group definitions (DESIGN 4 C10, 3.5).
Population of N persons, `count` groups, eid: [0,N) -> [0,count), roles, arrays; all symbolic. Aggregates are
reduction nodes compared pointwise on (group id, weight) per person."""
from __future__ import annotations

import z3

from pyvc import builtins_ as B
from pyvc import nparr
from pyvc import smt
from pyvc.contract import Contract, LoopSpec
from pyvc.values import Builtin, ClassVal, DictVal, ExcVal, ListVal, Obj, Opaque, SeqVal, Sym, SymList, TupleVal, Unsupported

from .common import *  # noqa
from .c13_clone import dict_of
from .c18_engine import rec, log_of

GPOP = "openfisca_core.populations.group_population.GroupPopulation"
POP = "openfisca_core.populations.population.Population"
CPOP = "openfisca_core.populations._core_population.CorePopulation"
PROJ = "openfisca_core.projectors"


class GWorld:
    def __init__(self, I, ctx, roles=False, infinite=False):
        R = I.resolve_qualified
        self.N = ctx.fresh_int("N")
        self.G = ctx.fresh_int("G")
        ctx.assume(z3.And(self.N >= 0, self.G >= 0))
        self.EID = z3.Function(ctx.fresh_name("EID"), z3.IntSort(), z3.IntSort())
        self.A = z3.Function(ctx.fresh_name("A"), z3.IntSort(), z3.RealSort())
        self.INROLE = z3.Function(ctx.fresh_name("INROLE"), z3.IntSort(), z3.BoolSort())
        i = z3.Int("i_w")
        ctx.assume(z3.ForAll([i], z3.Implies(z3.And(i >= 0, i < self.N), z3.And(self.EID(i) >= 0, self.EID(i) < self.G)),
                             patterns=[self.EID(i)]))
        N, G = self.N, self.G
        self.eid = nparr.NArr(N, lambda j: Sym(self.EID(B._z(j))), "int", "members_entity_id")
        self.array = nparr.NArr(N, lambda j: Sym(self.A(B._z(j))), "float", "person-array")
        if infinite:
            # values may be +infinity (what min over a role nobody holds gives): an extended real per person
            self.ISINF = z3.Function(ctx.fresh_name("IS_INFINITE"), z3.IntSort(), z3.BoolSort())
            self.array = nparr.NArr(N, lambda j: nparr.MaybeInf(self.ISINF(B._z(j)), Sym(self.A(B._z(j)))), "float", "person-array")
        self.role_mask = nparr.NArr(N, lambda j: Sym(self.INROLE(B._z(j))), "bool", "has-role")
        self.entity = Obj(R("openfisca_core.entities.group_entity.GroupEntity"), {"key": "household"}, label="entity")
        self.members = Obj(R(POP), {"count": Sym(N)}, label="persons")
        self.role = Obj(R("openfisca_core.entities.role.Role"), {"subroles": None, "max": None}, label="role") if roles else None
        self.pop = Obj(R(GPOP), {"entity": self.entity, "members": self.members, "count": Sym(G), "_members_entity_id": self.eid,
                                 "_members_position": None, "_members_role": None, "_ordered_members_map": None}, label="households")

    def site_contracts(self):
        w = self
        return {
            "openfisca_core.entities._core_entity.CoreEntity.check_role_validity": rec("openfisca_core.entities._core_entity.CoreEntity.check_role_validity", "check_role", [("return", None)]),
            f"{CPOP}.check_array_compatible_with_entity": rec(f"{CPOP}.check_array_compatible_with_entity", "check_array", [("return", None)]),
            f"{POP}.has_role": rec(f"{POP}.has_role", "has_role", [("return", lambda I, ctx, a: ctx.ghost["gw"].role_mask)]),
        }


def binsum_checks(w, r, with_role):
    """formulas: r is the per-group sum of A over members (in the role)"""
    if not isinstance(r, nparr.BinSum):
        return [("result-is-a-per-group-sum", False)]
    i = z3.Int("i_bs")
    fresh = z3.Int(f"i_sk_{id(r) % 100000}")
    rng = z3.And(fresh >= 0, fresh < w.N)
    if hasattr(w, "ISINF"):
        # extended reals: a person in the role contributes its value, infinite or not; a person outside contributes nothing at all
        wt = r.weights(fresh)
        inrole = w.INROLE(fresh) if with_role else z3.BoolVal(True)
        if isinstance(wt, nparr.MaybeInf):
            same = z3.And(wt.isinf == z3.And(inrole, w.ISINF(fresh)), z3.Implies(z3.Not(wt.isinf), B.zreal(wt.val) == z3.If(inrole, w.A(fresh), 0)))
        else:
            same = z3.And(z3.Not(z3.And(inrole, w.ISINF(fresh))), B.zreal(wt) == z3.If(inrole, w.A(fresh), 0))
        return [("one-element-per-group-of-the-simulation", B._z(r.n) == w.G), ("every-person-is-summed", B._z(r.n_in) == w.N),
                ("each-person-counts-in-its-own-group", z3.Implies(rng, B.zint(r.ids(fresh)) == w.EID(fresh))),
                ("each-person-in-the-role-contributes-its-value-even-an-infinite-one-and-the-others-nothing", z3.Implies(rng, same))]
    want_w = z3.If(w.INROLE(fresh), w.A(fresh), 0) if with_role else w.A(fresh)
    return [("one-element-per-group-of-the-simulation", B._z(r.n) == w.G),
            ("every-person-is-summed", B._z(r.n_in) == w.N),
            ("each-person-counts-in-its-own-group", z3.Implies(rng, B.zint(r.ids(fresh)) == w.EID(fresh))),
            ("each-person-contributes-its-value" + ("-when-in-the-role" if with_role else ""),
             z3.Implies(rng, B.zreal(r.weights(fresh)) == want_w))]


class GroupSum(Contract):
    name = f"{GPOP}.sum"
    prop = ("C10",)
    top_level = True
    cases = ("no-role", "role", "role-values-may-be-infinite")
    descr = ("the sum of a person array per group has one element per group of the simulation and adds exactly the values of the "
             "members of that group (in the role) - members outside the role contribute nothing, whatever their value (an infinite "
             "value outside the role does not reach the sum)")

    def setup(self, I, ctx, case):
        w = GWorld(I, ctx, roles=case.startswith("role"), infinite=case.endswith("infinite"))
        ctx.ghost["gw"] = w
        return {"self": w.pop, "array": w.array, "role": w.role, "__w": w}

    def local_contracts(self):
        return GWorld.site_contracts(None)

    def post(self, I, ctx, a, out, old):
        w = a["__w"]
        if out[0] != "return":
            return [("no-exception", False)]
        return binsum_checks(w, out[1], a["role"] is not None)

    def outcomes(self, I, ctx, a, old):
        # call-site form: one (unspecified) value per group - callers that need more install their own site contract
        w = ctx.ghost["gw"]
        F = z3.Function(ctx.fresh_name("GROUPSUM"), z3.IntSort(), z3.RealSort())
        return ("return", nparr.NArr(w.G, lambda g: Sym(F(B._z(g))), "float", "group-sum"))

    def small_model(self, I, case, a):
        return [a["__w"].N <= 3, a["__w"].G <= 3]

    def call_descriptor(self, I, case, a, ev):
        w = a["__w"]
        N, G = ev(w.N), ev(w.G)
        if N > 8 or G > 8:
            return None
        return {"callee": self.name, "script": NATIVE, "op": "sum", "role": case == "role", "count": G,
                "eid": [ev(w.EID(z3.IntVal(i))) for i in range(N)], "values": [_real(ev(w.A(z3.IntVal(i)))) for i in range(N)],
                "inrole": [ev(w.INROLE(z3.IntVal(i))) is True for i in range(N)]}

    def probes(self, case):
        return [{"callee": self.name, "script": NATIVE, "op": "sum", "role": case != "no-role", "count": 3, "eid": [0, 0, 1],
                 "values": [1.0, 2.0, 4.0], "inrole": [True, False, True]},
                {"callee": self.name, "script": NATIVE, "op": "sum", "role": case != "no-role", "count": 3, "eid": [0, 0, 1, 1],
                 "values": [1.0, "inf", 4.0, 5.0], "inrole": [True, False, True, True]}]

    def judge_native(self, I, case, call, nat):
        return judge(nat)


def _real(v):
    return v[0] / v[1] if isinstance(v, list) else float(v)


NATIVE = "import sys; sys.path.insert(0, '/verif/native')\nimport c10_replay\noutcome = c10_replay.run(call)\n"


def judge(nat):
    if nat.get("kind") == "harness-error":
        return "undecided", str(nat)[:300]
    if nat["kind"] == "raise":
        return "violates", "raised " + nat.get("exc", "") + ": " + nat.get("msg", "")
    return ("satisfies", "as specified") if nat["value"].get("ok") else ("violates", str(nat["value"])[:300])


class GroupNbPersons(GroupSum):
    name = f"{GPOP}.nb_persons"
    descr = "the member count per group has one element per group of the simulation and counts exactly the members (holding the role)"

    def setup(self, I, ctx, case):
        w = GWorld(I, ctx, roles=case == "role")
        ctx.ghost["gw"] = w
        if case == "role":
            # members_role == role is the role mask
            w.pop.fields["_members_role"] = Opaque(None, "members_role", {"compare": lambda ctx2, op, x, y: w.role_mask})
        return {"self": w.pop, "role": w.role, "__w": w}

    def local_contracts(self):
        d = GWorld.site_contracts(None)
        mk = lambda I, ctx, a: _sum_site(I, ctx, a)
        d[f"{GPOP}.sum"] = rec(f"{GPOP}.sum", "sum", [("return", mk)])
        return d

    def post(self, I, ctx, a, out, old):
        w = a["__w"]
        if out[0] != "return":
            return [("no-exception", False)]
        r = out[1]
        if a["role"] is not None:
            s = log_of(ctx, "sum")
            ok = len(s) == 1 and s[0]["args"]["array"] is w.role_mask and s[0]["args"].get("role") is None and r is s[0]["value"]
            return [("count-is-the-per-group-sum-of-the-role-indicator", ok)]
        if not isinstance(r, nparr.BinSum):
            return [("result-is-a-per-group-count", False)]
        fresh = z3.Int("i_sk_nb")
        rng = z3.And(fresh >= 0, fresh < w.N)
        return [("one-element-per-group-of-the-simulation", B._z(r.n) == w.G),
                ("every-person-is-counted", B._z(r.n_in) == w.N),
                ("each-person-counts-in-its-own-group", z3.Implies(rng, B.zint(r.ids(fresh)) == w.EID(fresh))),
                ("each-person-counts-once", z3.Implies(rng, B.zreal(r.weights(fresh)) == 1))]

    def call_descriptor(self, I, case, a, ev):
        d = super().call_descriptor(I, case, a, ev)
        if d:
            d["op"] = "nb_persons"
        return d

    def probes(self, case):
        ps = super().probes(case)
        for p in ps:
            p["op"] = "nb_persons"
        return ps


def _sum_site(I, ctx, a):
    """call-site contract of GroupPopulation.sum (what GroupSum proves): one element per group, masked per-group sum"""
    w = ctx.ghost["gw"]
    arr = nparr.as_narr(I, ctx, a["array"])
    role = a.get("role")
    conv = lambda v: v
    wts = (lambda i: arr.elem(i)) if role is None else (lambda i: B.ite_val(w.INROLE(B._z(i)), (lambda: arr.elem(i)), (lambda: 0)))
    return nparr.BinSum(ctx, w.G, (lambda i: Sym(w.EID(B._z(i)))), wts, w.N)


class GroupAny(Contract):
    name = f"{GPOP}.any"
    prop = ("C10",)
    top_level = True
    cases = ("no-role", "role")
    descr = "any() is, group by group, whether the per-group sum of the (boolean) array is positive"

    def setup(self, I, ctx, case):
        w = GWorld(I, ctx, roles=case == "role")
        ctx.ghost["gw"] = w
        return {"self": w.pop, "array": w.role_mask, "role": w.role, "__w": w}

    def local_contracts(self):
        d = GWorld.site_contracts(None)
        d[f"{GPOP}.sum"] = rec(f"{GPOP}.sum", "sum", [("return", _sum_site)])
        return d

    def post(self, I, ctx, a, out, old):
        w = a["__w"]
        s = log_of(ctx, "sum")
        if out[0] != "return" or len(s) != 1 or not isinstance(out[1], nparr.NArr):
            return [("one-sum", False)]
        r, sm = out[1], s[0]["value"]
        g = ctx.fresh_int("g")
        return [("summed-the-array-with-the-same-role", s[0]["args"]["array"] is a["array"] and s[0]["args"].get("role") is a["role"]),
                ("one-element-per-group", B._z(r.n) == w.G),
                ("true-exactly-where-the-sum-is-positive", z3.Implies(z3.And(g >= 0, g < w.G), B.zbool(r.elem(g)) == (B.zreal(sm.elem(g)) > 0)))]


class GroupProject(Contract):
    name = f"{GPOP}.project"
    prop = ("C10",)
    top_level = True
    cases = ("no-role", "role")
    descr = "projecting a group array gives every person the value of its group (zero for persons outside the role)"

    def setup(self, I, ctx, case):
        w = GWorld(I, ctx, roles=case == "role")
        ctx.ghost["gw"] = w
        w.GV = z3.Function(ctx.fresh_name("GV"), z3.IntSort(), z3.RealSort())
        garr = nparr.NArr(w.G, lambda g: Sym(w.GV(B._z(g))), "float", "group-array")
        return {"self": w.pop, "array": garr, "role": w.role, "__w": w}

    def local_contracts(self):
        return GWorld.site_contracts(None)

    def post(self, I, ctx, a, out, old):
        w = a["__w"]
        if out[0] != "return" or not isinstance(out[1], nparr.NArr):
            return [("returns-an-array", False)]
        r = out[1]
        i = ctx.fresh_int("i")
        rng = z3.And(i >= 0, i < w.N)
        want = w.GV(w.EID(i)) if a["role"] is None else z3.If(w.INROLE(i), w.GV(w.EID(i)), 0)
        return [("one-element-per-person", B._z(r.n) == w.N), ("value-of-the-person's-group", z3.Implies(rng, B.zreal(r.elem(i)) == want))]


def _project_probes(self, case):
    return [{"callee": self.name, "script": NATIVE, "op": "project", "role": case == "role", "count": cnt, "eid": eid,
             "inrole": [True, False, True, True, False, True][:len(eid)]}
            for cnt, eid in ((3, [1, 2, 0]), (3, [1, 0, 0, 2, 0, 1]), (2, [1, 0]), (4, [3, 3, 0, 1]))]


GroupProject.probes = _project_probes
GroupProject.judge_native = lambda self, I, case, call, nat: judge(nat)


class MembersPosition(Contract):
    name = f"{GPOP}.members_position"
    loop_heads = {0: 'for k in range(nb_persons)'}
    prop = ("C10",)
    top_level = True
    descr = ("the position of a person is the number of earlier persons of the same group (so positions enumerate each group's "
             "members 0, 1, 2, ... in storage order)")

    def setup(self, I, ctx, case):
        w = GWorld(I, ctx)
        ctx.ghost["gw"] = w
        ctx.assume(w.N >= 1)
        # ghost: CNT(k, g) = number of persons j < k with eid[j] == g
        w.CNT = z3.Function(ctx.fresh_name("CNT"), z3.IntSort(), z3.IntSort(), z3.IntSort())
        g = z3.Int("g_def")
        ctx.assume(z3.ForAll([g], w.CNT(0, g) == 0))
        return {"self": w.pop, "__w": w}

    @staticmethod
    def unfold(ctx, w, k):
        g = z3.Int("g_def")
        kz = B._z(k)
        ctx.assume(z3.ForAll([g], w.CNT(kz + 1, g) == w.CNT(kz, g) + z3.If(w.EID(kz) == g, 1, 0), patterns=[w.CNT(kz + 1, g)]))

    def _inv(self, ctx, I, vars):
        w = ctx.ghost["gw"]
        k = B._z(vars["__k0"])
        pos = vars["self"].fields["_members_position"]
        cnt = vars["counter_by_entity"]
        g, j = z3.Int("g_inv"), z3.Int("j_inv")
        return [("counter-counts-earlier-members-per-group",
                 z3.ForAll([g], z3.Implies(z3.And(g >= 0, g < B._z(cnt.n)), B.zreal(cnt.elem(g)) == z3.ToReal(w.CNT(k, g))))),
                ("positions-of-earlier-persons-are-their-rank-among-earlier-members",
                 z3.ForAll([j], z3.Implies(z3.And(j >= 0, j < k), B.zreal(pos.elem(j)) == z3.ToReal(w.CNT(j, w.EID(j)))))),
                ("arrays-keep-their-length", z3.And(B._z(pos.n) == w.N, B._z(cnt.n) == B.zint(vars["nb_entities"])))]

    def _havoc(self, ctx, I, vars):
        w = ctx.ghost["gw"]
        k = B._z(vars["__k0"])
        MembersPosition.unfold(ctx, w, k)
        POS = z3.Function(ctx.fresh_name("POSH"), z3.IntSort(), z3.RealSort())
        CH = z3.Function(ctx.fresh_name("CNTH"), z3.IntSort(), z3.RealSort())
        pos = vars["self"].fields["_members_position"]
        pos.elem = (lambda j: Sym(POS(B._z(j))))
        cnt = vars["counter_by_entity"]
        cnt.elem = (lambda g: Sym(CH(B._z(g))))
        vars["counter_by_entity"] = nparr.NArr(cnt.n, cnt.elem, cnt.dtype, "counter")
        vars["entity_index"] = Sym(ctx.fresh_int("hv_entity_index"))

    @property
    def loops(self):
        ls = LoopSpec(self._inv, self._havoc)
        ls.heap_frame = ("self._members_position",)
        return {0: ls}

    def post(self, I, ctx, a, out, old):
        w = a["__w"]
        if out[0] != "return" or not isinstance(out[1], nparr.NArr):
            return [("returns-an-array", False)]
        r = out[1]
        j = ctx.fresh_int("j")
        return [("one-position-per-person", B._z(r.n) == w.N),
                ("position-is-the-number-of-earlier-members-of-the-same-group",
                 z3.Implies(z3.And(j >= 0, j < w.N), B.zreal(r.elem(j)) == z3.ToReal(w.CNT(j, w.EID(j)))))]


class AnySite(Contract):
    """call-site form of GroupAny + GroupSum + the lemma any.*: any(mask)[g] holds exactly when some member of g has the mask
    (WIT(g): such a member)"""
    name = f"{GPOP}.any"
    prop = ()

    def outcomes(self, I, ctx, a, old):
        w = ctx.ghost["gw"]
        mask = a["array"]
        if a.get("role") is not None:
            raise Unsupported("any() with a role at this call site")
        ANYF = z3.Function(ctx.fresh_name("ANY"), z3.IntSort(), z3.BoolSort())
        WIT = z3.Function(ctx.fresh_name("WIT"), z3.IntSort(), z3.IntSort())
        g, i = z3.Int(ctx.fresh_name("g_any")), z3.Int(ctx.fresh_name("i_any"))
        ctx.assume(z3.ForAll([g], z3.Implies(z3.And(g >= 0, g < w.G, ANYF(g)),
                                             z3.And(WIT(g) >= 0, WIT(g) < w.N, w.EID(WIT(g)) == g, B.zbool(mask.elem(WIT(g))))), patterns=[ANYF(g)]))
        mi = B.zbool(mask.elem(i))
        ctx.assume(z3.ForAll([i], z3.Implies(z3.And(i >= 0, i < w.N, mi), ANYF(w.EID(i))), patterns=[w.EID(i)]))
        ctx.ghost["any"] = (ANYF, WIT)
        return ("return", nparr.NArr(w.G, lambda x: Sym(ANYF(B._z(x))), "bool", "any"))

    def post(self, I, ctx, a, out, old):
        return []


def _pairing_operands(ctx, mask, values):
    """operands of `target[mask] = source[permutation][mask2]`: (SIG, INV) of the sorting permutation and the enumerations of the
    two masks; None when the assignment does not have that structure"""
    en2 = getattr(values, "mask_enum", None)
    src = getattr(values, "masked_from", (None, None))[0]
    idx = getattr(src, "fancy_from", (None, None))[1]
    perm = getattr(idx, "perm", None)
    if en2 is None or perm is None:
        return None
    return perm[0], perm[1], nparr.mask_enum(ctx, mask), en2


class ValueFromPerson(Contract):
    name = f"{GPOP}.value_from_person"
    prop = ("C10",)
    top_level = True
    descr = ("for a role held by at most one member per group, every group gets the value of the member holding the role, whatever "
             "the order in which persons are stored, and the default where nobody holds it")
    inline = (f"{GPOP}.ordered_members_map",)

    def setup(self, I, ctx, case):
        w = GWorld(I, ctx, roles=True)
        ctx.ghost["gw"] = w
        w.role.fields["max"] = 1
        w.role.fields["key"] = "first_parent"
        i, i2 = z3.Int("i_u"), z3.Int("i2_u")
        ctx.assume(z3.ForAll([i, i2], z3.Implies(z3.And(0 <= i, i < i2, i2 < w.N, w.INROLE(i), w.INROLE(i2)), w.EID(i) != w.EID(i2)),
                             patterns=[z3.MultiPattern(w.INROLE(i), w.INROLE(i2))]))
        D = ctx.fresh_real("default")
        ctx.ghost["D"] = D
        return {"self": w.pop, "array": w.array, "role": w.role, "default": Sym(D), "__w": w, "__D": D}

    @staticmethod
    def local_contracts():
        d = GWorld.site_contracts(None)
        d[AnySite.name] = AnySite()
        d[f"{CPOP}.filled_array"] = rec(f"{CPOP}.filled_array", "filled_array",
                                        [("return", lambda I, ctx, a: nparr.NArr(ctx.ghost["gw"].G, lambda g: a["value"], "float", "filled"))])
        return d

    @staticmethod
    def ghost_masked_assign(ctx, I, target, mask, values):
        """ghost statement before the masked assignment `result[<groups with a holder>] = <values of the sorted persons>[<holders,
        in sorted order>]`, bound to the assignment by the structure of its operands (not by its text): the groups with a holder,
        in increasing order, and the groups of the holders taken in the order of the sorting permutation are the same
        enumeration (lemma schema proved in this module's lemma library)"""
        w = ctx.ghost["gw"]
        ANYF, WIT = ctx.ghost["any"]
        p = _pairing_operands(ctx, mask, values)
        if p is None:
            return          # the code no longer has the shape this ghost statement speaks about: no lemma, the proof must do without
        SIG, INV, enf, en2 = p
        f = lambda j: w.EID(SIG(en2.SEL(j)))
        gf = lambda j: enf.SEL(j)
        j, j2 = z3.Int(ctx.fresh_name("j_l")), z3.Int(ctx.fresh_name("j2_l"))
        inc = lambda fn, c: z3.ForAll([j, j2], z3.Implies(z3.And(0 <= j, j < j2, j2 < c), fn(j) < fn(j2)))
        wa = lambda x: enf.RNK(f(x))
        wb = lambda x: en2.RNK(INV(WIT(gf(x))))
        ctx.apply_lemma("increasing-enumerations-of-the-same-set-coincide",
                        [("holders-in-sorted-order-have-increasing-groups", inc(f, en2.cnt)),
                         ("groups-with-a-holder-are-enumerated-increasingly", inc(gf, enf.cnt)),
                         ("every-holder's-group-is-a-group-with-a-holder",
                          z3.ForAll([j], z3.Implies(z3.And(j >= 0, j < en2.cnt), z3.And(wa(j) >= 0, wa(j) < enf.cnt, gf(wa(j)) == f(j))))),
                         ("every-group-with-a-holder-is-some-holder's-group",
                          z3.ForAll([j], z3.Implies(z3.And(j >= 0, j < enf.cnt), z3.And(wb(j) >= 0, wb(j) < en2.cnt, f(wb(j)) == gf(j)))))],
                        z3.And(en2.cnt == enf.cnt, z3.ForAll([j], z3.Implies(z3.And(j >= 0, j < enf.cnt), f(j) == gf(j)), patterns=[enf.SEL(j)])))


    def post(self, I, ctx, a, out, old):
        w, D = a["__w"], a["__D"]
        if out[0] != "return" or not isinstance(out[1], nparr.NArr) or "any" not in ctx.ghost:
            return [("returns-one-value-per-group", False)]
        r = out[1]
        ANYF, WIT = ctx.ghost["any"]
        g = ctx.fresh_int("g")
        rng = z3.And(g >= 0, g < w.G)
        return [("one-value-per-group", B._z(r.n) == w.G),
                ("a-group-with-a-holder-gets-the-holder's-value", z3.Implies(z3.And(rng, ANYF(g)), B.zreal(r.elem(g)) == w.A(WIT(g)))),
                ("a-group-without-holder-gets-the-default", z3.Implies(z3.And(rng, z3.Not(ANYF(g))), B.zreal(r.elem(g)) == D))]

    def probes(self, case):
        return [{"callee": self.name, "script": NATIVE, "op": "value_from_person", "count": 3, "eid": eid, "values": [10.0, 20.0, 30.0, 40.0, 50.0, 60.0][:len(eid)],
                 "inrole": inrole} for eid, inrole in (([1, 0, 0, 2, 0, 1], [True, False, True, False, False, False]),
                                                       ([2, 1, 0], [True, True, True]), ([0, 0, 1], [False, True, False]), ([1, 1, 0, 0], [False, True, True, False]))]

    def judge_native(self, I, case, call, nat):
        return judge(nat)


class Counting:
    """ghost: CNT(k, g) = number of persons j < k of group g, with the consequences (lemma library of this module, instances for
    this CNT) that the site contracts of members_position and nb_persons hand to their callers:
      POS(i) = CNT(i, EID(i)), SIZE(g) = CNT(N, g);
      L1 positions of two members of one group differ (increase with the person index);
      L2 a member's position is below the size of its group;
      L3 every rank below the size of a group is the position of one of its members: PW(g, r)."""

    def __init__(self, ctx, w):
        self.w = w
        self.POS = z3.Function(ctx.fresh_name("POS"), z3.IntSort(), z3.IntSort())
        self.SIZE = z3.Function(ctx.fresh_name("SIZE"), z3.IntSort(), z3.IntSort())
        self.PW = z3.Function(ctx.fresh_name("MEMBER_AT"), z3.IntSort(), z3.IntSort(), z3.IntSort())
        i, i2, g, r = z3.Int(ctx.fresh_name("ci")), z3.Int(ctx.fresh_name("ci2")), z3.Int(ctx.fresh_name("cg")), z3.Int(ctx.fresh_name("cr"))
        POS, SIZE, PW, EID, N, G = self.POS, self.SIZE, self.PW, w.EID, w.N, w.G
        ctx.assume(z3.ForAll([i], z3.Implies(z3.And(i >= 0, i < N), z3.And(POS(i) >= 0, POS(i) < SIZE(EID(i)))), patterns=[POS(i)]))                     # L2
        ctx.assume(z3.ForAll([g], z3.Implies(z3.And(g >= 0, g < G), SIZE(g) >= 0), patterns=[SIZE(g)]))
        ctx.assume(z3.ForAll([i, i2], z3.Implies(z3.And(0 <= i, i < i2, i2 < N, EID(i) == EID(i2)), POS(i) < POS(i2)),
                             patterns=[z3.MultiPattern(POS(i), POS(i2))]))                                                                                 # L1
        ctx.assume(z3.ForAll([g, r], z3.Implies(z3.And(g >= 0, g < G, r >= 0, r < SIZE(g)),
                                                z3.And(PW(g, r) >= 0, PW(g, r) < N, EID(PW(g, r)) == g, POS(PW(g, r)) == r)), patterns=[PW(g, r)]))      # L3
        ctx.assumed_ext.add("members_position / nb_persons at call sites: their verified contracts (position = number of earlier members of the same "
                            "group, size = number of members) with the counting lemmas positions-distinct, position-below-size, every-rank-is-taken")


def counting(ctx):
    if "counting" not in ctx.ghost:
        ctx.ghost["counting"] = Counting(ctx, ctx.ghost["gw"])
    return ctx.ghost["counting"]


class MembersPositionSite(Contract):
    name = f"{GPOP}.members_position"
    prop = ()

    def outcomes(self, I, ctx, a, old):
        c = counting(ctx)
        return ("return", nparr.NArr(c.w.N, lambda i: Sym(c.POS(B._z(i))), "int", "members_position"))

    def post(self, I, ctx, a, out, old):
        return []


class NbPersonsSite(Contract):
    name = f"{GPOP}.nb_persons"
    prop = ()

    def outcomes(self, I, ctx, a, old):
        if a.get("role") is not None:
            raise Unsupported("nb_persons with a role at this call site")
        c = counting(ctx)
        return ("return", nparr.NArr(c.w.G, lambda g: Sym(c.SIZE(B._z(g))), "int", "nb_persons"))

    def post(self, I, ctx, a, out, old):
        return []


class ValueNthPerson(Contract):
    name = f"{GPOP}.value_nth_person"
    prop = ("C10",)
    top_level = True
    descr = ("value_nth_person gives every group that has more than n members the value of its member at position n - whatever the "
             "order in which persons are stored - and the default to the others")
    inline = (f"{GPOP}.ordered_members_map",)

    def setup(self, I, ctx, case):
        w = GWorld(I, ctx)
        ctx.ghost["gw"] = w
        n = ctx.fresh_int("n")
        ctx.assume(n >= 0)
        ctx.ghost["n"] = n
        D = ctx.fresh_real("default")
        return {"self": w.pop, "n": Sym(n), "array": w.array, "default": Sym(D), "__w": w, "__D": D, "__n": n}

    @staticmethod
    def local_contracts():
        d = GWorld.site_contracts(None)
        d[MembersPositionSite.name] = MembersPositionSite()
        d[NbPersonsSite.name] = NbPersonsSite()
        d[f"{CPOP}.filled_array"] = rec(f"{CPOP}.filled_array", "filled_array",
                                        [("return", lambda I, ctx, a: nparr.NArr(ctx.ghost["gw"].G, lambda g: a["value"], "float", "filled"))])
        return d

    @staticmethod
    def ghost_masked_assign(ctx, I, target, mask, values):
        """ghost statement before the masked assignment, bound to it by the structure of its operands: groups with more than n
        members, in increasing order, and the groups of the persons at position n taken in the order of the sorting permutation
        are the same enumeration"""
        w, n = ctx.ghost["gw"], ctx.ghost["n"]
        c = counting(ctx)
        p = _pairing_operands(ctx, mask, values)
        if p is None:
            return
        SIG, INV, enf, en2 = p
        f = lambda j: w.EID(SIG(en2.SEL(j)))
        gf = lambda j: enf.SEL(j)
        j, j2 = z3.Int(ctx.fresh_name("j_l")), z3.Int(ctx.fresh_name("j2_l"))
        inc = lambda fn, cnt: z3.ForAll([j, j2], z3.Implies(z3.And(0 <= j, j < j2, j2 < cnt), fn(j) < fn(j2)))
        wa = lambda x: enf.RNK(f(x))
        wb = lambda x: en2.RNK(INV(c.PW(gf(x), n)))
        ctx.apply_lemma("increasing-enumerations-of-the-same-set-coincide",
                        [("persons-at-position-n-in-sorted-order-have-increasing-groups", inc(f, en2.cnt)),
                         ("groups-with-more-than-n-members-are-enumerated-increasingly", inc(gf, enf.cnt)),
                         ("the-group-of-a-person-at-position-n-has-more-than-n-members",
                          z3.ForAll([j], z3.Implies(z3.And(j >= 0, j < en2.cnt), z3.And(wa(j) >= 0, wa(j) < enf.cnt, gf(wa(j)) == f(j))))),
                         ("a-group-with-more-than-n-members-has-a-person-at-position-n",
                          z3.ForAll([j], z3.Implies(z3.And(j >= 0, j < enf.cnt), z3.And(wb(j) >= 0, wb(j) < en2.cnt, f(wb(j)) == gf(j)))))],
                        z3.And(en2.cnt == enf.cnt, z3.ForAll([j], z3.Implies(z3.And(j >= 0, j < enf.cnt), f(j) == gf(j)), patterns=[enf.SEL(j)])))


    def post(self, I, ctx, a, out, old):
        w, D, n = a["__w"], a["__D"], a["__n"]
        if out[0] != "return" or not isinstance(out[1], nparr.NArr):
            return [("returns-one-value-per-group", False)]
        r = out[1]
        c = counting(ctx)
        g = ctx.fresh_int("g")
        rng = z3.And(g >= 0, g < w.G)
        return [("one-value-per-group", B._z(r.n) == w.G),
                ("a-group-with-more-than-n-members-gets-the-value-of-its-member-at-position-n",
                 z3.Implies(z3.And(rng, c.SIZE(g) > n), B.zreal(r.elem(g)) == w.A(c.PW(g, n)))),
                ("a-group-with-at-most-n-members-gets-the-default", z3.Implies(z3.And(rng, c.SIZE(g) <= n), B.zreal(r.elem(g)) == D))]

    def probes(self, case):
        return [{"callee": self.name, "script": NATIVE, "op": "value_nth_person", "n": n, "count": 3, "eid": eid,
                 "values": [10.0, 20.0, 30.0, 40.0, 50.0, 60.0][:len(eid)], "inrole": [False] * len(eid)}
                for eid in ([1, 0, 0, 2, 0, 1], [2, 1, 0], [0, 0, 1], [1, 1, 0, 0], [1, 2, 0], [2, 0, 1, 0, 1, 2], [1, 2, 0, 2]) for n in (0, 1, 2)]

    def judge_native(self, I, case, call, nat):
        return judge(nat)


class ValueNthPersonSite(Contract):
    """call-site form of ValueNthPerson: VAL(g) = array[member of g at position n] if g has more than n members, else the default"""
    name = f"{GPOP}.value_nth_person"
    prop = ()

    def outcomes(self, I, ctx, a, old):
        w = ctx.ghost["gw"]
        c = counting(ctx)
        n, arr, default = B.zint(a["n"]), a["array"], a.get("default", 0)
        ctx.oblige("value_nth_person.requires.one-value-per-person", B._z(arr.n) == w.N, kind="requires")

        def elem(g):
            gz = B._z(g)
            return B.ite_val(c.SIZE(gz) > n, lambda: arr.elem(smt.simp(c.PW(gz, n))), lambda: default)
        return ("return", nparr.NArr(w.G, elem, arr.dtype, "value_nth_person"))

    def post(self, I, ctx, a, out, old):
        return []



class GetRank(Contract):
    name = f"{POP}.get_rank"
    prop = ("C10",)
    top_level = True
    cases = ("no-condition", "condition")
    descr = ("ranks within a group: a person outside the condition gets -1; among the members of one group that satisfy the condition "
             "ranks are pairwise distinct, follow the criterion (a strictly smaller criterion gives a strictly smaller rank), are "
             "non-negative and form a downward-closed set (every rank below a member's rank is the rank of another such member of the "
             "same group) - i.e. they are a permutation of 0..m-1 for the m members concerned - whatever the storage order")

    def setup(self, I, ctx, case):
        w = GWorld(I, ctx)
        ctx.ghost["gw"] = w
        ctx.assume(w.N >= 1)          # numpy.max of no positions raises: a population without persons is outside the statement
        COND = z3.Function(ctx.fresh_name("COND"), z3.IntSort(), z3.BoolSort())
        cond = nparr.NArr(w.N, lambda j: Sym(COND(B._z(j))), "bool", "condition") if case == "condition" else True
        return {"self": w.members, "entity": w.pop, "criteria": w.array, "condition": cond, "__w": w,
                "__cond": (lambda i: COND(i)) if case == "condition" else (lambda i: z3.BoolVal(True))}

    @staticmethod
    def local_contracts():
        d = GWorld.site_contracts(None)
        d[MembersPositionSite.name] = MembersPositionSite()
        d[ValueNthPersonSite.name] = ValueNthPersonSite()
        return d

    def post(self, I, ctx, a, out, old):
        w, cond = a["__w"], a["__cond"]
        if out[0] != "return" or not isinstance(out[1], nparr.NArr):
            return [("returns-one-rank-per-person", False)]
        r = out[1]
        c = counting(ctx)
        i, i2, q = ctx.fresh_int("i"), ctx.fresh_int("i2"), ctx.fresh_int("q")
        rk = lambda x: B.zint(r.elem(x))
        person = lambda x: z3.And(x >= 0, x < w.N)
        same = z3.And(person(i), person(i2), i != i2, w.EID(i) == w.EID(i2), cond(i), cond(i2))
        wit = c.PW(w.EID(i), self._column(ctx, r, w.EID(i), q))
        out_ = [("one-rank-per-person", B._z(r.n) == w.N),
                ("outside-the-condition-the-rank-is-minus-one", z3.Implies(z3.And(person(i), z3.Not(cond(i))), rk(i) == -1)),
                ("ranks-are-non-negative", z3.Implies(z3.And(person(i), cond(i)), rk(i) >= 0)),
                ("ranks-within-a-group-are-pairwise-distinct", z3.Implies(same, rk(i) != rk(i2))),
                ("ranks-follow-the-criterion", z3.Implies(z3.And(same, w.A(i) < w.A(i2)), rk(i) < rk(i2)))]
        if wit is not None:
            out_.append(("every-rank-below-a-member's-rank-is-taken-by-a-member-of-the-same-group-in-the-condition",
                         z3.Implies(z3.And(person(i), cond(i), q >= 0, q < rk(i)),
                                    z3.And(person(wit), w.EID(wit) == w.EID(i), cond(wit), rk(wit) == q))))
        else:
            out_.append(("every-rank-below-a-member's-rank-is-taken-by-a-member-of-the-same-group-in-the-condition", False))
        return out_

    @staticmethod
    def _column(ctx, r, g, q):
        """witness for the downward-closure clause: the column that the first sort of the matrix puts at place q of row g (the
        member standing there is the one whose rank is q); taken from the sorting permutation recorded on the path"""
        perms = ctx.ghost.get("argsort2_perms") or []
        if not perms:
            return None
        SIG, INV = perms[0]
        return SIG(g, q)

    def small_model(self, I, case, a):
        return [a["__w"].N <= 4, a["__w"].G <= 3]

    def probes(self, case):
        return [{"callee": self.name, "script": NATIVE, "op": "get_rank", "count": 3, "eid": eid, "values": vals[:len(eid)],
                 "inrole": (cond[:len(eid)] if case == "condition" else [True] * len(eid))}
                for eid in ([1, 0, 0, 2, 0, 1], [2, 1, 0], [0, 0, 1], [1, 1, 0, 0], [2, 0, 1, 0, 1, 2], [0, 0, 0, 0])
                for vals in ([30.0, 10.0, 20.0, 5.0, 40.0, 1.0], [1.0, 2.0, 3.0, 4.0, 5.0, 6.0], [6.0, 5.0, 4.0, 3.0, 2.0, 1.0], [5.0, 5.0, 5.0, 1.0, 1.0, 5.0])
                for cond in ([True, False, True, True, True, False], [False, True, True, False, True, True])]

    def judge_native(self, I, case, call, nat):
        return judge(nat)


REDUCERS = {"max": ("maximum", lambda r, v: r >= v), "min": ("minimum", lambda r, v: r <= v), "all": ("logical_and", lambda r, v: z3.Implies(r, v))}


def _conv(ctx):
    return B.zbool if ctx.ghost.get("kind") == "all" else B.zreal


class GroupWrappers(Contract):
    name = f"{GPOP}.max"
    prop = ("C10",)
    top_level = True
    cases = ("max",)
    WANT = {"max": ("maximum", "-inf"), "min": ("minimum", "+inf"), "all": ("logical_and", True)}
    descr = ("max / min / all are reduce with numpy.maximum / minimum / logical_and and the neutral element -inf / +inf / True, for the "
             "same array and role")

    def setup(self, I, ctx, case):
        w = GWorld(I, ctx, roles=True)
        ctx.ghost["gw"] = w
        return {"self": w.pop, "array": w.array, "role": w.role, "__case": case}

    @staticmethod
    def local_contracts():
        return {f"{GPOP}.reduce": rec(f"{GPOP}.reduce", "reduce", [("return", lambda I, ctx, a: Opaque(None, "reduced", {}))])}

    def post(self, I, ctx, a, out, old):
        calls = log_of(ctx, "reduce")
        fn, neutral = self.WANT[a["__case"]]
        if len(calls) != 1:
            return [("one-reduction", False)]
        c = calls[0]["args"]
        ne = c.get("neutral_element")
        if neutral is True:
            nok = ne is True
        else:
            nok = isinstance(ne, nparr.Inf) and ne.positive == (neutral == "+inf")
        return [("same-array-and-role", c.get("array") is a["array"] and c.get("role") is a["role"]),
                ("the-reducer-of-this-operation", c.get("reducer") is I.ext["numpy"][fn]),
                ("its-neutral-element", nok),
                ("returns-the-reduction", out[0] == "return" and out[1] is calls[0]["value"])]


def _wrapper_probes(self, case):
    return [{"callee": self.name, "script": NATIVE, "op": case if case != "all" else "all_numeric", "role": role, "count": 3, "eid": eid,
             "values": vals[:len(eid)], "inrole": [True, False, True, True, False, True][:len(eid)]}
            for role in (False, True) for eid in ([1, 0, 0, 2, 0, 1], [0, 0, 1], [2, 2, 2, 0])
            for vals in ([2.0, 3.0, 0.0, 7.0, 1.0, 4.0], [1.0, 1.0, 1.0, 1.0, 1.0, 1.0], [0.5, 2.0, 3.0, 0.0, 0.0, 9.0])]


GroupWrappers.probes = _wrapper_probes
GroupWrappers.judge_native = lambda self, I, case, call, nat: judge(nat)


class GroupWrappersMin(GroupWrappers):
    name = f"{GPOP}.min"
    cases = ("min",)


class GroupWrappersAll(GroupWrappers):
    name = f"{GPOP}.all"
    cases = ("all",)


class ValueFromFirstPerson(Contract):
    name = f"{GPOP}.value_from_first_person"
    prop = ("C10",)
    top_level = True
    descr = "value_from_first_person is value_nth_person at position 0 of the same array"

    def setup(self, I, ctx, case):
        w = GWorld(I, ctx)
        ctx.ghost["gw"] = w
        return {"self": w.pop, "array": w.array}

    @staticmethod
    def local_contracts():
        return {f"{GPOP}.value_nth_person": rec(f"{GPOP}.value_nth_person", "nth", [("return", lambda I, ctx, a: Opaque(None, "nth-value", {}))])}

    def post(self, I, ctx, a, out, old):
        calls = log_of(ctx, "nth")
        if len(calls) != 1:
            return [("one-look-up", False)]
        c = calls[0]["args"]
        return [("position-zero-of-the-same-array", c.get("n") == 0 and c.get("array") is a["array"] and c.get("self") is a["self"]),
                ("returns-it", out[0] == "return" and out[1] is calls[0]["value"])]


class GroupReduce(Contract):
    name = f"{GPOP}.reduce"
    loop_heads = {0: 'for p in range(biggest_entity_size)'}
    prop = ("C10",)
    top_level = True
    cases = ("max", "min", "max-role", "min-role", "all", "all-role", "max-capped-role", "min-capped-role")
    descr = ("(a role may declare a cap `max` on its members per group: it says nothing about where they are stored) "
             "reduce with numpy.maximum / numpy.minimum and a neutral element beyond every value gives, per group, a bound of the values "
             "of exactly its members (in the role) that is attained by one of them - the neutral element where there is none; with "
             "numpy.logical_and and True it is true exactly when the array is true for every member (in the role)")

    def setup(self, I, ctx, case):
        kind = case.split("-")[0]
        w = GWorld(I, ctx, roles=case.endswith("role"))
        ctx.ghost["gw"] = w
        ctx.assume(w.N >= 1)
        if case.endswith("capped-role"):
            cap = ctx.fresh_int("role_max")
            ctx.assume(cap >= 1)
            w.role.fields["max"] = Sym(cap)
        if kind == "all":
            NEU = z3.BoolVal(True)
            BA = z3.Function(ctx.fresh_name("BOOLA"), z3.IntSort(), z3.BoolSort())
            w.A = BA
            w.array = nparr.NArr(w.N, lambda j: Sym(BA(B._z(j))), "bool", "person-bools")
            ctx.ghost["NEU"], ctx.ghost["kind"] = NEU, kind
            return {"self": w.pop, "array": w.array, "reducer": I.ext["numpy"]["logical_and"], "neutral_element": True, "role": w.role,
                    "__w": w, "__kind": kind}
        NEU = ctx.fresh_real("neutral")
        ctx.ghost["NEU"], ctx.ghost["kind"] = NEU, kind
        i = z3.Int("i_neu")
        ctx.assume(z3.ForAll([i], z3.Implies(z3.And(i >= 0, i < w.N), REDUCERS[kind][1](w.A(i), NEU)), patterns=[w.A(i)]))     # beyond every value
        return {"self": w.pop, "array": w.array, "reducer": I.ext["numpy"][REDUCERS[kind][0]], "neutral_element": Sym(NEU), "role": w.role,
                "__w": w, "__kind": kind}

    @staticmethod
    def local_contracts():
        d = GWorld.site_contracts(None)
        d[MembersPositionSite.name] = MembersPositionSite()
        d[ValueNthPersonSite.name] = ValueNthPersonSite()
        d[f"{CPOP}.filled_array"] = rec(f"{CPOP}.filled_array", "filled_array",
                                        [("return", lambda I, ctx, a: nparr.NArr(ctx.ghost["gw"].G, lambda g: a["value"], "float", "filled"))])
        return d

    # value at position q of group g of the filtered array
    @staticmethod
    def _val(ctx, vars, g, q):
        w, NEU = ctx.ghost["gw"], ctx.ghost["NEU"]
        c = counting(ctx)
        fa = vars["filtered_array"]
        return z3.If(c.SIZE(g) > q, _conv(ctx)(fa.elem(smt.simp(c.PW(g, q)))), NEU)

    def _inv(self, ctx, I, vars):
        w, NEU, kind = ctx.ghost["gw"], ctx.ghost["NEU"], ctx.ghost["kind"]
        p = B._z(vars["__k0"])
        r = vars["result"]
        ATT = ctx.ghost.setdefault("ATT", z3.Function(ctx.fresh_name("ATTAINED_AT"), z3.IntSort(), z3.IntSort()))
        g, q = z3.Int(ctx.fresh_name("g_inv")), z3.Int(ctx.fresh_name("q_inv"))
        rg = _conv(ctx)(r.elem(g))
        bound = REDUCERS[kind][1]
        return [("one-value-per-group", B._z(r.n) == w.G),
                ("bounds-the-values-at-the-positions-done",
                 z3.ForAll([g, q], z3.Implies(z3.And(g >= 0, g < w.G, q >= 0, q < p), bound(rg, self._val(ctx, vars, g, q))))),
                ("is-the-neutral-element-or-the-value-at-one-of-the-positions-done",
                 z3.ForAll([g], z3.Implies(z3.And(g >= 0, g < w.G),
                                           z3.Or(rg == NEU, z3.And(ATT(g) >= 0, ATT(g) < p, rg == self._val(ctx, vars, g, ATT(g)))))))]

    def _havoc(self, ctx, I, vars):
        w = ctx.ghost["gw"]
        F = z3.Function(ctx.fresh_name("RES_h"), z3.IntSort(), z3.BoolSort() if ctx.ghost["kind"] == "all" else z3.RealSort())
        vars["result"] = nparr.NArr(w.G, lambda g: Sym(F(B._z(g))), "bool" if ctx.ghost["kind"] == "all" else "float", "result-h")
        ctx.ghost["ATT"] = z3.Function(ctx.fresh_name("ATTAINED_AT"), z3.IntSort(), z3.IntSort())
        vars["p"] = Sym(ctx.fresh_int("hv_p"))
        vars["values"] = nparr.NArr(w.G, lambda g: Sym(z3.Real("hv_values")), "float", "values-h")

    def _step(self, ctx, I, vars):
        # ghost update: where the new value took over, the bound is attained at the position just done
        w, kind = ctx.ghost["gw"], ctx.ghost["kind"]
        p = B._z(vars["__k0"]) - 1
        old = ctx.ghost["ATT"]
        new = z3.Function(ctx.fresh_name("ATTAINED_AT"), z3.IntSort(), z3.IntSort())
        g = z3.Int(ctx.fresh_name("g_step"))
        r = vars["result"]
        took_over = _conv(ctx)(r.elem(g)) == self._val(ctx, vars, g, p)
        ctx.assume(z3.ForAll([g], new(g) == z3.If(took_over, p, old(g)), patterns=[new(g)]))
        ctx.ghost["ATT"] = new

    @property
    def loops(self):
        from pyvc.contract import LoopSpec
        return {0: LoopSpec(self._inv, self._havoc, step=self._step)}

    def post(self, I, ctx, a, out, old):
        w, kind = a["__w"], a["__kind"]
        NEU = ctx.ghost["NEU"]
        if out[0] != "return" or not isinstance(out[1], nparr.NArr):
            return [("returns-one-value-per-group", False)]
        r = out[1]
        c = counting(ctx)
        bound = REDUCERS[kind][1]
        i, g = ctx.fresh_int("i"), ctx.fresh_int("g")
        in_role = w.INROLE(i) if a["role"] is not None else z3.BoolVal(True)
        rg = _conv(ctx)(r.elem(g))
        ATT = ctx.ghost["ATT"]
        m = c.PW(g, ATT(g))
        m_in_role = w.INROLE(m) if a["role"] is not None else z3.BoolVal(True)
        return [("one-value-per-group", B._z(r.n) == w.G),
                # proof steps: a member is the member of its group at its own position, and its position is below its group's size
                ("step.a-member-is-the-member-of-its-group-at-its-own-position",
                 z3.Implies(z3.And(i >= 0, i < w.N), z3.And(c.POS(i) >= 0, c.POS(i) < c.SIZE(w.EID(i)), c.PW(w.EID(i), c.POS(i)) == i))),
                ("bounds-the-value-of-every-member-in-the-role",
                 z3.Implies(z3.And(i >= 0, i < w.N, in_role), bound(_conv(ctx)(r.elem(w.EID(i))), w.A(i)))),
                ("is-the-value-of-a-member-in-the-role-or-the-neutral-element",
                 z3.Implies(z3.And(g >= 0, g < w.G, rg != NEU), z3.And(m >= 0, m < w.N, w.EID(m) == g, m_in_role, rg == w.A(m))))]

    def probes(self, case):
        kind = case.split("-")[0]
        return [{"callee": self.name, "script": NATIVE, "op": kind, "role": case.endswith("role"), "count": 3, "eid": eid,
                 "values": [10.0, -20.0, 30.0, 5.0, 50.0, -60.0][:len(eid)], "inrole": inrole}
                for eid, inrole in (([1, 0, 0, 2, 0, 1], [True, False, True, False, True, False]), ([2, 1, 0], [True, True, False]), ([0, 0, 1], [False, True, False]),
                                    ([1, 2, 0], [True, True, True]), ([2, 0, 1, 0, 1, 2], [True, False, True, True, False, True]))]

    def judge_native(self, I, case, call, nat):
        return judge(nat)


class ProjectorTransform(Contract):
    name = f"{PROJ}.projector.Projector.transform_and_bubble_up"
    prop = ("C10",)
    top_level = True
    cases = ("root", "has-parent")
    descr = ("BUBBLE(p, v) = TR(p, v) for a projector without parent, BUBBLE(p.parent, TR(p, v)) otherwise: the recursive call is "
             "taken under this same contract, so by induction on the length of the chain a chained projection is the composition "
             "of the projectors' transforms, innermost first, whatever the length")

    def setup(self, I, ctx, case):
        R = I.resolve_qualified
        e1 = Obj(R(GPOP), {}, label="households")
        outer = Obj(R(f"{PROJ}.entity_to_person_projector.EntityToPersonProjector"), {"reference_entity": Obj(R(GPOP), {}), "parent": Opaque(None, "rest-of-the-chain", {})}, label="parent")
        inner = Obj(R(f"{PROJ}.first_person_to_entity_projector.FirstPersonToEntityProjector"),
                    {"target_entity": e1, "reference_entity": Obj(R(POP), {}), "parent": outer if case == "has-parent" else None}, label="self")
        return {"self": inner, "result": Opaque(None, "value", {}), "__outer": outer, "__case": case}

    @staticmethod
    def local_contracts():
        mk = lambda tag: (lambda I, ctx, a: Opaque(None, tag, {}))
        return {f"{PROJ}.first_person_to_entity_projector.FirstPersonToEntityProjector.transform":
                rec(f"{PROJ}.first_person_to_entity_projector.FirstPersonToEntityProjector.transform", "TR", [("return", mk("TR(self, v)"))]),
                f"{PROJ}.entity_to_person_projector.EntityToPersonProjector.transform":
                rec(f"{PROJ}.entity_to_person_projector.EntityToPersonProjector.transform", "TR", [("return", mk("TR(parent, v)"))]),
                f"{PROJ}.projector.Projector.transform_and_bubble_up":
                rec(f"{PROJ}.projector.Projector.transform_and_bubble_up", "BUBBLE", [("return", mk("BUBBLE(parent, v)"))])}

    def post(self, I, ctx, a, out, old):
        log = log_of(ctx)
        if out[0] != "return":
            return [("no-exception", False)]
        ok1 = len(log) >= 1 and log[0]["callee"] == "TR" and log[0]["args"]["self"] is a["self"] and log[0]["args"]["result"] is a["result"]
        if a["__case"] == "root":
            return [("own-transform-of-the-value-is-returned", ok1 and len(log) == 1 and out[1] is log[0]["value"])]
        ok2 = (len(log) == 2 and log[1]["callee"] == "BUBBLE" and log[1]["args"]["self"] is a["__outer"]
               and log[1]["args"]["result"] is log[0]["value"])
        return [("own-transform-first", ok1), ("the-parent-bubbles-up-the-transformed-value", ok2),
                ("what-the-parent-chain-gives-is-returned", ok2 and out[1] is log[1]["value"])]


class ProjectorTransforms(Contract):
    name = f"{PROJ}.entity_to_person_projector.EntityToPersonProjector.transform"
    prop = ("C10",)
    top_level = True
    cases = ("entity-to-person",)
    descr = ("the transform of each projector kind is the corresponding population operation on its own entity: project, "
             "value_from_first_person, value_from_person with its role")
    NAMES = {"entity-to-person": f"{PROJ}.entity_to_person_projector.EntityToPersonProjector",
             "first-person-to-entity": f"{PROJ}.first_person_to_entity_projector.FirstPersonToEntityProjector",
             "unique-role-to-entity": f"{PROJ}.unique_role_to_entity_projector.UniqueRoleToEntityProjector"}

    def setup(self, I, ctx, case):
        R = I.resolve_qualified
        e, other = Obj(R(GPOP), {}, label="entity"), Obj(R(GPOP), {}, label="other")
        role = Opaque(None, "role", {})
        fields = {"reference_entity": e, "parent": None} if case == "entity-to-person" else \
            {"target_entity": e, "reference_entity": other, "parent": None, "role": role}
        return {"self": Obj(R(self.NAMES[case]), fields, label="projector"), "result": Opaque(None, "value", {}), "__e": e, "__role": role, "__case": case}

    @staticmethod
    def local_contracts():
        mk = lambda tag: (lambda I, ctx, a: Opaque(None, tag, {}))
        return {f"{GPOP}.value_from_first_person": rec(f"{GPOP}.value_from_first_person", "value_from_first_person", [("return", mk("first-person-value"))]),
                f"{GPOP}.value_from_person": rec(f"{GPOP}.value_from_person", "value_from_person", [("return", mk("role-value"))]),
                f"{GPOP}.project": rec(f"{GPOP}.project", "project", [("return", mk("projected"))])}

    def post(self, I, ctx, a, out, old):
        log = log_of(ctx)
        want = {"entity-to-person": "project", "first-person-to-entity": "value_from_first_person", "unique-role-to-entity": "value_from_person"}[a["__case"]]
        if out[0] != "return" or len(log) != 1:
            return [("one-population-operation", False)]
        c = log[0]
        res = [("the-operation-of-this-projector-kind", c["callee"] == want), ("on-the-projector's-own-entity", c["args"]["self"] is a["__e"]),
               ("on-the-value-given", c["args"]["array"] is a["result"]), ("its-result-is-returned", out[1] is c["value"])]
        if want == "value_from_person":
            res.append(("with-the-projector's-role", c["args"]["role"] is a["__role"]))
        if want == "project":
            res.append(("for-every-member-whatever-its-role", c["args"].get("role") is None))
        return res


class ProjectorTransformsFirst(ProjectorTransforms):
    name = ProjectorTransforms.NAMES["first-person-to-entity"] + ".transform"
    cases = ("first-person-to-entity",)


class ProjectorTransformsRole(ProjectorTransforms):
    name = ProjectorTransforms.NAMES["unique-role-to-entity"] + ".transform"
    cases = ("unique-role-to-entity",)



class ProjectorFromShortcut(Contract):
    name = f"{PROJ}.helpers.get_projector_from_shortcut"
    prop = ("C10", "C02")
    top_level = True
    cases = tuple((k, h) for k in ("person-to-group", "first-person", "unique-role", "unique-subrole", "unknown-from-person", "unknown-from-group")
                  for h in ("first-use", "used-before-under-another-parent"))
    descr = ("a shortcut (person.household, household.first_person, household.<unique role>) resolves to a new projector of the kind "
             "the shortcut names, onto the population it names, chained under the parent given to THIS call - also when the same "
             "shortcut was resolved before under another parent (each chain projects through its own parents); an unknown shortcut "
             "gives None")
    inline = ("openfisca_core.entities.helpers.find_role", "openfisca_core.entities.role.Role.key",
              f"{PROJ}.entity_to_person_projector.EntityToPersonProjector.__init__",
              f"{PROJ}.first_person_to_entity_projector.FirstPersonToEntityProjector.__init__",
              f"{PROJ}.unique_role_to_entity_projector.UniqueRoleToEntityProjector.__init__")
    SHORTCUT = {"person-to-group": "household", "first-person": "first_person", "unique-role": "referent", "unique-subrole": "first_parent",
                "unknown-from-person": "company", "unknown-from-group": "children"}

    def setup(self, I, ctx, case):
        kind, hist = case
        R = I.resolve_qualified
        ROLE = R("openfisca_core.entities.role.Role")
        desc = lambda k: Opaque(None, "description", {"fields": {"key": k, "plural": None, "label": None, "doc": None}})
        mk_role = lambda k, mx, subs=None: Obj(ROLE, {"description": desc(k), "max": mx, "subroles": subs}, label="role:" + k)
        first_parent, second_parent = mk_role("first_parent", 1), mk_role("second_parent", 1)
        roles = ListVal([mk_role("parent", 2, ListVal([first_parent, second_parent])), mk_role("child", None), mk_role("referent", 1)])
        pent = Obj(R("openfisca_core.entities.entity.Entity"), {"key": "person", "is_person": True}, label="person-entity")
        gent = Obj(R("openfisca_core.entities.group_entity.GroupEntity"), {"key": "household", "roles": roles, "containing_entities": TupleVal([]),
                                                                           "is_person": False}, label="household-entity")
        sim = Obj(R("openfisca_core.simulations.simulation.Simulation"), {}, label="sim")
        persons = Obj(R(POP), {"entity": pent, "simulation": sim}, label="persons")
        hh = Obj(R(GPOP), {"entity": gent, "simulation": sim, "members": persons}, label="households")
        sim.fields["populations"] = dict_of([("person", persons), ("household", hh)])
        sim.fields["persons"] = persons
        frm = persons if kind in ("person-to-group", "unknown-from-person") else hh
        parent = Obj(R(f"{PROJ}.projector.Projector"), {"reference_entity": frm, "parent": None}, label="parent-of-this-call")
        a = {"population": frm, "shortcut": self.SHORTCUT[kind], "parent": parent, "__kind": kind, "__persons": persons, "__hh": hh,
             "__roles": {"referent": roles.items[2], "first_parent": first_parent}, "__earlier": None}
        if hist != "first-use":
            other = Obj(R(f"{PROJ}.projector.Projector"), {"reference_entity": frm, "parent": None}, label="parent-of-an-earlier-call")
            f, _ = self.target(I)
            ctx.depth += 1
            try:
                a["__earlier"] = I.inline_call(ctx, f, [], {"population": frm, "shortcut": self.SHORTCUT[kind], "parent": other})
                a["__earlier_none"] = I.inline_call(ctx, f, [], {"population": frm, "shortcut": self.SHORTCUT[kind], "parent": None})
            finally:
                ctx.depth -= 1
        return a

    def post(self, I, ctx, a, out, old):
        kind = a["__kind"]
        if out[0] != "return":
            return [("no-exception", False)]
        r = out[1]
        if kind.startswith("unknown"):
            return [("an-unknown-shortcut-gives-no-projector", r is None)]
        if not isinstance(r, Obj):
            return [("returns-a-projector", False)]
        want_cls, ref = {"person-to-group": ("entity_to_person_projector.EntityToPersonProjector", a["__hh"]),
                         "first-person": ("first_person_to_entity_projector.FirstPersonToEntityProjector", a["__persons"]),
                         "unique-role": ("unique_role_to_entity_projector.UniqueRoleToEntityProjector", a["__persons"]),
                         "unique-subrole": ("unique_role_to_entity_projector.UniqueRoleToEntityProjector", a["__persons"])}[kind]
        res = [("a-projector-of-the-kind-the-shortcut-names", r.cls is I.resolve_qualified(f"{PROJ}.{want_cls}")),
               ("onto-the-population-the-shortcut-names", r.fields.get("reference_entity") is ref),
               ("chained-under-the-parent-of-this-call", r.fields.get("parent") is a["parent"])]
        if kind in ("first-person", "unique-role", "unique-subrole"):
            res.append(("projecting-the-group-it-was-asked-from", r.fields.get("target_entity") is a["__hh"]))
        if kind in ("unique-role", "unique-subrole"):
            res.append(("through-the-role-the-shortcut-names", r.fields.get("role") is a["__roles"]["referent" if kind == "unique-role" else "first_parent"]))
        if a["__earlier"] is not None:
            res.append(("not-a-projector-resolved-before-under-another-parent", r is not a["__earlier"] and r is not a["__earlier_none"]))
        return res

    def probes(self, case):
        return [{"callee": self.name, "script": NATIVE, "op": "projector_chains", "count": 2, "eid": [1, 0], "values": [10.0, 20.0], "inrole": [True, True]}]

    def judge_native(self, I, case, call, nat):
        return judge(nat)



class PopulationGetattr(Contract):
    name = f"{POP}.__getattr__"
    prop = ("C10", "C13")
    top_level = True
    cases = ("a-projection", "not-an-attribute")
    descr = ("an unknown attribute of a population is resolved as a projection shortcut each time it is used: the projector the "
             "shortcut helper returns for this population is handed on, nothing is kept on the population (so nothing of it can be "
             "carried into a clone); what is no shortcut is an AttributeError")

    def setup(self, I, ctx, case):
        R = I.resolve_qualified
        pent = Obj(R("openfisca_core.entities.entity.Entity"), {"key": "person", "is_person": True}, label="person-entity")
        persons = Obj(R(POP), {"entity": pent, "count": Sym(ctx.fresh_int("count"))}, label="persons")
        proj = Obj(R(f"{PROJ}.entity_to_person_projector.EntityToPersonProjector"), {"reference_entity": None, "parent": None}, label="projector")
        ctx.ghost["helper_result"] = proj if case == "a-projection" else None
        return {"self": persons, "attribute": "household", "__fields0": dict(persons.fields), "__proj": proj, "__case": case}

    @staticmethod
    def local_contracts():
        nm = f"{PROJ}.helpers.get_projector_from_shortcut"
        return {nm: rec(nm, "shortcut", [("return", lambda I, ctx, a: ctx.ghost["helper_result"])])}

    def post(self, I, ctx, a, out, old):
        calls = log_of(ctx, "shortcut")
        me = a["self"]
        res = [("asks-the-shortcut-helper-once-for-this-population-and-name",
                len(calls) == 1 and calls[0]["args"].get("population") is me and calls[0]["args"].get("shortcut") == "household" and calls[0]["args"].get("parent") in (None,)),
               ("nothing-is-kept-on-the-population", set(me.fields) == set(a["__fields0"]) and all(me.fields[k] is a["__fields0"][k] for k in a["__fields0"]))]
        if a["__case"] == "a-projection":
            res.append(("hands-on-the-projector-the-helper-returned", out[0] == "return" and out[1] is a["__proj"]))
        else:
            res.append(("what-is-no-shortcut-is-an-attribute-error", out[0] == "raise" and out[1].cls.name == "AttributeError"))
        return res


def lemmas(prop, timeout_ms):
    if prop != "C10":
        return []
    recs = []
    # a per-group sum of 0/1 weights is positive iff some member has weight 1 (any() = exists a member): induction on the prefix
    k, j = z3.Ints("k j")
    S = z3.Function("S_l", z3.IntSort(), z3.IntSort())
    Wt = z3.Function("W_l", z3.IntSort(), z3.IntSort())
    bit = lambda x: z3.And(Wt(x) >= 0, Wt(x) <= 1)
    P = lambda x: z3.And(S(x) >= 0, (S(x) > 0) == z3.Exists([j], z3.And(j >= 0, j < x, Wt(j) == 1)))
    L = [("any.base", [S(0) == 0], P(z3.IntVal(0))),
         ("any.step", [k >= 0, S(k + 1) == S(k) + Wt(k), bit(k), P(k)], P(k + 1))]
    # positions: CNT(j, g) < CNT(k, g) for j < k in the same group (positions within a group are pairwise distinct)
    C = z3.Function("C_l", z3.IntSort(), z3.IntSort())      # CNT(., g) for a fixed g
    M = z3.Function("M_l", z3.IntSort(), z3.BoolSort())     # eid[.] == g
    Q = lambda x: z3.Implies(z3.And(j >= 0, j < x, M(j)), C(j) < C(x))
    mono = lambda x: C(x + 1) == C(x) + z3.If(M(x), 1, 0)
    L += [("positions-distinct.base", [], Q(z3.IntVal(0))),
          ("positions-distinct.step", [k >= 0, mono(k), mono(j), Q(k), z3.Implies(z3.And(j >= 0, j < k), C(j) <= C(k))], Q(k + 1))]
    # counting lemmas for C(k) = #{j < k | M(j)} (the ghost CNT(., g) for a fixed group g, M(j) = "j is in g")
    Cc = z3.Function("Cc_l", z3.IntSort(), z3.IntSort())
    Mm = z3.Function("Mm_l", z3.IntSort(), z3.BoolSort())
    Ww = z3.Function("Ww_l", z3.IntSort(), z3.IntSort(), z3.IntSort())
    kk, rr, nn, jj = z3.Ints("kk rr nn jj")
    rec_ = lambda x: Cc(x + 1) == Cc(x) + z3.If(Mm(x), 1, 0)
    allrec = z3.ForAll([jj], z3.Implies(jj >= 0, rec_(jj)), patterns=[Cc(jj + 1)])
    # monotone: j <= k -> C(j) <= C(k)    (induction on k)
    Pm = lambda x: z3.ForAll([jj], z3.Implies(z3.And(jj >= 0, jj <= x), Cc(jj) <= Cc(x)), patterns=[Cc(jj)])
    L += [("count-is-monotone.base", [], Pm(z3.IntVal(0))),
          ("count-is-monotone.step", [kk >= 0, rec_(kk), Pm(kk)], Pm(kk + 1)),
          # position below size: M(j), j < N -> C(j) < C(N)
          ("position-is-below-the-size", [allrec, jj >= 0, jj < nn, Mm(jj), z3.ForAll([rr], z3.Implies(z3.And(rr >= 0, rr <= nn), Cc(rr) <= Cc(nn)), patterns=[Cc(rr)])],
           Cc(jj) < Cc(nn))]
    # every rank below the count is taken: r < C(k) -> some i < k with M(i) and C(i) = r   (induction on k, witness W(k, r))
    Pw = lambda x: z3.ForAll([rr], z3.Implies(z3.And(rr >= 0, rr < Cc(x)), z3.And(Ww(x, rr) >= 0, Ww(x, rr) < x, Mm(Ww(x, rr)), Cc(Ww(x, rr)) == rr)),
                             patterns=[Ww(x, rr)])
    wit = z3.If(rr < Cc(kk), Ww(kk, rr), kk)
    L += [("every-rank-is-taken.base", [Cc(0) == 0], Pw(z3.IntVal(0))),
          ("every-rank-is-taken.step", [kk >= 0, Cc(0) == 0, rec_(kk), Pw(kk), rr >= 0, rr < Cc(kk + 1)],
           z3.And(wit >= 0, wit < kk + 1, Mm(wit), Cc(wit) == rr))]
    # two strictly increasing enumerations of the same set coincide (strong induction on the position); used by value_from_person
    Fa = z3.Function("Fa_l", z3.IntSort(), z3.IntSort())
    Fb = z3.Function("Fb_l", z3.IntSort(), z3.IntSort())
    wa = z3.Function("wa_l", z3.IntSort(), z3.IntSort())
    wb = z3.Function("wb_l", z3.IntSort(), z3.IntSort())
    na, nb, p, x, y = z3.Ints("na nb p x y")
    inc = lambda Ff, nn: z3.ForAll([x, y], z3.Implies(z3.And(0 <= x, x < y, y < nn), Ff(x) < Ff(y)), patterns=[z3.MultiPattern(Ff(x), Ff(y))])
    a_in_b = z3.ForAll([x], z3.Implies(z3.And(0 <= x, x < na), z3.And(0 <= wa(x), wa(x) < nb, Fb(wa(x)) == Fa(x))), patterns=[Fa(x)])
    b_in_a = z3.ForAll([x], z3.Implies(z3.And(0 <= x, x < nb), z3.And(0 <= wb(x), wb(x) < na, Fa(wb(x)) == Fb(x))), patterns=[Fb(x)])
    ih = z3.ForAll([x], z3.Implies(z3.And(0 <= x, x < p), z3.And(x < nb, Fa(x) == Fb(x))), patterns=[Fa(x)])
    allp = z3.ForAll([x], z3.Implies(z3.And(0 <= x, x < na), z3.And(x < nb, Fa(x) == Fb(x))), patterns=[Fa(x)])
    L += [("increasing-enumerations-of-the-same-set-coincide.step", [inc(Fa, na), inc(Fb, nb), a_in_b, b_in_a, ih, p >= 0, p < na], z3.And(p < nb, Fa(p) == Fb(p))),
          ("increasing-enumerations-of-the-same-set-coincide.length", [inc(Fa, na), inc(Fb, nb), a_in_b, b_in_a, na >= 0, nb >= 0, allp, na < nb], z3.BoolVal(False))]
    # the sorting permutation of a permutation is its inverse (argsort(argsort(x)) is the rank): P a bijection of [0,C) with inverse
    # Q, S a bijection of [0,C) with inverse T, P o S non-decreasing  ==>  S = Q. h = P o S is injective and non-decreasing, hence
    # h(p) >= p (induction upwards) and h(p) <= p (induction downwards from C-1), hence h = id and S(p) = Q(P(S(p))) = Q(p).
    Pp = z3.Function("P_l", z3.IntSort(), z3.IntSort())
    Qq = z3.Function("Q_l", z3.IntSort(), z3.IntSort())
    Ss = z3.Function("S2_l", z3.IntSort(), z3.IntSort())
    Tt = z3.Function("T_l", z3.IntSort(), z3.IntSort())
    Cn, pp, xx, yy = z3.Ints("Cn pp xx yy")
    bij = lambda F, Gi: z3.ForAll([xx], z3.Implies(z3.And(xx >= 0, xx < Cn), z3.And(F(xx) >= 0, F(xx) < Cn, Gi(F(xx)) == xx, Gi(xx) >= 0, Gi(xx) < Cn, F(Gi(xx)) == xx)),
                                  patterns=[F(xx), Gi(xx)])
    hh = lambda x: Pp(Ss(x))
    sortedh = z3.ForAll([xx, yy], z3.Implies(z3.And(0 <= xx, xx < yy, yy < Cn), hh(xx) <= hh(yy)), patterns=[z3.MultiPattern(Ss(xx), Ss(yy))])
    base = [bij(Pp, Qq), bij(Ss, Tt), sortedh]
    L += [("sorting-a-permutation.up.base", base + [Cn > 0], hh(z3.IntVal(0)) >= 0),
          ("sorting-a-permutation.up.step", base + [pp >= 0, pp + 1 < Cn, hh(pp) >= pp], hh(pp + 1) >= pp + 1),
          ("sorting-a-permutation.down.base", base + [Cn > 0], hh(Cn - 1) <= Cn - 1),
          ("sorting-a-permutation.down.step", base + [pp >= 0, pp + 1 < Cn, hh(pp + 1) <= pp + 1], hh(pp) <= pp),
          ("sorting-a-permutation.conclusion", base + [pp >= 0, pp < Cn, hh(pp) >= pp, hh(pp) <= pp], Ss(pp) == Qq(pp))]
    for name, hyps, goal in L:
        verdict, backend, model, dt = smt.prove(hyps, goal, timeout_ms=timeout_ms)
        recs.append({"name": "lemma." + name, "where": "contracts/c10_groups.py", "kind": "lemma", "verdict": verdict,
                     "backend": backend, "time": round(dt, 4), "contract": "c10-lemmas", "case": "None"})
    return recs


CONTRACTS = [GetRank(), ProjectorFromShortcut(), PopulationGetattr(), GroupSum(), GroupNbPersons(), GroupAny(), GroupProject(), MembersPosition(), ValueFromPerson(), ValueNthPerson(), GroupReduce(), GroupWrappers(), GroupWrappersMin(), GroupWrappersAll(), ValueFromFirstPerson(), ProjectorTransform(), ProjectorTransforms(), ProjectorTransformsFirst(), ProjectorTransformsRole()]
