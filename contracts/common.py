"""Shared helpers for contracts: symbolic Instants / Periods and the calendar denotation of periods."""
from __future__ import annotations

import z3

from pyvc import builtins_ as B
from pyvc import smt
from pyvc import theory_cal as cal
from pyvc.values import EnumMember, ExcVal, Obj, Sym, TupleVal, Unsupported

P = "openfisca_core.periods"
UNITS = ("weekday", "week", "day", "month", "year", "eternity")
DATED_UNITS = ("weekday", "week", "day", "month", "year")
WEIGHT = {"weekday": 100, "week": 200, "day": 100, "month": 200, "year": 300, "eternity": 400}
ISOFORMAT = ("day", "month", "year")
ISOCALENDAR = ("weekday", "week", "year")


def instant_cls(I):
    return I.resolve_qualified(f"{P}.instant_.Instant")


def period_cls(I):
    return I.resolve_qualified(f"{P}.period_.Period")


def dateunit(I, name):
    c = I.resolve_qualified(f"{P}.date_unit.DateUnit")
    return c.enum_members[name.upper()]


def unit_name(u):
    if isinstance(u, EnumMember):
        return u.value
    if isinstance(u, str):
        return u
    raise Unsupported(f"symbolic / unknown unit {u!r}")


def zi(v):
    return B.zint(v)


def mk_instant(I, y, m, d):
    return TupleVal([B.wrap(zi(y)), B.wrap(zi(m)), B.wrap(zi(d))], instant_cls(I))


def mk_period(I, unit, start, size):
    u = dateunit(I, unit) if isinstance(unit, str) else unit
    return TupleVal([u, start, B.wrap(zi(size)) if not isinstance(size, int) else size], period_cls(I))


def sym_instant(I, ctx, base="s", valid=True):
    y, m, d = ctx.fresh_int(base + "y"), ctx.fresh_int(base + "m"), ctx.fresh_int(base + "d")
    if valid:
        ctx.assume(cal.valid(y, m, d))
    return mk_instant(I, y, m, d), (y, m, d)


def fresh_valid_instant(I, ctx, base="r"):
    return sym_instant(I, ctx, base, valid=True)


def ymd(inst):
    return tuple(zi(x) for x in inst.items)


def ORD(inst):
    y, m, d = ymd(inst)
    return cal.ordinal(y, m, d)


def TIDX(inst):
    y, m, d = ymd(inst)
    return cal.tidx(y, m)


def zmin(a, b):
    return z3.If(a <= b, a, b)


def add_months_triple(y, m, d, n):
    """calendar month addition with end-of-month clipping -> (t2, d2)"""
    t2 = cal.tidx(y, m) + n
    return t2, zmin(d, cal.DIM(t2))


def end_excl(unit, start, size):
    """ordinal of (start (+) size units): the first day after the period (DESIGN 3.1)"""
    y, m, d = ymd(start)
    size = zi(size)
    if unit == "year":
        t2, d2 = add_months_triple(y, m, d, 12 * size)
        return cal.OM(t2) + d2 - 1
    if unit == "month":
        t2, d2 = add_months_triple(y, m, d, size)
        return cal.OM(t2) + d2 - 1
    if unit == "week":
        return cal.ordinal(y, m, d) + 7 * size
    if unit in ("day", "weekday"):
        return cal.ordinal(y, m, d) + size
    raise Unsupported(f"no calendar denotation for unit {unit}")


def period_parts(p):
    unit, start, size = p.items
    return unit_name(unit), start, size


def first_day(p):
    return ORD(p.items[1])


def last_day(p):
    u, s, n = period_parts(p)
    return end_excl(u, s, n) - 1


def in_range_months(t):
    return z3.And(t >= cal.T_MIN, t <= cal.T_MAX - 12)


def instant_eq(a, b):
    ya, ma, da = ymd(a)
    yb, mb, db = ymd(b)
    return z3.And(ya == yb, ma == mb, da == db)


def is_instant(I, v):
    return isinstance(v, TupleVal) and v.cls is instant_cls(I)


def is_period(I, v):
    return isinstance(v, TupleVal) and v.cls is period_cls(I)


def raised(out, I, name):
    return out[0] == "raise" and out[1].cls.is_subclass(I.exc_classes[name] if name in I.exc_classes else I.builtins[name])


def exc(I, name):
    return ExcVal(I.exc_classes[name])


def ev_instant(ev, inst):
    return [ev(zi(x)) for x in inst.items]


def enc_instant(ev, inst):
    return {"t": "Instant", "v": ev_instant(ev, inst)}


def enc_period(ev, p):
    u, s, n = p.items
    return {"t": "Period", "unit": unit_name(u), "start": ev_instant(ev, s), "size": ev(zi(n))}


def enc_unit(u):
    return {"t": "DateUnit", "v": unit_name(u)}


# ----------------------------------------------------------------------
# tiny accessors verified by inlining at every use (DESIGN 2.4 a) -- listed in evidence
# ----------------------------------------------------------------------
ALWAYS_INLINE = {
    f"{P}.date_unit.DateUnitMeta.isoformat", f"{P}.date_unit.DateUnitMeta.isocalendar",
    f"{P}.date_unit.DateUnit.__contains__",
    f"{P}.instant_.Instant.year", f"{P}.instant_.Instant.month", f"{P}.instant_.Instant.day",
    f"{P}.instant_.Instant.__lt__", f"{P}.instant_.Instant.__le__", f"{P}.instant_.Instant.eternity",
    f"{P}.period_.Period.unit", f"{P}.period_.Period.start", f"{P}.period_.Period.size",
    f"{P}.period_.Period.eternity",
    f"{P}.helpers.unit_weights", f"{P}.helpers.unit_weight",
    "openfisca_core.tracers.simple_tracer.SimpleTracer.stack", "openfisca_core.tracers.full_tracer.FullTracer.stack",
    "openfisca_core.tracers.full_tracer.FullTracer.trees",
    "openfisca_core.populations.group_population.GroupPopulation.members_entity_id",
    "openfisca_core.populations.group_population.GroupPopulation.members_role",
}


def date_cache_model(I):
    """Ghost model of periods.config.date_by_instant_cache: a map with the representation invariant
    'cache[i] is the calendar date of i (so i is a valid date)'. get() forks into miss / hit;
    a store is checked against the invariant."""
    from pyvc.values import Builtin, Opaque
    from pyvc.interp import _MISSING

    def get(ctx, key, default=None):
        y, m, d = ymd(key)
        if ctx.choose([z3.BoolVal(True), cal.valid(y, m, d)]) == 0:
            return default
        return I.mk_date(y, m, d)

    def setitem(ctx, key, value):
        y, m, d = ymd(key)
        vy, vm, vd = (zi(value.fields[k]) for k in ("y", "m", "d"))
        ctx.oblige("date-cache-invariant", z3.And(cal.valid(y, m, d), vy == y, vm == m, vd == d), kind="invariant")

    def ga(ctx, name):
        if name == "get":
            return Builtin("date_cache.get", get)
        return _MISSING
    return Opaque(None, "date_by_instant_cache", {"getattr": ga, "setitem": setitem})


def install_common(I):
    I.always_inline |= ALWAYS_INLINE
    I.overrides[(f"{P}.config", "date_by_instant_cache")] = date_cache_model(I)
