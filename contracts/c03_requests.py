"""C03 -- ADD / DIVIDE / plain request matrix. Contracts on Simulation.calculate_add, calculate_divide,
_check_period_consistency and CorePopulation.__call__ (DESIGN 4 C03). Value clauses use the C04 contracts of
get_subperiods / size_in_* / named periods modularly."""
from __future__ import annotations

import z3

from pyvc import builtins_ as B
from pyvc import theory_cal as cal
from pyvc.contract import Contract
from pyvc.values import ExcVal, ListVal, Obj, Opaque, TupleVal, Unsupported

from .common import *  # noqa
from . import engine as E
from .c04_periods import SAME_FAMILY_SPLITS, aligned, sub_count, sym_period, period_requires, day_count

SIM = E.SIM
POP = "openfisca_core.populations._core_population.CorePopulation"


def eternity_period(I):
    return mk_period(I, "eternity", mk_instant(I, -1, -1, -1), -1)


def request_period(I, ctx, unit, align_to=None):
    if unit == "eternity":
        return eternity_period(I)
    p = sym_period(I, ctx, unit)
    if align_to is not None:
        ctx.assume(aligned(align_to, p.items[1]))
    return p


def origin(out):
    return getattr(out[1], "origin", None) if out[0] == "raise" else None


def native_script(mode, defp, period_enc):
    return ("import sys; sys.path.insert(0, '/verif/native')\n"
            "import c03_replay\n"
            f"outcome = c03_replay.run({mode!r}, {defp!r}, call['period'])\n")


class _Request(Contract):
    # ADD / DIVIDE requests also carry: C01 / C02 (values obtained from calculate are not written in place), C16 (summing a spread
    # input over its period goes through these pieces), C17 (every piece is read through calculate, so it is traced), C18 (a failing
    # piece leaves the others as they were)
    prop = ("C03", "C02", "C01", "C16", "C17", "C18")
    top_level = True
    cases = tuple((d, u) for d in UNITS for u in UNITS)
    mode = None

    def refusal(self, defp, unit):
        raise NotImplementedError

    def value_case(self, defp, unit):
        raise NotImplementedError

    def setup(self, I, ctx, case):
        defp, unit = case
        var = E.mk_variable(I, "v", defp)
        tbs = E.mk_tbs(I, {"v": var})
        sim = E.mk_simulation(I, tbs)
        period = request_period(I, ctx, unit, align_to=defp if self.value_case(defp, unit) else None)
        return {"self": sim, "variable_name": "v", "period": period}

    def call_descriptor(self, I, case, a, ev):
        defp, unit = case
        enc = enc_period(ev, a["period"]) if unit != "eternity" else {"t": "Period", "unit": "eternity", "start": [-1, -1, -1], "size": -1}
        return {"callee": self.name, "script": native_script(self.mode, defp, enc), "period": enc, "defp": defp,
                "mode": self.mode}

    def judge_native(self, I, case, call, nat):
        defp, unit = case
        if nat.get("kind") == "harness-error":
            return "undecided", str(nat)[:400]
        if self.refusal(defp, unit):
            if nat["kind"] == "return":
                return "violates", f"request that must be refused returned {nat['value']}"
            return "satisfies", "refused with " + nat.get("exc", "?")
        if self.value_case(defp, unit):
            if nat["kind"] == "raise":
                return "violates", "servable request raised " + nat.get("exc", "?") + ": " + nat.get("msg", "")
            v = nat["value"]
            return ("satisfies", "value equals the specification") if v.get("ok") else \
                ("violates", f"got {v.get('got')} expected {v.get('expected')}")
        return "satisfies", "cell not claimed"


class SimCalculateAdd(_Request):
    name = f"{SIM}.calculate_add"
    mode = "add"
    cases = tuple((d, u) for d in UNITS for u in UNITS
                  if (d == "eternity" or u == "eternity" or WEIGHT[u] < WEIGHT[d]) or (u, d) in SAME_FAMILY_SPLITS)
    descr = ("ADD returns the sum of the variable over the consecutive definition-period pieces tiling the request; "
             "eternal variable, eternal period or a period shorter than the definition period are refused")

    def refusal(self, defp, unit):
        return defp == "eternity" or unit == "eternity" or WEIGHT[unit] < WEIGHT[defp]

    def value_case(self, defp, unit):
        return (unit, defp) in SAME_FAMILY_SPLITS

    def post(self, I, ctx, a, out, old):
        defp = unit_name(a["self"].fields["tax_benefit_system"].fields["variables"].items[("c", "v")].fields["definition_period"])
        p = a["period"]
        unit = period_parts(p)[0]
        if self.refusal(defp, unit):
            return [("unservable-request-refused", out[0] == "raise" and origin(out) is None)]
        if not self.value_case(defp, unit):
            return []
        if out[0] == "raise":
            return [("only-sub-calculations-may-fail", origin(out) == "callee:calculate")]
        r = out[1]
        if not isinstance(r, E.SigmaVal):
            return [("returns-sum-over-pieces", False)]
        n = r.n
        res = [("sum-starts-from-zero", isinstance(r.start, int) and r.start == 0),
               ("one-term-per-piece", n == sub_count(p, defp))]
        i = ctx.fresh_int("i")
        gi = z3.And(i >= 0, i < n)
        t = r.term(i)
        if not (isinstance(t, Opaque) and t.e is not None and z3.is_app(t.e) and t.e.decl().eq(E.VAL)):
            return res + [("each-term-is-the-variable-at-one-piece", False)]
        vid, uid, ty, tm, td, tsz = [t.e.arg(k) for k in range(6)]
        y, m, d = ymd(p.items[1])
        if defp in ("year", "month"):
            place = z3.And(cal.tidx(ty, tm) == cal.tidx(y, m) + (12 * i if defp == "year" else i), td == 1)
        else:
            place = cal.ordinal(ty, tm, td) == cal.ordinal(y, m, d) + (7 * i if defp == "week" else i)
        res.append(("term-i-is-the-variable-at-piece-i",
                    z3.Implies(gi, z3.And(vid == E.name_id("v"), uid == E.UNIT_ID[defp], tsz == 1,
                                          cal.valid(ty, tm, td), place))))
        return res


def _divide_claimed(d, u):
    return (d == "eternity" or u == "eternity" or WEIGHT[u] > WEIGHT[d]) or (d, u) in SAME_FAMILY_SPLITS


class SimCalculateDivide(_Request):
    name = f"{SIM}.calculate_divide"
    mode = "divide"
    descr = ("DIVIDE returns the value for the enclosing definition period divided by the number of requested units "
             "it contains; eternal variable or period, size above one, or a unit longer than the definition period are refused")

    def refusal(self, defp, unit):
        return defp == "eternity" or unit == "eternity" or WEIGHT[unit] > WEIGHT[defp]

    def value_case(self, defp, unit):
        return (defp, unit) in SAME_FAMILY_SPLITS

    # cells the statement speaks about: refusals and same-family value cells (size one / above one)
    cases = tuple((d, u, s) for d in UNITS for u in UNITS for s in ("one", "many")
                  if not (u == "eternity" and s == "many") and
                  ((d == "eternity" or u == "eternity" or WEIGHT[u] > WEIGHT[d]) or (d, u) in SAME_FAMILY_SPLITS))

    def setup(self, I, ctx, case):
        defp, unit, sz = case
        var = E.mk_variable(I, "v", defp)
        tbs = E.mk_tbs(I, {"v": var})
        sim = E.mk_simulation(I, tbs)
        period = request_period(I, ctx, unit, align_to=defp if (unit == defp and self.value_case(defp, unit)) else None)
        if unit != "eternity":
            n = zi(period.items[2])
            ctx.assume(n == 1 if sz == "one" else n > 1)
        return {"self": sim, "variable_name": "v", "period": period}

    def call_descriptor(self, I, case, a, ev):
        return super().call_descriptor(I, case[:2], a, ev)

    def judge_native(self, I, case, call, nat):
        defp, unit, sz = case
        if sz == "many":
            if nat.get("kind") == "return":
                return "violates", f"request of size above one returned {nat['value']}"
            return "satisfies", "refused"
        return super().judge_native(I, (defp, unit), call, nat)

    def post(self, I, ctx, a, out, old):
        defp = unit_name(a["self"].fields["tax_benefit_system"].fields["variables"].items[("c", "v")].fields["definition_period"])
        p = a["period"]
        unit, start, size = period_parts(p)
        many = unit != "eternity" and not (isinstance(size, int) and size == 1) and z3.is_false(z3.simplify(zi(size) == 1))
        if self.refusal(defp, unit):
            return [("unservable-request-refused", out[0] == "raise" and origin(out) is None)]
        if out[0] == "raise":
            # size > 1 must be refused; size 1 may only fail inside the sub-calculation
            return [("raises-only-for-size-above-one-or-in-the-sub-calculation",
                     z3.Or(zi(size) > 1, z3.BoolVal(origin(out) == "callee:calculate")))]
        res = [("size-above-one-refused", zi(size) == 1)]
        if not self.value_case(defp, unit):
            return res
        r = out[1]
        ok = isinstance(r, Opaque) and r.e is not None and z3.is_app(r.e) and r.e.decl().eq(E.ARR_DIV) and \
            z3.is_app(r.e.arg(0)) and r.e.arg(0).decl().eq(E.VAL)
        if not ok:
            return res + [("returns-enclosing-value-divided-by-count", False)]
        k = r.e.arg(1)
        vid, uid, ty, tm, td, tsz = [r.e.arg(0).arg(j) for j in range(6)]
        y, m, d = ymd(start)
        o = cal.ordinal(y, m, d)
        if defp == "year":
            encl = z3.And(ty == y, tm == 1, td == 1)
            t0 = cal.tidx(y, 1)
            count = {"year": z3.IntVal(1), "month": z3.IntVal(12), "day": cal.OM(t0 + 12) - cal.OM(t0)}[unit]
        elif defp == "month":
            encl = z3.And(ty == y, tm == m, td == 1)
            count = {"month": z3.IntVal(1), "day": cal.DIM(cal.tidx(y, m))}[unit]
        elif defp == "week":
            encl = z3.And(cal.valid(ty, tm, td), cal.ordinal(ty, tm, td) == o - cal.weekday0(o))
            count = {"week": z3.IntVal(1), "weekday": z3.IntVal(7)}[unit]
        else:
            encl = z3.And(ty == y, tm == m, td == d)
            count = z3.IntVal(1)
        res.append(("value-is-that-of-the-enclosing-definition-period",
                    z3.Implies(zi(size) == 1, z3.And(vid == E.name_id("v"), uid == E.UNIT_ID[defp], tsz == 1, encl))))
        res.append(("divided-by-number-of-requested-units-in-it", z3.Implies(zi(size) == 1, k == count)))
        return res


class SimCheckPeriodConsistency(Contract):
    name = f"{SIM}._check_period_consistency"
    prop = ("C03",)
    top_level = True
    cases = tuple((d, u) for d in UNITS for u in UNITS) + tuple((d, d, "after-a-valid-request") for d in UNITS if d != "eternity")
    descr = ("a plain request is refused unless the variable is eternal or the period has the definition unit and size one - "
             "whatever was requested before on the same simulation (an earlier valid request of the same variable does not make a "
             "later one of another size pass)")

    def setup(self, I, ctx, case):
        defp, unit = case[0], case[1]
        var = E.mk_variable(I, "v", defp)
        tbs = E.mk_tbs(I, {"v": var})
        sim = E.mk_simulation(I, tbs)
        if len(case) == 3:
            # history: the same variable was requested before for one definition period (accepted)
            earlier = request_period(I, ctx, unit)
            ctx.assume(zi(period_parts(earlier)[2]) == 1)
            f, _ = self.target(I)
            ctx.depth += 1
            try:
                I.inline_call(ctx, f, [], {"self": sim, "period": earlier, "variable": var})
            finally:
                ctx.depth -= 1
        return {"self": sim, "period": request_period(I, ctx, unit), "variable": var}

    def must_raise(self, a):
        defp = unit_name(a["variable"].fields["definition_period"])
        unit, start, size = period_parts(a["period"])
        if defp == "eternity":
            return z3.BoolVal(False)
        if unit != defp:
            return z3.BoolVal(True)
        return zi(size) != 1

    def outcomes(self, I, ctx, a, old):
        if ctx.branch(self.must_raise(a)):
            return ("raise", exc(I, "ValueError"))
        return ("return", None)

    def post(self, I, ctx, a, out, old):
        mr = self.must_raise(a)
        if out[0] == "raise":
            return [("raises-only-for-unservable-period", mr), ("raises-ValueError", raised(out, I, "ValueError"))]
        return [("unservable-period-refused", z3.Not(mr))]

    def call_descriptor(self, I, case, a, ev):
        defp, unit = case
        enc = enc_period(ev, a["period"]) if unit != "eternity" else {"t": "Period", "unit": "eternity", "start": [-1, -1, -1], "size": -1}
        return {"callee": self.name, "script": native_script("check", defp, enc), "period": enc, "defp": defp, "mode": "check"}

    def judge_native(self, I, case, call, nat):
        defp, unit = case
        p = call["period"]
        must = defp != "eternity" and (p["unit"] != defp or p["size"] != 1)
        if nat.get("kind") == "harness-error":
            return "undecided", str(nat)[:400]
        if must and nat["kind"] == "return":
            return "violates", "period that the definition period cannot serve was accepted"
        if not must and nat["kind"] == "raise":
            return "violates", "servable period refused: " + nat.get("msg", "")
        return "satisfies", "accept/refuse as specified"


class _Tag(Contract):
    """call-site contract returning a tagged opaque result (dispatch checks)"""
    prop = ()
    tag = ""

    def outcomes(self, I, ctx, a, old):
        ctx.ghost.setdefault("dispatch", []).append((self.tag, a.get("variable_name"), a.get("period")))
        return ("return", Opaque(None, self.tag))

    def post(self, I, ctx, a, out, old):
        return []


class PopCall(Contract):
    name = f"{POP}.__call__"
    prop = ("C03",)
    top_level = True
    cases = ("none", "add", "divide", "both", "both-reversed", "unknown", "empty")
    descr = "options dispatch: plain / ADD / DIVIDE; both options together and unknown options are refused"
    inline = (f"{POP}.check_period_validity", "openfisca_core.periods.helpers.period.register[*", "openfisca_core.periods.helpers.period",
              "openfisca_core.populations._errors.*")

    def setup(self, I, ctx, case):
        opt = I.resolve_qualified("openfisca_core.populations.types.Option")
        ADD, DIV = opt.enum_members["ADD"], opt.enum_members["DIVIDE"]
        options = {"none": None, "add": ListVal([ADD]), "divide": ListVal([DIV]), "both": ListVal([ADD, DIV]),
                   "both-reversed": ListVal([DIV, ADD]), "unknown": ListVal(["frobnicate"]), "empty": ListVal([])}[case]
        var = E.mk_variable(I, "v", "month")
        tbs = E.mk_tbs(I, {"v": var})
        sim = E.mk_simulation(I, tbs)
        ecls = I.resolve_qualified("openfisca_core.entities.entity.Entity")
        entity = Obj(ecls, {"key": "person"})
        pcls = I.resolve_qualified(POP)
        pop = Obj(pcls, {"simulation": sim, "entity": entity})
        return {"self": pop, "variable_name": "v", "period": sym_period(I, ctx, "month"), "options": options}

    def post(self, I, ctx, a, out, old):
        case = a["__case"] if "__case" in a else None
        disp = ctx.ghost.get("dispatch", [])
        o = a["options"]
        kind = "none" if o is None else "empty" if not o.items else \
            "unknown" if isinstance(o.items[0], str) else "both" if len(o.items) == 2 else o.items[0].name.lower()
        if kind in ("both", "unknown", "empty"):
            return [("incompatible-or-unknown-options-refused", out[0] == "raise"), ("nothing-calculated", not disp)]
        want = {"none": "calculate", "add": "calculate_add", "divide": "calculate_divide"}[kind]
        if out[0] != "return":
            return [("no-exception", False)]
        r = out[1]
        same_period = len(disp) == 1 and disp[0][2] is not None and B.eq_formula(I, ctx, disp[0][2], a["period"])
        return [("dispatched-to-" + want, len(disp) == 1 and disp[0][0] == want and disp[0][1] == "v"),
                ("same-period", same_period if not isinstance(same_period, bool) else z3.BoolVal(same_period)),
                ("returns-its-result", isinstance(r, Opaque) and r.tag == want)]

    def call_descriptor(self, I, case, a, ev):
        return None


class EntityCheckDefined(Contract):
    name = "openfisca_core.entities._core_entity.CoreEntity.check_variable_defined_for_entity"
    prop = ()

    def outcomes(self, I, ctx, a, old):
        return ("return", None)

    def post(self, I, ctx, a, out, old):
        return []


def dispatch_overrides():
    """contract table used while verifying CorePopulation.__call__ (tagged results)"""
    out = {}
    for nm in ("calculate", "calculate_add", "calculate_divide"):
        c = _Tag()
        c.name = f"{SIM}.{nm}"
        c.tag = nm
        out[c.name] = c
    return out


PopCall.local_contracts = staticmethod(dispatch_overrides)

CONTRACTS = [SimCalculateAdd(), SimCalculateDivide(), SimCheckPeriodConsistency(), PopCall(), EntityCheckDefined()]
