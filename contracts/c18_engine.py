"""Engine contracts serving C01 / C02 / C17 / C18 (DESIGN 4): Simulation.calculate, _calculate, _run_formula,
_cast_formula_result, _check_for_cycle, invalidate_spiral_variables, purge_cache_of_invalid_values, with the real
tracers executed inside. Callees of the function under test enter through recording call-site contracts; the
postconditions speak about the sequence of those calls, the stack, the trace tree and what was stored."""
from __future__ import annotations

import z3

from pyvc import builtins_ as B
from pyvc.contract import Contract, LoopSpec
from pyvc.values import (Builtin, ClassVal, DictVal, ExcVal, FuncVal, ListVal, Obj, Opaque, SetVal, Sym, SymList, TupleVal, SeqVal,
                         Unsupported)

from pyvc import theory_cal as cal
from .common import *  # noqa
from . import engine as E
from .c04_periods import sym_period
from .c13_clone import dict_of

SIM = E.SIM
HOLDER = "openfisca_core.holders.holder.Holder"
VAR = "openfisca_core.variables.variable.Variable"
SIMPLE = "openfisca_core.tracers.simple_tracer.SimpleTracer"
FULL = "openfisca_core.tracers.full_tracer.FullTracer"
TNODE = "openfisca_core.tracers.trace_node.TraceNode"
CPOP = "openfisca_core.populations._core_population.CorePopulation"


def arr(ctx, tag):
    return Opaque(ctx.fresh_const(tag, E.ARR), "array:" + tag, {})


class Rec(Contract):
    """recording call-site contract: each call is logged in ctx.ghost['log']; `alts` lists possible outcomes
    ('return', maker) / ('raise', class name); all alternatives are explored"""
    prop = ()
    tag = ""
    alts = (("return", None),)

    def outcomes(self, I, ctx, a, old):
        k = ctx.choose([z3.BoolVal(True)] * len(self.alts)) if len(self.alts) > 1 else 0
        kind, what = self.alts[k]
        entry = {"callee": self.tag, "args": a, "kind": kind}
        if getattr(self, "observe", None):
            entry.update(self.observe(I, ctx, a))
        ctx.ghost.setdefault("log", []).append(entry)
        if kind == "raise":
            cls = I.exc_classes.get(what) or I.resolve_qualified(what)
            e = ExcVal(cls)
            e.origin = "callee:" + self.tag
            entry["exc"] = e
            return ("raise", e)
        v = what(I, ctx, a) if callable(what) else what
        entry["value"] = v
        return ("return", v)

    def post(self, I, ctx, a, out, old):
        return []


def rec(name, tag, alts, observe=None):
    c = Rec()
    c.name, c.tag, c.alts, c.observe = name, tag, tuple(alts), observe
    return c


def stack_of(sim):
    tr = sim.fields["tracer"]
    if "_simple_tracer" in tr.fields:
        tr = tr.fields["_simple_tracer"]
    return tr.fields["_stack"]


CYCLE = "openfisca_core.errors.cycle_error.CycleError"
SPIRAL = "openfisca_core.errors.spiral_error.SpiralError"
MISMATCH = "openfisca_core.errors.period_mismatch_error.PeriodMismatchError"


class World18:
    def __init__(self, I, ctx, tracer="simple", stack_depth=0, defp="month"):
        R = I.resolve_qualified
        self.I = I
        ecls = R("openfisca_core.entities.entity.Entity")
        self.entity = Obj(ecls, {"key": "person", "plural": "persons"}, label="entity")
        self.var = Obj(R(VAR), {"name": "v", "entity": self.entity, "definition_period": dateunit(I, defp), "is_neutralized": False,
                                "value_type": I.builtins["float"], "dtype": "float32", "end": None}, label="var:v")
        self.tbs = E.mk_tbs(I, {"v": self.var})
        self.sim = Obj(R(SIM), {}, label="sim")
        # the holder was created earlier, with the definition the system had then: the system's CURRENT definition
        # (self.var) is what a request must be evaluated with
        self.stale_var = Obj(R(VAR), dict(self.var.fields), label="var:v(as-when-the-holder-was-created)")
        self.holder = Obj(R(HOLDER), {"variable": self.stale_var, "simulation": self.sim}, label="holder:v")
        self.pop = Obj(R("openfisca_core.populations.population.Population"),
                       {"entity": self.entity, "simulation": self.sim, "_holders": dict_of([("v", self.holder)]),
                        "count": B.wrap(ctx.fresh_int("count"))}, label="persons")
        self.holder.fields["population"] = self.pop
        frames = []
        outer = None
        trees = ListVal([])
        for i in range(stack_depth):
            p = mk_period(I, "month", mk_instant(I, 2000 + i, 1, 1), 1)
            frames.append(dict_of([("name", "outer%d" % i), ("period", p)]))
            node = Obj(R(TNODE), {"name": "outer%d" % i, "period": p, "parent": outer, "children": ListVal([]),
                                  "parameters": ListVal([]), "value": None, "start": 0.0, "end": 0.0}, label="node:outer%d" % i)
            if outer is None:
                trees.items.append(node)
            else:
                outer.fields["children"].items.append(node)
            outer = node
        self.frames = frames
        self.entry_node = outer
        simple = Obj(R(SIMPLE), {"_stack": ListVal(list(frames))}, label="simple-tracer")
        if tracer == "simple":
            self.tracer = simple
        else:
            self.tracer = Obj(R(FULL), {"_simple_tracer": simple, "_trees": trees, "_current_node": outer}, label="full-tracer")
        self.trees = trees
        self.stack = simple.fields["_stack"]
        self.marks = SetVal()
        self.sim.fields.update({"tax_benefit_system": self.tbs, "populations": dict_of([("person", self.pop)]),
                                "persons": self.pop, "tracer": self.tracer, "_trace": tracer == "full",
                                "invalidated_caches": self.marks, "max_spiral_loops": 1, "opt_out_cache": False,
                                "memory_config": None, "debug": False})


def log_of(ctx, *tags):
    return [e for e in ctx.ghost.get("log", []) if not tags or e["callee"] in tags]


# ----------------------------------------------------------------------
class SimCalculateFull(Contract):
    name = f"{SIM}.calculate"
    prop = ("C17", "C18", "C01")
    top_level = True
    cases = tuple((t, d) for t in ("simple", "full") for d in (0, 1, 2)) + (("simple", "period-given-as-text"), ("full", "period-given-as-text"),
                                                                            ("full", "same-request-traced-before"))
    descr = ("on every exit, normal or exceptional (any exception, a user interrupt included), the evaluation stack is what it was at "
             "entry, the trace position is restored, the request appears exactly once in the trace under the node current at entry "
             "(with the value returned), and the purge of invalidated entries has run; the value returned is what _calculate returns; "
             "a period given as text or number is turned into a period before anything is recorded, so that the frame the cycle "
             "detection compares carries the period itself")
    inline = (SIMPLE + ".*", FULL + ".*", TNODE + ".*")

    def setup(self, I, ctx, case):
        tracer, depth = case
        if depth == "period-given-as-text":
            w = World18(I, ctx, tracer, 1)
            ctx.ghost["converted"] = sym_period(I, ctx, "month")
            return {"self": w.sim, "variable_name": "v", "period": "2013-01", "__w": w, "__text": True,
                    "__stack0": list(w.stack.items), "__trees0": list(w.trees.items),
                    "__children0": list(w.entry_node.fields["children"].items) if w.entry_node else None}
        if depth == "same-request-traced-before":
            # history: the same variable at the same period was requested (and traced) before and returned another array; the trace of
            # this request records what THIS request returned
            w = World18(I, ctx, tracer, 0)
            p = mk_period(I, "month", mk_instant(I, 2017, 1, 1), 1)       # a concrete period: tables keyed by it stay executable
            f, _ = self.target(I)
            ctx.depth += 1
            try:
                earlier = I.inline_call(ctx, f, [], {"self": w.sim, "variable_name": "v", "period": p})
            except ExcVal:
                from pyvc.ctx import PathEnd
                raise PathEnd()
            finally:
                ctx.depth -= 1
            ctx.ghost["log"] = []
            return {"self": w.sim, "variable_name": "v", "period": p, "__w": w, "__earlier": earlier,
                    "__stack0": list(w.stack.items), "__trees0": list(w.trees.items), "__children0": None}
        w = World18(I, ctx, tracer, depth)
        return {"self": w.sim, "variable_name": "v", "period": sym_period(I, ctx, "month"), "__w": w,
                "__stack0": list(w.stack.items), "__trees0": list(w.trees.items),
                "__children0": list(w.entry_node.fields["children"].items) if w.entry_node else None}

    @staticmethod
    def local_contracts():
        val = lambda I, ctx, a: arr(ctx, "computed")
        return {f"{SIM}._calculate": rec(f"{SIM}._calculate", "_calculate", [("return", val), ("raise", "Exception"), ("raise", "KeyboardInterrupt")],
                                         observe=lambda I, ctx, a: {"top_frame": (stack_of(a["self"]).items or [None])[-1]}),
                "openfisca_core.periods.helpers.period": rec("openfisca_core.periods.helpers.period", "to_period", [("return", lambda I, ctx, a: ctx.ghost["converted"])]),
                f"{SIM}.purge_cache_of_invalid_values": rec(f"{SIM}.purge_cache_of_invalid_values", "purge", [("return", None)],
                                                            observe=lambda I, ctx, a: {"stack_len": len(stack_of(a["self"]).items)})}

    def apply(self, I, ctx, f, args, kwargs):
        # at call sites (C03: calculate_add / calculate_divide) the request enters as "raises, or the opaque value"
        return E.SimCalculate().apply(I, ctx, f, args, kwargs)

    def post(self, I, ctx, a, out, old):
        w = a["__w"]
        calc = log_of(ctx, "_calculate")
        purge = log_of(ctx, "purge")
        if a.get("__text"):
            conv = log_of(ctx, "to_period")
            a = dict(a, period=ctx.ghost["converted"])
            top = calc[0].get("top_frame") if calc else None
            pre = [("text-turned-into-a-period-once", len(conv) == 1),
                   ("the-frame-pushed-for-the-request-carries-the-period-not-the-text",
                    isinstance(top, DictVal) and any(v is a["period"] for v in top.items.values()))]
        else:
            pre = []
        res = pre + [("stack-as-at-entry", len(w.stack.items) == len(a["__stack0"]) and all(x is y for x, y in zip(w.stack.items, a["__stack0"]))),
               ("one-evaluation", len(calc) == 1 and calc[0]["args"]["variable_name"] == "v" and calc[0]["args"]["period"] is a["period"]),
               ("purge-runs-once-on-every-exit", len(purge) == 1)]
        if len(calc) != 1:
            return res
        if calc[0]["kind"] == "raise":
            res.append(("error-reaches-the-caller", out[0] == "raise" and out[1] is calc[0]["exc"]))
        else:
            res.append(("returns-the-evaluated-value", out[0] == "return" and out[1] is calc[0]["value"]))
        # purge happens after the frame was popped: the stack seen by purge is the entry stack
        if purge:
            res.append(("purge-sees-the-entry-stack", purge[0].get("stack_len", len(a["__stack0"])) == len(a["__stack0"])))
        if w.tracer.cls.name == "FullTracer":
            tr = w.tracer
            res.append(("trace-position-restored", tr.fields.get("_current_node") is w.entry_node))
            if w.entry_node is None:
                new = [n for n in w.trees.items if all(n is not o for o in a["__trees0"])]
                res.append(("request-traced-once-as-a-new-tree", len(new) == 1 and len(w.trees.items) == len(a["__trees0"]) + 1))
            else:
                ch = w.entry_node.fields["children"].items
                new = [n for n in ch if all(n is not o for o in a["__children0"])]
                res.append(("request-traced-once-under-the-node-current-at-entry",
                            len(new) == 1 and len(ch) == len(a["__children0"]) + 1 and len(w.trees.items) == len(a["__trees0"])))
            if len(new) == 1:
                n = new[0]
                res.append(("trace-node-names-the-request", n.fields.get("name") == "v" and n.fields.get("period") is a["period"] and
                            n.fields.get("parent") is w.entry_node))
                if calc[0]["kind"] == "return":
                    res.append(("trace-node-carries-the-value-returned", n.fields.get("value") is calc[0]["value"]))
                    if "__earlier" in a:
                        res.append(("not-the-value-an-earlier-request-of-the-same-variable-and-period-returned", n.fields.get("value") is not a["__earlier"]))
                else:
                    res.append(("trace-node-of-a-failed-request-has-no-value", n.fields.get("value") is None))
        return res


class SimInnerCalculate(Contract):
    name = f"{SIM}._calculate"
    prop = ("C01", "C18", "C17", "C02", "C03")
    top_level = True
    cases = ("month", "eternity")
    descr = ("a stored value wins over the formula; otherwise the formula result (default when there is none) is cast, stored and "
             "returned; a spiral yields the default without storing; whenever the evaluation fails nothing is stored")
    inline = (f"{SIM}.get_variable_population", f"{CPOP}.get_holder")

    def setup(self, I, ctx, case):
        w = World18(I, ctx, "simple", 1, defp=case)
        return {"self": w.sim, "variable_name": "v", "period": sym_period(I, ctx, "month"), "__w": w}

    @staticmethod
    def local_contracts():
        A = lambda tag: (lambda I, ctx, a: arr(ctx, tag))
        return {
            f"{SIM}._check_period_consistency": rec(f"{SIM}._check_period_consistency", "check_period", [("return", None), ("raise", "ValueError")]),
            f"{HOLDER}.get_array": rec(f"{HOLDER}.get_array", "get_array", [("return", None), ("return", A("stored"))]),
            f"{SIM}._check_for_cycle": rec(f"{SIM}._check_for_cycle", "check_for_cycle", [("return", None), ("raise", CYCLE), ("raise", SPIRAL)]),
            f"{SIM}._run_formula": rec(f"{SIM}._run_formula", "run_formula", [("return", None), ("return", A("formula")), ("raise", "Exception"), ("raise", SPIRAL)]),
            f"{HOLDER}.default_array": rec(f"{HOLDER}.default_array", "default_array", [("return", A("default"))]),
            f"{SIM}._cast_formula_result": rec(f"{SIM}._cast_formula_result", "cast", [("return", A("cast")), ("raise", "Exception")]),
            f"{HOLDER}.put_in_cache": rec(f"{HOLDER}.put_in_cache", "put_in_cache", [("return", None), ("raise", MISMATCH)]),
        }

    def post(self, I, ctx, a, out, old):
        w = a["__w"]
        log = log_of(ctx)
        tags = [e["callee"] for e in log]
        puts_ok = [e for e in log if e["callee"] == "put_in_cache" and e["kind"] == "return"]
        res = []
        chk = [e for e in log if e["callee"] == "check_period"]
        first_ok = len(chk) == 1 and tags[0] == "check_period" and chk[0]["args"].get("period") is a["period"] and chk[0]["args"].get("variable") is w.var
        if chk and chk[0]["kind"] == "raise":
            return [("a-request-the-definition-period-cannot-serve-is-refused-before-anything-is-read-or-run",
                     first_ok and tags == ["check_period"] and out[0] == "raise" and out[1] is chk[0]["exc"])]
        if out[0] == "raise":
            res.append(("nothing-stored-when-the-evaluation-fails", not puts_ok))
            res.append(("failure-comes-from-a-step-of-the-evaluation", getattr(out[1], "origin", None) is not None or
                        out[1].cls.name in ("ValueError", "VariableNotFoundError")))
            return res
        got = [e for e in log if e["callee"] == "get_array"]
        if not got:
            return [("store-consulted-first", False)]
        res.append(("period-checked-against-the-system's-current-definition-before-anything-is-read", first_ok))
        if got[0]["value"] is not None:
            res += [("stored-value-wins", out[1] is got[0]["value"]),
                    ("formula-not-run-when-a-value-is-stored", tags == ["check_period", "get_array"])]
            return res
        cyc = [e for e in log if e["callee"] == "check_for_cycle"]
        spiral = any(e["kind"] == "raise" and e["exc"].cls.name == "SpiralError" for e in log)
        if spiral:
            d = [e for e in log if e["callee"] == "default_array"]
            res += [("spiral-yields-the-default", len(d) == 1 and out[1] is d[-1]["value"]),
                    ("substituted-default-is-not-stored", not puts_ok and "put_in_cache" not in tags)]
            return res
        rf = [e for e in log if e["callee"] == "run_formula"]
        cast = [e for e in log if e["callee"] == "cast"]
        put = [e for e in log if e["callee"] == "put_in_cache"]
        ok_seq = len(cyc) == 1 and len(rf) == 1 and len(cast) == 1 and len(put) == 1
        res.append(("cycle-check-formula-cast-store-each-once-in-that-order",
                    ok_seq and tags.index("check_for_cycle") < tags.index("run_formula") < tags.index("cast") < tags.index("put_in_cache")))
        if not ok_seq:
            return res
        res.append(("cycle-checked-for-this-variable-and-period", cyc[0]["args"]["variable"] == "v" and cyc[0]["args"]["period"] is a["period"]))
        res.append(("formula-of-the-system's-current-definition-run-for-this-population-and-period",
                    rf[0]["args"]["variable"] is w.var and rf[0]["args"]["population"] is w.pop and rf[0]["args"]["period"] is a["period"]))
        if rf[0]["value"] is None:
            d = [e for e in log if e["callee"] == "default_array"]
            res.append(("no-formula-result-means-the-default", len(d) == 1 and cast[0]["args"]["value"] is d[0]["value"]))
        else:
            res.append(("formula-result-is-what-gets-cast", cast[0]["args"]["value"] is rf[0]["value"] and "default_array" not in tags))
        res.append(("cast-to-the-type-of-the-system's-current-definition", cast[0]["args"]["variable"] is w.var))
        res.append(("cast-result-stored-at-the-requested-period", put[0]["args"]["value"] is cast[0]["value"] and put[0]["args"]["period"] is a["period"]))
        res.append(("cast-result-returned", out[1] is cast[0]["value"]))
        return res


class SimRunFormula(Contract):
    name = f"{SIM}._run_formula"
    prop = ("C01", "C07", "C17")
    top_level = True
    cases = tuple((t, n) for t in (False, True) for n in ("none", "two-args", "three-args"))
    descr = ("the formula in force for the period is called with the population, the period and a view of the system's parameters "
             "(traced or not); without formula the result is None")
    inline = (f"{SIM}.trace", f"{SIM}.trace_parameters_at_instant",
              "openfisca_core.tracers.tracing_parameter_node_at_instant.TracingParameterNodeAtInstant.__init__")

    def setup(self, I, ctx, case):
        trace, kind = case
        w = World18(I, ctx, "full" if trace else "simple", 1)
        calls = []
        formula = None
        if kind != "none":
            n = 2 if kind == "two-args" else 3

            def fcall(ctx2, *args):
                calls.append(args)
                return arr(ctx2, "formula-result")
            formula = Opaque(None, "formula", {"call": fcall, "fields": {"__code__": Opaque(None, "code", {"fields": {"co_argcount": n}})}})
        w.formula = formula
        ctx.ghost["w18"] = w
        return {"self": w.sim, "variable": w.var, "population": w.pop, "period": sym_period(I, ctx, "month"), "__w": w, "__calls": calls}

    @staticmethod
    def local_contracts():
        return {f"{VAR}.get_formula": rec(f"{VAR}.get_formula", "get_formula", [("return", lambda I, ctx, a: ctx.ghost["w18"].formula)]),
                f"{E.TBS}.get_parameters_at_instant": rec(f"{E.TBS}.get_parameters_at_instant", "params_at",
                                                          [("return", lambda I, ctx, a: Opaque(None, "params-view", {}))])}

    def post(self, I, ctx, a, out, old):
        w, calls = a["__w"], a["__calls"]
        gf = log_of(ctx, "get_formula")
        res = [("formula-looked-up-for-the-period", len(gf) == 1 and gf[0]["args"]["period"] is a["period"] and gf[0]["args"]["self"] is w.var)]
        if w.formula is None:
            return res + [("no-formula-no-result", out[0] == "return" and out[1] is None and not calls)]
        if out[0] != "return" or len(calls) != 1:
            return res + [("formula-called-once", False)]
        args = calls[0]
        n = w.formula.attrs["fields"]["__code__"].attrs["fields"]["co_argcount"]
        res += [("called-with-population-and-period", len(args) == n and args[0] is w.pop and args[1] is a["period"]),
                ("result-is-the-formula-result", isinstance(out[1], Opaque) and out[1].tag.startswith("array:formula-result"))]
        if n == 3:
            pa = args[2]
            # the parameters argument is a function of the period giving a view of the system's current tree
            v = I.call(ctx, pa, [a["period"]], {})
            views = log_of(ctx, "params_at")
            ok = len(views) == 1 and views[0]["args"]["self"] is w.tbs and views[0]["args"]["instant"] is a["period"]
            res.append(("parameters-come-from-the-system-at-the-period", ok))
            if ok:
                if w.sim.fields["_trace"]:
                    res.append(("traced-view-wraps-the-system-view", isinstance(v, Obj) and v.cls.name == "TracingParameterNodeAtInstant" and
                                v.fields.get("parameter_node_at_instant") is views[0]["value"] and v.fields.get("tracer") is w.tracer))
                else:
                    res.append(("view-is-the-system-view", v is views[0]["value"]))
                # a second read of the same period (the tree may have been replaced in between: the site hands out a new view)
                v2 = I.call(ctx, pa, [a["period"]], {})
                views = log_of(ctx, "params_at")
                again = len(views) == 2
                res.append(("every-read-asks-the-system-again", again))
                if again:
                    inner = v2.fields.get("parameter_node_at_instant") if (w.sim.fields["_trace"] and isinstance(v2, Obj)) else v2
                    res.append(("and-gives-the-view-the-system-has-then", inner is views[1]["value"]))
        return res


def _has_loop_statement(f):
    import ast as _ast
    return any(isinstance(n, (_ast.For, _ast.While)) for n in _ast.walk(f.node))


class SimCheckForCycle(Contract):
    name = f"{SIM}._check_for_cycle"

    def applicable(self, I, case, f):
        if case[0] == "any-stack" and _has_loop_statement(f):
            return "the any-length-stack case is written for frames selected by a comprehension; this code selects them with a loop statement, for which the contract has no invariant"
        return None
    prop = ("C01", "C02", "C18")
    top_level = True
    # frames below the top one: each is (same variable?, same period?); the top frame is the request itself
    cases = tuple((sh, msl) for sh in ((), ("vp",), ("vq",), ("w",), ("vq", "w"), ("w", "vq", "vq"), ("vq", "vp"), ("w", "w"), ("vq", "vq"))
                  for msl in (1, 2)) + (("any-stack", None),)
    descr = ("a request already on the stack (same variable, same period) is a circular definition; otherwise the variable "
             "occurring max_spiral_loops times below is a spiral: frames are marked, then SpiralError; else nothing happens - "
             "proved for an evaluation stack of any length with symbolic frames and any max_spiral_loops (case any-stack), and on "
             "enumerated shapes of up to three frames")

    def setup(self, I, ctx, case):
        shape, msl = case
        if shape == "any-stack":
            return _AnyStackCycle.setup(I, ctx)
        w = World18(I, ctx, "simple", 0)
        p = sym_period(I, ctx, "month", "p")
        frames = []
        others = []
        for i, s in enumerate(shape):
            if s == "vp":
                fp = p
            else:
                fp = sym_period(I, ctx, "month", "q%d" % i)
                if s == "vq":
                    ctx.assume(z3.Not(B._zb(B.eq_formula(I, ctx, fp, p))))
            frames.append(dict_of([("name", "w" if s == "w" else "v"), ("period", fp)]))
        frames.append(dict_of([("name", "v"), ("period", p)]))      # the request's own frame (top)
        w.stack.items[:] = frames
        w.sim.fields["max_spiral_loops"] = msl
        return {"self": w.sim, "variable": "v", "period": p, "__w": w, "__shape": shape}

    @staticmethod
    def local_contracts():
        return {f"{SIM}.invalidate_spiral_variables": rec(f"{SIM}.invalidate_spiral_variables", "invalidate", [("return", None)])}

    def post(self, I, ctx, a, out, old):
        if "__st" in a:
            return _AnyStackCycle.post(I, ctx, a, out)
        shape = a["__shape"]
        msl = a["self"].fields["max_spiral_loops"]
        cyc = "vp" in shape
        nb = sum(1 for s in shape if s in ("vq", "vp"))
        inv = log_of(ctx, "invalidate")
        if cyc:
            return [("circular-definition-refused", out[0] == "raise" and out[1].cls.name == "CycleError"), ("nothing-marked", not inv)]
        if nb >= msl:
            return [("spiral-detected", out[0] == "raise" and out[1].cls.name == "SpiralError"),
                    ("frames-marked-before-the-error", len(inv) == 1 and inv[0]["args"]["variable"] == "v")]
        return [("no-error", out[0] == "return"), ("nothing-marked", not inv)]



class SymStack:
    """an evaluation stack of any length: frame i carries the variable named NAME(i) and the period PER(i) (all symbolic)"""

    def __init__(self, I, ctx, w, min_frames=1):
        self.n = ctx.fresh_int("frames")
        ctx.assume(self.n >= min_frames)
        STRS = z3.DeclareSort("VarName")
        self.NAME = z3.Function(ctx.fresh_name("FRAME_NAME"), z3.IntSort(), STRS)
        self.Y = z3.Function(ctx.fresh_name("FRAME_Y"), z3.IntSort(), z3.IntSort())
        self.M = z3.Function(ctx.fresh_name("FRAME_M"), z3.IntSort(), z3.IntSort())
        self.v = z3.Const(ctx.fresh_name("requested_variable"), STRS)
        strcls = I.builtins["str"]
        self.name_of = lambda i: Opaque(self.NAME(B._z(i)), "variable-name", {"cls": strcls})
        self.period_of = lambda i: mk_period(I, "month", mk_instant(I, Sym(self.Y(B._z(i))), Sym(self.M(B._z(i))), 1), 1)
        self.frame = lambda i: dict_of([("name", self.name_of(i)), ("period", self.period_of(i))])
        self.seq = SeqVal(self.n, self.frame, "stack")
        lst = w.stack
        w.sim.fields["tracer"].fields["_stack"] = SymList(self.seq)
        self.variable = Opaque(self.v, "variable-name", {"cls": strcls})

    def same_period(self, i, y, m):
        return z3.And(self.Y(i) == y, self.M(i) == m)


class _AnyStackCycle:
    descr = ("for an evaluation stack of ANY length (frames symbolic): the request is refused as a circular definition exactly when a "
             "frame below the top one carries the same variable and the same period; otherwise, when at least max_spiral_loops "
             "frames below carry the variable, frames are marked (once) and SpiralError is raised; otherwise nothing happens")

    @staticmethod
    def setup(I, ctx):
        w = World18(I, ctx, "simple", 0)
        st = SymStack(I, ctx, w)
        y, m = ctx.fresh_int("py"), ctx.fresh_int("pm")
        p = mk_period(I, "month", mk_instant(I, Sym(y), Sym(m), 1), 1)
        top = st.n - 1
        ctx.assume(z3.And(st.NAME(top) == st.v, st.Y(top) == y, st.M(top) == m))      # the top frame is the request itself
        msl = ctx.fresh_int("max_spiral_loops")
        ctx.assume(msl >= 1)
        w.sim.fields["max_spiral_loops"] = Sym(msl)
        return {"self": w.sim, "variable": st.variable, "period": p, "__st": st, "__y": y, "__m": m, "__msl": msl}

    @staticmethod
    def post(I, ctx, a, out):
        st, y, m, msl = a["__st"], a["__y"], a["__m"], a["__msl"]
        inv = log_of(ctx, "invalidate")
        i = z3.Int(ctx.fresh_name("i_frame"))
        below = lambda j: z3.And(j >= 0, j < st.n - 1)
        cyc = z3.Exists([i], z3.And(below(i), st.NAME(i) == st.v, st.same_period(i, y, m)))
        ens = ctx.ghost.get("mask_enums", {})
        cnts = [en.cnt for en in ens.values()]
        if len(cnts) != 1:
            return [("the-frames-of-the-variable-below-the-top-are-counted-once", False)]
        cnt = cnts[0]
        en = list(ens.values())[0]
        k = ctx.fresh_int("k_frame")
        counted = [("the-frames-counted-are-exactly-the-frames-of-the-requested-variable-below-the-top",
                    z3.And(en.n == st.n - 1, z3.Implies(below(k), B.zbool(en.mask.elem(k)) == (st.NAME(k) == st.v))))]
        if out[0] == "raise" and out[1].cls.name == "CycleError":
            return counted + [("refused-as-circular-only-when-the-same-variable-and-period-are-below", cyc), ("nothing-marked", not inv)]
        if out[0] == "raise" and out[1].cls.name == "SpiralError":
            return counted + [("not-a-circular-definition", z3.Not(cyc)), ("at-least-max_spiral_loops-frames-below-carry-the-variable", cnt >= msl),
                    ("frames-marked-once-before-the-error", len(inv) == 1 and inv[0]["args"]["variable"] is a["variable"])]
        if out[0] == "return":
            return counted + [("not-a-circular-definition", z3.Not(cyc)), ("fewer-than-max_spiral_loops-frames-below-carry-the-variable", cnt < msl), ("nothing-marked", not inv)]
        return [("no-other-outcome", False)]



class _MarkSite(Contract):
    """call-site contract of invalidate_cache_entry inside the marking loop: ghost `marked` = number of frames marked so far, all of
    them the topmost ones; a call must mark the next frame down (its name as text, its period) - anything else fails here"""
    name = f"{SIM}.invalidate_cache_entry"
    prop = ()

    def outcomes(self, I, ctx, a, old):
        st = ctx.ghost["symstack"]
        k = ctx.ghost["marked"]
        idx = st.n - 1 - k
        nm, per = a["variable"], a["period"]
        parts = getattr(nm, "parts", None)
        if parts and len(parts) == 1 and parts[0][0] == "str" and isinstance(parts[0][1], Opaque):
            nm = parts[0][1]            # str() of a name that is text already
        name_ok = isinstance(nm, Opaque) and nm.e is not None and nm.e.sort() == st.v.sort()
        ctx.oblige("mark.the-frame-marked-is-the-next-one-down-from-the-top",
                   z3.And(k >= 0, k < st.n, (nm.e == st.NAME(idx)) if name_ok else z3.BoolVal(False),
                          B._zb(B.eq_formula(I, ctx, per, st.period_of(B.wrap(idx))))), kind="requires")
        ctx.ghost["marked"] = smt.simp(k + 1)
        return ("return", None)

    def post(self, I, ctx, a, out, old):
        return []


class _AnyStackMarking:
    descr = ("for an evaluation stack of ANY length: the frames marked are the topmost ones, one after the other, down to and including "
             "the (max_spiral_loops+1)-th frame of the variable from the top - or the whole stack when the variable occurs less often")

    @staticmethod
    def setup(I, ctx):
        w = World18(I, ctx, "simple", 0)
        st = SymStack(I, ctx, w)
        ctx.ghost["symstack"] = st
        ctx.ghost["marked"] = z3.IntVal(0)
        msl = ctx.fresh_int("max_spiral_loops")
        ctx.assume(msl >= 1)
        w.sim.fields["max_spiral_loops"] = Sym(msl)
        # ghost: AB(k) = how many of the k topmost frames carry the variable
        st.AB = z3.Function(ctx.fresh_name("OF_VARIABLE_AMONG_TOP"), z3.IntSort(), z3.IntSort())
        ctx.assume(st.AB(0) == 0)
        return {"self": w.sim, "variable": st.variable, "__st": st, "__msl": msl, "__w": w}

    @staticmethod
    def unfold(ctx, st, k):
        ctx.assume(z3.Implies(z3.And(k >= 0, k < st.n), st.AB(k + 1) == st.AB(k) + z3.If(st.NAME(st.n - 1 - k) == st.v, 1, 0)))

    @staticmethod
    def inv(ctx, I, vars):
        st, msl = ctx.ghost["symstack"], B.zint(vars["self"].fields["max_spiral_loops"])
        k = B._z(vars["__k0"])
        return [("frames-marked-so-far-are-the-topmost-ones", ctx.ghost["marked"] == k),
                ("count-is-the-number-of-those-that-carry-the-variable", B.zint(vars["count"]) == st.AB(k)),
                ("the-cut-is-not-reached-yet", st.AB(k) <= msl)]

    @staticmethod
    def havoc(ctx, I, vars):
        st = ctx.ghost["symstack"]
        k = B._z(vars["__k0"])
        _AnyStackMarking.unfold(ctx, st, k)
        ctx.ghost["marked"] = k
        vars["count"] = Sym(ctx.fresh_int("hv_count"))

    @staticmethod
    def post(I, ctx, a, out):
        st, msl = a["__st"], a["__msl"]
        if out[0] != "return":
            return [("no-exception", False)]
        V = ctx.ghost["marked"]
        _AnyStackMarking.unfold(ctx, st, V - 1)
        return [("marked-the-topmost-frames-down-to-and-including-the-cut-or-the-whole-stack",
                 z3.And(V >= 0, V <= st.n, z3.Or(z3.And(V == st.n, st.AB(V) <= msl),
                                                 z3.And(V >= 1, st.AB(V) == msl + 1, st.AB(V - 1) == msl, st.NAME(st.n - V) == st.v)))),
                ("stack-untouched", a["__w"].sim.fields["tracer"].fields["_stack"].seq is st.seq)]



class SimInvalidateCacheEntry(Contract):
    name = f"{SIM}.invalidate_cache_entry"
    prop = ("C02",)
    top_level = True
    descr = "marking adds exactly the (variable, period) pair to the set of entries to purge and removes nothing from it"

    def setup(self, I, ctx, case):
        w = World18(I, ctx, "simple", 0)
        p0 = mk_period(I, "month", mk_instant(I, 2019, 1, 1), 1)
        marks = w.sim.fields["invalidated_caches"]
        earlier = TupleVal(["u", p0])
        I.call(ctx, I.getattr(ctx, marks, "add"), [earlier], {})
        earlier = list(marks.items.values())[0]
        return {"self": w.sim, "variable": "v", "period": sym_period(I, ctx, "month", "p"), "__earlier": earlier, "__marks": marks}

    def outcomes(self, I, ctx, a, old):
        # call-site form (callers that need more install their own): the pair joins the set
        t = TupleVal([a["variable"], a["period"]])
        I.call(ctx, I.getattr(ctx, a["self"].fields["invalidated_caches"], "add"), [t], {})
        return ("return", None)

    def post(self, I, ctx, a, out, old):
        if out[0] != "return":
            return [("no-exception", False)]
        marks = a["self"].fields["invalidated_caches"]
        vals = list(marks.items.values())
        new = [m for m in vals if m is not a["__earlier"]]
        return [("the-same-set-object", marks is a["__marks"]), ("what-was-marked-before-stays-marked", any(m is a["__earlier"] for m in vals)),
                ("exactly-one-new-mark", len(new) == 1),
                ("it-is-this-variable-at-this-period", len(new) == 1 and isinstance(new[0], TupleVal) and new[0].items[0] == "v" and new[0].items[1] is a["period"])]


class SimInvalidateSpiral(Contract):
    name = f"{SIM}.invalidate_spiral_variables"
    prop = ("C02",)
    top_level = True
    cases = tuple((sh, msl) for sh in (("v",), ("v", "v"), ("w", "v", "v"), ("v", "w", "v"), ("v", "v", "w", "v"), ("w", "v", "w", "v", "x"),
                                       ("v", "v", "v")) for msl in (1, 2)) + (("any-stack", None),)
    descr = ("exactly the frames from the top of the stack down to and including the (max_spiral_loops+1)-th frame of the variable "
             "are marked for purge - proved for a stack of any length (loop invariant over a ghost count of the frames marked; the "
             "marking call enters through a contract that only accepts the next frame down) and, with the real set of marks, on "
             "enumerated stack shapes of up to five frames")
    loop_heads = {0: 'for frame in reversed(self.tracer.stack)'}

    @property
    def inline(self):
        return () if (getattr(self, "current_case", None) or (None,))[0] == "any-stack" else (f"{SIM}.invalidate_cache_entry",)

    @property
    def loops(self):
        if not (getattr(self, "current_case", None) or (None,))[0] == "any-stack":
            return {}
        ls = LoopSpec(_AnyStackMarking.inv, _AnyStackMarking.havoc)
        ls.heap_frame = ()
        return {0: ls}

    def local_contracts(self):
        return {_MarkSite.name: _MarkSite()} if (getattr(self, "current_case", None) or (None,))[0] == "any-stack" else {}

    def setup(self, I, ctx, case):
        shape, msl = case
        self._any = shape == "any-stack"
        if self._any:
            return _AnyStackMarking.setup(I, ctx)
        w = World18(I, ctx, "simple", 0)
        frames = [dict_of([("name", s), ("period", sym_period(I, ctx, "month", "f%d" % i))]) for i, s in enumerate(shape)]
        w.stack.items[:] = frames
        w.sim.fields["max_spiral_loops"] = msl
        return {"self": w.sim, "variable": "v", "__w": w, "__frames": frames, "__shape": shape}

    def post(self, I, ctx, a, out, old):
        if "__st" in a:
            return _AnyStackMarking.post(I, ctx, a, out)
        w, frames, shape = a["__w"], a["__frames"], a["__shape"]
        msl = a["self"].fields["max_spiral_loops"]
        if out[0] != "return":
            return [("no-exception", False)]
        # expected: from the top down to and including the (msl+1)-th frame of v (or the whole stack)
        want, count = [], 0
        for f, s in zip(reversed(frames), reversed(shape)):
            want.append(f)
            if s == "v":
                count += 1
                if count > msl:
                    break
        marks = list(w.sim.fields["invalidated_caches"].items.values())
        res = [("stack-untouched", len(w.stack.items) == len(frames) and all(x is y for x, y in zip(w.stack.items, frames)))]
        ok = all(isinstance(m, TupleVal) and len(m.items) == 2 for m in marks)
        if not ok:
            return res + [("marks-are-variable-period-pairs", False)]
        for f in want:
            nm, p = f.items[("c", "name")], f.items[("c", "period")]
            hit = [m for m in marks if m.items[0] == nm and m.items[1] is p]
            res.append((f"frame-{nm}-marked", len(hit) >= 1))
        extra = [m for m in marks if not any(m.items[0] == f.items[("c", "name")] and m.items[1] is f.items[("c", "period")] for f in want)]
        res.append(("no-frame-below-the-cut-is-marked", not extra))
        return res


class SimPurge(Contract):
    name = f"{SIM}.purge_cache_of_invalid_values"
    prop = ("C02", "C18", "C16")
    top_level = True
    cases = ("empty-stack", "non-empty-stack")
    descr = ("with an empty stack every marked (variable, period) is deleted from its holder and the mark set becomes empty; with "
             "calculations still running nothing is purged")
    inline = (f"{SIM}.get_holder", f"{SIM}.get_variable_population", f"{CPOP}.get_holder", SIMPLE + ".stack")

    def setup(self, I, ctx, case):
        w = World18(I, ctx, "simple", 0 if case == "empty-stack" else 1)
        cache = I.resolve_qualified("openfisca_core.simulations.simulation.Cache")
        ps = [sym_period(I, ctx, "month", "m%d" % i) for i in range(2)]
        for p in ps:
            m = TupleVal(["v", p], cache)
            w.marks.items[("mark", id(p))] = m
        return {"self": w.sim, "__w": w, "__periods": ps, "__marks": w.marks}

    @staticmethod
    def local_contracts():
        return {f"{HOLDER}.delete_arrays": rec(f"{HOLDER}.delete_arrays", "delete_arrays", [("return", None)])}

    def post(self, I, ctx, a, out, old):
        w = a["__w"]
        dels = log_of(ctx, "delete_arrays")
        if out[0] != "return":
            return [("no-exception", False)]
        cur = w.sim.fields["invalidated_caches"]
        if w.stack.items:
            return [("nothing-deleted-while-calculations-run", not dels), ("marks-kept", cur is a["__marks"] and len(cur.items) == 2)]
        res = [("marks-emptied", isinstance(cur, SetVal) and not cur.items),
               ("one-deletion-per-mark", len(dels) == 2)]
        for p in a["__periods"]:
            res.append(("marked-period-deleted-from-its-holder", any(d["args"]["self"] is w.holder and d["args"]["period"] is p for d in dels)))
        return res


class VarGetFormula(Contract):
    name = f"{VAR}.get_formula"
    prop = ("C01",)
    top_level = True
    cases = tuple((f, e) for f in ("none", "one", "two") for e in (False, True))
    descr = ("the formula in force for a period is the one with the latest start on or before the period's start; none before the "
             "first start or after the variable's end date")
    inline = ("openfisca_core.periods.helpers.period*",)

    def setup(self, I, ctx, case):
        nf, has_end = case
        from .c14_reforms import World14
        f1, f2 = World14.formula(I, "f2000"), World14.formula(I, "f2010")
        pairs = {"none": [], "one": [("2000-01-01", f1)], "two": [("2000-01-01", f1), ("2010-06-15", f2)]}[nf]
        end = I.dt_date_class.ns["__new_model__"](ctx, I.dt_date_class, 2015, 12, 31) if has_end else None
        v = Obj(I.resolve_qualified(VAR), {"name": "v", "formulas": World14.sorted_dict(I, pairs), "end": end}, label="var")
        p = sym_period(I, ctx, "month")
        ctx.assume(ymd(p.items[1])[0] >= 1000)
        return {"self": v, "period": p, "__f": (f1, f2), "__pairs": pairs}

    def post(self, I, ctx, a, out, old):
        if out[0] != "return":
            return [("no-exception", False)]
        f1, f2 = a["__f"]
        y, m, d = ymd(a["period"].items[1])
        key = cal.iso_key(y, m, d)
        r = out[1]
        past_end = key > 20151231 if a["self"].fields["end"] is not None else z3.BoolVal(False)
        pairs = a["__pairs"]
        if not pairs:
            return [("no-formula-at-all", r is None)]
        # expected by the statement: latest start <= period start, unless past the end date
        starts = [(int(k.replace("-", "")), f) for k, f in pairs]
        res = []
        if r is None:
            res.append(("none-only-before-the-first-start-or-past-the-end", z3.Or(past_end, key < starts[0][0])))
        else:
            idx = [i for i, (k, f) in enumerate(starts) if f is r]
            if not idx:
                return [("returns-one-of-the-variable's-formulas", False)]
            i = idx[0]
            nxt = starts[i + 1][0] if i + 1 < len(starts) else None
            res.append(("not-past-the-end-date", z3.Not(past_end)))
            res.append(("latest-formula-started-on-or-before-the-period", z3.And(key >= starts[i][0], key < nxt if nxt else z3.BoolVal(True))))
        return res


class VarDefaultArray(Contract):
    name = f"{VAR}.default_array"
    prop = ("C01",)
    top_level = True
    cases = ("number", "enum", "str-empty", "int-zero", "bool-false")
    descr = ("the default array has one element per entity, each equal to the declared default and of the declared dtype - also when "
             "the default is a falsy value ('' for a text variable, 0, False); for an enumeration it is an enum array of that "
             "enumeration holding the default member's index")
    inline = ("openfisca_core.indexed_enums.enum_array.EnumArray.__new__",)

    def setup(self, I, ctx, case):
        from pyvc import nparr
        n = ctx.fresh_int("size")
        ctx.assume(n >= 0)
        if case == "enum":
            enumcls = I.resolve_qualified("openfisca_core.indexed_enums.enum.Enum")
            idx = ctx.fresh_int("default_index")
            member = Opaque(None, "default-member", {"fields": {"index": Sym(idx)}})
            pv = Opaque(None, "the-enumeration", {})
            v = Obj(I.resolve_qualified(VAR), {"name": "v", "value_type": enumcls, "dtype": nparr.DType("uint8"), "default_value": member,
                                               "possible_values": pv}, label="var")
            return {"self": v, "array_size": Sym(n), "__dv": idx, "__n": n, "__pv": pv, "__case": case}
        if case in ("str-empty", "int-zero", "bool-false"):
            vt, tag, dflt = {"str-empty": ("str", "object", ""), "int-zero": ("int", "int", 0), "bool-false": ("bool", "bool", False)}[case]
            v = Obj(I.resolve_qualified(VAR), {"name": "v", "value_type": I.builtins[vt], "dtype": nparr.DType(tag), "default_value": dflt}, label="var")
            return {"self": v, "array_size": Sym(n), "__dv": dflt, "__n": n, "__case": case, "__tag": tag}
        dv = ctx.fresh_real("default")
        v = Obj(I.resolve_qualified(VAR), {"name": "v", "value_type": I.builtins["float"], "dtype": nparr.DType("float"),
                                           "default_value": Sym(dv)}, label="var")
        return {"self": v, "array_size": Sym(n), "__dv": dv, "__n": n, "__case": case}

    def post(self, I, ctx, a, out, old):
        from pyvc import nparr
        if out[0] != "return" or not isinstance(out[1], nparr.NArr):
            return [("returns-an-array", False)]
        r = out[1]
        i = ctx.fresh_int("i")
        if "__tag" in a:
            e = r.elem(i)
            same = (type(e) is type(a["__dv"]) and e == a["__dv"]) if not isinstance(e, Sym) else B._zb(B.eq_formula(I, ctx, e, a["__dv"]))
            return [("one-element-per-entity", B._z(r.n) == a["__n"]),
                    ("every-element-is-the-default", z3.Implies(z3.And(i >= 0, i < a["__n"]), same) if not isinstance(same, bool) else same),
                    ("of-the-declared-dtype", r.dtype == a["__tag"])]
        res = [("one-element-per-entity", B._z(r.n) == a["__n"]),
               ("every-element-is-the-default", z3.Implies(z3.And(i >= 0, i < a["__n"]), B.zreal(r.elem(i)) == B.zreal(a["__dv"])))]
        if a["__case"] == "enum":
            res.append(("an-enum-array-of-the-variable's-enumeration", r.cls_override is not None and r.cls_override.name == "EnumArray"
                        and r.attrs.get("possible_values") is a["__pv"]))
        return res


class HolderDefaultArray(Contract):
    name = f"{HOLDER}.default_array"
    prop = ("C01",)
    top_level = True
    descr = "a holder's default array is its variable's default array for the size of its population (so it has the variable's type)"

    def setup(self, I, ctx, case):
        n = ctx.fresh_int("count")
        ctx.assume(n >= 0)
        var = Obj(I.resolve_qualified(VAR), {"name": "v"}, label="var")
        pop = Obj(I.builtins["object"], {"count": Sym(n)}, label="population")
        return {"self": Obj(I.resolve_qualified(HOLDER), {"variable": var, "population": pop}, label="holder"), "__var": var, "__n": n}

    @staticmethod
    def local_contracts():
        return {f"{VAR}.default_array": rec(f"{VAR}.default_array", "var_default_array", [("return", lambda I, ctx, a: Opaque(None, "variable-default-array", {}))])}

    def post(self, I, ctx, a, out, old):
        calls = log_of(ctx, "var_default_array")
        ok = len(calls) == 1 and calls[0]["args"]["self"] is a["__var"]
        res = [("asks-its-variable-once", ok)]
        if ok:
            res += [("for-the-size-of-its-population", B._zb(B.eq_formula(I, ctx, calls[0]["args"]["array_size"], Sym(a["__n"])))),
                    ("and-returns-that-array", out[0] == "return" and out[1] is calls[0]["value"])]
        return res

    def outcomes(self, I, ctx, a, old):
        # call-site form: an opaque array (recording variants are installed by the callers that need the log)
        return ("return", Opaque(ctx.fresh_const("default_array", E.ARR), "array:default", {}))


def _log_encode(ctx, args):
    v = Opaque(None, "encoded", {})
    ctx.ghost.setdefault("log", []).append({"callee": "encode", "args": args, "kind": "return", "value": v})
    return v


class SimCastFormulaResult(Contract):
    name = f"{SIM}._cast_formula_result"
    prop = ("C01", "C02")
    top_level = True
    cases = ("array-right-dtype", "array-other-dtype", "array-bool", "array-wider-int", "scalar", "enum-not-encoded", "enum-encoded")
    descr = ("a formula result is brought to the variable's declared type: enum values are encoded, scalars broadcast to the "
             "population, other dtypes cast - also an integer array of another width (64-bit out of numpy arithmetic for a 32-bit "
             "variable), so that what the caller gets is what a later read of the stored value gives; an array already of the declared "
             "dtype is returned as it is")
    inline = (f"{SIM}.get_variable_population",)

    def setup(self, I, ctx, case):
        from pyvc import nparr
        w = World18(I, ctx, "simple", 0)
        enumcls = I.resolve_qualified("openfisca_core.indexed_enums.enum.Enum")
        earr = I.resolve_qualified("openfisca_core.indexed_enums.enum_array.EnumArray")
        n = ctx.fresh_int("n")
        ctx.assume(n >= 0)
        F = z3.Function(ctx.fresh_name("VALS"), z3.IntSort(), z3.RealSort())
        w.var.fields.update({"value_type": enumcls if case.startswith("enum") else I.builtins["float"],
                             "dtype": nparr.DType("float"),
                             "possible_values": Opaque(None, "possible-values", {"getattr": lambda ctx2, nm: Builtin("encode", lambda ctx3, *args: _log_encode(ctx3, args)) if nm == "encode" else None})})
        if case == "scalar":
            value = Sym(ctx.fresh_real("scalar"))
        elif case == "enum-encoded":
            value = Obj(earr, {"dtype": nparr.DType("uint8")}, label="enum-array")
            w.var.fields["dtype"] = nparr.DType("uint8")
        elif case == "enum-not-encoded":
            value = nparr.NArr(n, lambda i: Sym(F(B._z(i))), "str", "names")
        elif case == "array-wider-int":
            FI = z3.Function(ctx.fresh_name("WIDE"), z3.IntSort(), z3.IntSort())
            value = nparr.NArr(n, lambda i: Sym(FI(B._z(i))), "wideint", "result")
            w.var.fields.update({"value_type": I.builtins["int"], "dtype": nparr.DType("int")})
        else:
            BF = z3.Function(ctx.fresh_name("BOOLS"), z3.IntSort(), z3.BoolSort())
            value = nparr.NArr(n, lambda i: Sym(F(B._z(i))), "float" if case == "array-right-dtype" else "int", "result") \
                if case != "array-bool" else nparr.NArr(n, lambda i: Sym(BF(B._z(i))), "bool", "result")
        return {"self": w.sim, "value": value, "variable": w.var, "__w": w, "__case": case}

    @staticmethod
    def local_contracts():
        return {"openfisca_core.populations._core_population.CorePopulation.filled_array":
                rec("openfisca_core.populations._core_population.CorePopulation.filled_array", "filled_array",
                    [("return", lambda I, ctx, a: __import__("pyvc.nparr", fromlist=["x"]).NArr(B.zint(a["self"].fields["count"]), lambda i: a["value"], "float", "filled"))])}

    def post(self, I, ctx, a, out, old):
        from pyvc import nparr
        case, w = a["__case"], a["__w"]
        if out[0] != "return":
            return [("no-exception", False)]
        r = out[1]
        if case == "enum-encoded":
            return [("encoded-enum-array-returned-as-it-is", r is a["value"])]
        if case == "enum-not-encoded":
            enc = [e for e in ctx.ghost.get("log", []) if e["callee"] == "encode"]
            return [("enum-values-are-encoded-by-the-variable's-enum", len(enc) == 1 and enc[0]["args"][0] is a["value"] and r is enc[0]["value"])]
        if case == "array-right-dtype":
            return [("array-of-the-declared-dtype-returned-as-it-is", r is a["value"])]
        if not isinstance(r, nparr.NArr):
            return [("returns-an-array", False)]
        i = ctx.fresh_int("i")
        if case == "scalar":
            fa = log_of(ctx, "filled_array")
            return [("scalar-broadcast-to-the-variable's-population", len(fa) == 1 and fa[0]["args"]["self"] is w.pop),
                    ("declared-dtype", r.dtype == "float"),
                    ("every-entity-gets-the-scalar", z3.Implies(z3.And(i >= 0, i < B.zint(w.pop.fields["count"])), B.zreal(r.elem(i)) == B.zreal(a["value"])))]
        if case == "array-wider-int":
            x = B.zint(a["value"].elem(i))
            return [("cast-to-the-declared-dtype", r.dtype == "int"), ("same-length", B._z(r.n) == B._z(a["value"].n)),
                    ("same-values-where-they-fit", z3.Implies(z3.And(i >= 0, i < B._z(r.n), x >= -2**31, x < 2**31), B.zint(r.elem(i)) == x))]
        return [("cast-to-the-declared-dtype", r.dtype == "float"), ("same-length", B._z(r.n) == B._z(a["value"].n)),
                ("same-values", z3.Implies(z3.And(i >= 0, i < B._z(r.n)), B.zreal(r.elem(i)) == B.zreal(a["value"].elem(i))))]


def trace_tree(I, shape):
    """builds a trace forest from nested tuples (name, [children]); returns (tracer, nodes in creation order)"""
    R = I.resolve_qualified
    order = []
    p = mk_period(I, "year", mk_instant(I, 2020, 1, 1), 1)

    def build(spec, parent):
        name, kids = spec
        n = Obj(R(TNODE), {"name": name, "period": p, "parent": parent, "children": ListVal([]), "parameters": ListVal([]),
                           "value": Opaque(None, "value-of-" + name, {}), "start": 0.0, "end": 0.0}, label="node:" + name)
        order.append(n)
        for k in kids:
            n.fields["children"].items.append(build(k, n))
        return n
    trees = ListVal([build(s, None) for s in shape])
    tr = Obj(R(FULL), {"_simple_tracer": Obj(R(SIMPLE), {"_stack": ListVal([])}), "_trees": trees, "_current_node": None}, label="full-tracer")
    return tr, order


TREES = {
    "cached-re-read-closer-to-the-root": [("net", [("tax", [("gross", [("base", []), ("bonus", [])])]), ("gross", [])])],
    "two-trees": [("a", [("b", [("c", [])]), ("d", [])]), ("e", [("c", [])])],
    "deep-left-wide-right": [("r", [("x", [("y", [("z", [])])]), ("u", []), ("v", [("z", [])])])],
}


class TracerBrowse(Contract):
    name = f"{FULL}.browse_trace"
    prop = ("C17",)
    top_level = True
    cases = tuple(TREES)
    descr = "the trace is browsed in the order the calculations started (depth first, parents before children, trees in order)"

    def setup(self, I, ctx, case):
        tr, order = trace_tree(I, TREES[case])
        return {"self": tr, "__order": order}

    def post(self, I, ctx, a, out, old):
        if out[0] != "return":
            return [("no-exception", False)]
        got = I.iterate(ctx, out[1])
        return [("every-node-once", len(got) == len(a["__order"])),
                ("in-the-order-the-calculations-started", len(got) == len(a["__order"]) and all(x is y for x, y in zip(got, a["__order"])))]


class FlatTraceGet(Contract):
    name = "openfisca_core.tracers.flat_trace.FlatTrace.get_trace"
    prop = ("C17",)
    top_level = True
    cases = tuple(TREES)
    descr = ("the flat trace lists, for each calculated variable and period, the reads its formula performed (those of its first, "
             "real calculation, not of a later cache read) and the value returned")
    inline = (f"{FULL}.browse_trace", "openfisca_core.tracers.flat_trace.FlatTrace.*", TNODE + ".*",
              "openfisca_core.periods.period_.Period.__str__")

    def setup(self, I, ctx, case):
        tr, order = trace_tree(I, TREES[case])
        ft = Obj(I.resolve_qualified("openfisca_core.tracers.flat_trace.FlatTrace"), {"_full_tracer": tr}, label="flat-trace")
        return {"self": ft, "__order": order}

    def post(self, I, ctx, a, out, old):
        if out[0] != "return" or not isinstance(out[1], DictVal):
            return [("returns-a-mapping", False)]
        d = out[1]
        first = {}
        for n in a["__order"]:
            first.setdefault(n.fields["name"], n)
        from pyvc.interp import force_str
        res = [("one-entry-per-calculated-variable-and-period", sorted(hk[1] for hk in d.items) == sorted(f"{k}<2020>" for k in first))]
        for name, n in first.items():
            e = d.items.get(("c", f"{name}<2020>"))
            if not isinstance(e, DictVal):
                res.append((f"entry-{name}", False))
                continue
            deps = e.items.get(("c", "dependencies"))
            want = [f"{c.fields['name']}<2020>" for c in n.fields["children"].items]
            res.append((f"{name}-lists-the-reads-of-its-calculation",
                        isinstance(deps, ListVal) and [force_str(I, ctx, x) for x in deps.items] == want))
            res.append((f"{name}-carries-the-value-returned", e.items.get(("c", "value")) is n.fields["value"]))
        return res


def install(I):
    pass


CONTRACTS = [SimCalculateFull(), SimInnerCalculate(), SimRunFormula(), SimCheckForCycle(), SimInvalidateCacheEntry(), SimInvalidateSpiral(), SimPurge(),
             VarGetFormula(), VarDefaultArray(), HolderDefaultArray(), SimCastFormulaResult(), TracerBrowse(), FlatTraceGet()]


# ---- native probe scenarios for contracts without a replay of their own (native/engine_probes.py): a failed obligation of an
# ---- engine contract gets, if one of the scenarios fails on the real code, that scenario as its failing input
ENGINE_NATIVE = "import sys; sys.path.insert(0, '/verif/native')\nimport engine_probes\noutcome = engine_probes.run(call)\n"


def _engine_probes(self, case):
    return [{"callee": self.name, "script": ENGINE_NATIVE, "scenarios": None}]


def _engine_judge(self, I, case, call, nat):
    if nat.get("kind") == "harness-error":
        return "undecided", str(nat)[:300]
    if nat["kind"] == "raise":
        return "undecided", "probe scenario raised " + nat.get("exc", "") + ": " + nat.get("msg", "")
    return ("satisfies", "all engine scenarios hold") if nat["value"].get("ok") else ("violates", "; ".join(nat["value"].get("problems", []))[:500])


for _c in CONTRACTS:
    if not hasattr(_c, "probes") and not hasattr(_c, "judge_native") and not hasattr(_c, "call_descriptor_custom"):
        _cls = type(_c)
        if "probes" not in _cls.__dict__ and not any("judge_native" in k.__dict__ for k in _cls.__mro__):
            _cls.probes = _engine_probes
            _cls.judge_native = _engine_judge
