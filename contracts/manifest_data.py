"""Texts for MANIFEST.json (kept next to the contracts so they change together)."""
HOOK_COMMITS = []
NOTES = ("All checks are contract-based deductive verification with pyvc (DESIGN.md). Exit codes: 0 held, 1 violation "
         "(VIOLATION line, replay file), 2 undecided (solver unknown), 3 checker error (unsupported construct, missing "
         "contract, failed validation of an assumed external contract). Known findings: /verif/known_findings.json.")

CLAIMS = {
    "C19": {
        "text": ("Proof over a file-system-as-map model that, after the real _dump_entity, _restore_entity rebuilds a population with the "
                 "same identifiers, memberships, positions, roles (encode by role key / decode against the entity's roles, through "
                 "numpy.select) and the same number of entities for any number of persons and groups, and that after the real "
                 "_dump_holder, _restore_holder hands the variable's holder, for every period the original held (dated or eternal), "
                 "an array equal to the original - with the real OnDiskStorage.put / restore / get and Holder.create_disk_storage "
                 "executed inside. One genuine defect (restored group count) was repaired by a fix: commit."),
        "note": ("dump_simulation / restore_simulation: every population and holder dumped once to the right place, a non-empty directory refused; "
                 "every population restored once from __entities__, every variable directory once, on systems with zero, one or two group "
                 "entities (one genuine defect repaired: a system without group entity could not be restored). "
                 "The numpy.save/load round trip is assumed per dtype (validated natively on every run; object dtype - string "
                 "variables - is known not to load without pickle and is outside the claim) and periods.period(str(p)) == p is "
                 "assumed from C05. Bounded: a holder with two stored periods; the orchestration in dump_simulation / "
                 "restore_simulation (directory checks, iteration over variables) is not under contract. 'Calculations return the same' "
                 "follows from equal stored views and the C01 contract, not from a separate obligation."),
        "technique": "contract-based deductive verification (ghost file map, symbolic execution of dump then restore + SMT)",
        "design_ref": "DESIGN.md section 4 C19",
    },
    "C07": {
        "text": ("Proof of the representation invariant 'every memoised at-instant view of a system is the view of its current parameter "
                 "tree': get_parameters_at_instant returns the view of the current tree at the instant for any earlier reads and keeps "
                 "the invariant; load_parameters and a reform's modify_parameters install the new tree and leave no memoised view of the "
                 "old one (the memo is a symbolic map; a functools.lru_cache decorator, if present in the source, is modelled as a "
                 "process-wide ghost memo, which is how the original defect was found and then repaired by a fix: commit); the traced "
                 "view handed to formulas returns the same leaves, wraps the same sub-nodes and records each leaf read; _run_formula "
                 "hands the formula a view of the system's current tree in both modes (shared with C01)."),
        "note": ("What a view contains is C06's business. Vector indexing: VectorialParameterNodeAtInstant.build_from_node and __getitem__ "
                 "by a vector of names are under contract over a one-record structured-array model (three members, one nesting level); "
                 "enum-member / non-string key vectors, group-valued results and the as-of-date variant are not decided. In-place edits of a tree after a read are not a documented route. Later additions: load_parameters with a preprocessing hook that returns or fails (the memo invariant as exceptional postcondition), get_at_instant spellings, ParameterNode.clone; vector indexing by dates through a bounded stand-in on the real code (labelled bounded)."),
        "technique": "contract-based deductive verification (representation invariant over a symbolic memo, ghost state for lru_cache + SMT)",
        "design_ref": "DESIGN.md section 4 C07",
    },
    "C08": {
        "text": ("Proof over the reals for any number of brackets (strictly increasing thresholds) and any vector of bases, on the real "
                 "numpy code through a 1-D/2-D array algebra: the marginal-rate result is a sum over brackets whose (base, bracket) "
                 "term is rate x part of the base inside the bracket (also with a positive threshold factor); the marginal-amount "
                 "result sums exactly the amounts of brackets whose threshold lies below the base; the single-amount result is the "
                 "amount of the bracket containing the base (0 below the first); the linear-average result is the base times the "
                 "interpolated rate; bracket_indices counts the thresholds at or below the base (lemma, by induction: that count "
                 "minus one is the bracket containing the base), marginal_rates / rate_from_tax_base / threshold_from_tax_base read "
                 "that bracket; add_bracket keeps thresholds strictly increasing and updates the threshold -> value view at one key "
                 "(commutative; a sorted list is determined by its view - lemma), so insertion order is irrelevant. Every "
                 "postcondition is pointwise in the base index: a vector gives what each base alone gives."),
        "note": ("floats are reals and numpy.finfo(float64).eps is 0 (with the literal eps the statement's exact equalities are off by "
                 "ulp-scale terms); rounding options, NaN / inf bases and dtypes are not decided. numpy enters through assumed "
                 "contracts validated against numpy on every run. Obligations the solvers cannot decide (nonlinear interpolation) "
                 "are never reported as violations on their own: the contract's native probe scenarios are run and only a failing "
                 "real input is reported. Later additions: calc after an earlier calc and an in-place change of the scale (history cases), numpy.any / all / shape; the bracket look-ups (marginal_rates, rate_from_tax_base, threshold_from_tax_base) after an earlier look-up and an in-place change; numpy.max with an initial value."),
        "technique": "contract-based deductive verification (2-D array algebra, reduction nodes compared pointwise, inductive lemmas + SMT)",
        "design_ref": "DESIGN.md section 4 C08, section 3.4",
    },
    "C09": {
        "text": ("Proof on the real transformation functions for scales with any number of brackets: multiply_rates and "
                 "multiply_thresholds (in place and to a new scale; loop invariants) give the operand's lists with every rate / "
                 "threshold multiplied, so every summand of calc (C08's contract) is scaled - taxes follow by linearity of finite "
                 "sums (lemma, induction); copy and scale_tax_scales give a new scale with its own lists and leave the operand "
                 "unchanged; combine_bracket (add_bracket taken under its positional contract, while-loop invariant, proof steps "
                 "following a point through the insertions) adds the rate to the marginal rate of exactly the points of [low, high); "
                 "add_tax_scale (loop invariant over a ghost marginal-rate function) makes the marginal rate everywhere the sum of "
                 "the two; inverse (loop invariant with a ghost partial-sum function) gives net thresholds T(k) - tax(T(k)) and rates "
                 "1/(1 - r(k)), gross bracket k maps onto net bracket k and the summands of calc of the inverse at the net amount "
                 "are the gross bracket widths (telescoping lemma). to_average (loop invariant with the ghost tax-at-threshold sums): knots 0, "
                 "the thresholds and +inf, average rate x threshold = tax at each threshold; to_marginal, required to receive exactly "
                 "that shape, returns the thresholds and rates of the original scale (plus a zero-rate bracket from 0 when it starts "
                 "above 0), so every summand of calc is the original's. Frame: non-in-place operations leave the operand's lists alone."),
        "note": ("float('inf') enters as an unspecified real constant above every finite threshold (only comparisons with it are "
                 "meaningful; stated assumption); to_average / to_marginal are proved for finite thresholds 0 <= t_0 < t_1 < ...; the "
                 "real round trip additionally runs on a stated grid of scales and bases as a bounded cross-check, labelled bounded in "
                 "the evidence. helpers.combine_tax_scales: proved for groups of three members (marginal-rate scales or not). Combination is proved for the "
                 "marginal-rate function; tax = integral of the marginal rate is mathematics taken as known. helpers."
                 "combine_tax_scales and rounding options are not decided. Two genuine defects were repaired by fix: commits "
                 "(combine_bracket below the first threshold; to_average with a non-zero first threshold / one bracket)."),
        "technique": "contract-based deductive verification (loop invariants, ghost rate / partial-sum functions, modular add_bracket contract, inductive lemmas + SMT; one bounded cross-check)",
        "design_ref": "DESIGN.md section 4 C09, section 3.4",
    },
    "C10": {
        "text": ("Proof over the numpy array algebra for any number of persons and groups and any membership map: sum and nb_persons "
                 "(with and without role) have one element per group of the simulation and add / count exactly the members of each "
                 "group (in the role) - shown pointwise on the per-person (group id, weight) of the reduction; any() is positivity of "
                 "that sum (with the inductive lemma sum of 0/1 weights > 0 iff some member has weight 1); project gives every person "
                 "the value of its group (zero outside the role); the members_position loop (invariant with a ghost per-group "
                 "counter) gives each person the number of earlier members of its group, so positions enumerate each group 0,1,2..; "
                 "value_from_person gives every group the value of the member holding a unique role, in any storage order (lemma: "
                 "two increasing enumerations of one set coincide, applied by a ghost statement); a chain of projectors of any "
                 "length applies each projector's transform, innermost first (recursive call under its own contract)."),
        "note": ("Also proved: value_nth_person (counting lemmas: positions distinct, below the size, every rank taken), reduce with "
                 "maximum / minimum / logical_and (loop invariant with a ghost 'attained at' function), max / min / all / "
                 "value_from_first_person as delegations; get_rank (2-D matrix of value_nth_person columns, row-wise double argsort with the "
                 "lemma 'the sorting permutation of a permutation is its inverse', proved by induction): -1 outside the condition, ranks "
                 "of the members of a group in the condition pairwise distinct, following the criterion, non-negative and downward "
                 "closed, i.e. a permutation of 0..m-1. NOT covered: reduce with other reducers, the shortcut resolution of "
                 "projectors. numpy enters through "
                 "assumed contracts validated against numpy on every run. One genuine defect (trailing empty groups dropped) was "
                 "repaired by a fix: commit."),
        "technique": "contract-based deductive verification (reduction nodes compared pointwise, loop invariant with ghost counter + SMT)",
        "design_ref": "DESIGN.md section 4 C10, section 3.5",
    },
    "C15": {
        "text": ("Proof over the numpy array algebra, for an enumeration with a symbolic number of members and inputs of any length: "
                 "encoding integers (lists and ndarrays) either raises or yields, element by element, the input index, which lies in "
                 "[0, n); encoding members yields their indices and refuses members of another enumeration; unsupported element types "
                 "are refused; encode returns an already encoded array as it is and dispatches sequences / arrays to their encoders; "
                 "decode and decode_to_str give the member / name each index designates. Two genuine defects found here (negative "
                 "indices wrapped to 255, foreign members accepted) were repaired by fix: commits."),
        "note": ("numpy enters through assumed contracts validated against numpy on every run (mask indexing, astype(uint8) = mod 256, "
                 "fancy indexing). Encoding by member NAME (isin / argsort / searchsorted on string arrays) is not under contract and "
                 "the enum metaclass that builds the tables is modelled, not verified: both are listed as not decided. Later additions: EnumType.__new__ on four declarations (with aliases) against an assumed contract of the standard library's class creation; a bounded stand-in on real declarations (tables, round trips, members of other enumerations - which found that same-named enumerations were interchangeable; repaired); enumeration classes are dictionary keys and compare by name, as their metaclass defines; _str_to_index after a same-named enumeration was looked up; sequences mixing an index with a float or a member with an index are refused."),
        "technique": "contract-based deductive verification (symbolic execution over a numpy array algebra + SMT)",
        "design_ref": "DESIGN.md section 4 C15, section 2.6",
    },
    "C01": {
        "text": ("Proof of the engine's evaluation contracts on the real code: Simulation._calculate (a stored value wins over the "
                 "formula; otherwise cycle check, formula, default when there is no result, cast, store, return, each once and in "
                 "that order; a spiral yields the default), calculate (returns what _calculate returns), _run_formula (the formula "
                 "in force is called with population, period and the system's parameter view), _check_for_cycle (circular "
                 "definition refused), Variable.get_formula (latest start on or before the period, none past the end date), "
                 "Variable.default_array, _cast_formula_result, Holder.get_array/_set over the storage view. Every combination "
                 "of callee outcomes (return / raise) is explored."),
        "note": ("This is a proof that the engine functions implement the meaning function for formulas assumed pure, not a run of "
                 "rule systems: formula bodies, projections/aggregations (C10) and parameters (C06/C07) are outside. Callees enter "
                 "through recording contracts whose own verification is listed in the evidence; formula start dates and stack "
                 "shapes are enumerated concrete cases, periods are symbolic. Enum default arrays are not covered. Later additions: default arrays for falsy defaults and text variables, 64-bit integer results for 32-bit variables, the period-consistency check recorded as the first step of _calculate, calculate with a period given as text and with an interrupted sub-calculation, Variable.set (declared defaults of updated variables), the ADD / DIVIDE frame on calculated arrays."),
        "technique": "contract-based deductive verification (symbolic execution of the real source with recording call-site contracts + SMT)",
        "design_ref": "DESIGN.md section 4 C01, section 3.6",
    },
    "C02": {
        "text": ("Proof of the cache / taint mechanism the statement relies on: _check_for_cycle raises SpiralError exactly when the "
                 "variable occurs max_spiral_loops times below the request (and is not a true cycle) after marking; "
                 "invalidate_spiral_variables marks exactly the frames from the top down to the (max_spiral_loops+1)-th frame of the "
                 "variable; the spiral handler of _calculate returns the default without storing it; purge_cache_of_invalid_values "
                 "deletes every marked entry and empties the mark set only when the stack is empty; Holder.delete_arrays removes "
                 "exactly the stored periods the period contains under every storage setting."),
        "note": ("Partial by design: order independence without self-dependency is an argument over the _calculate contract, and the "
                 "closing whole-history clause of the statement (every readable value equals what a fresh simulation would compute) "
                 "is NOT decided by any contract here - both are listed under not_decided in the evidence. _check_for_cycle is proved "
                 "for an evaluation stack of any length (symbolic frames, any max_spiral_loops) besides the enumerated shapes; the "
                 "marking loop of invalidate_spiral_variables on enumerated stack shapes of up to 5 frames (periods symbolic). "
                 "_cast_formula_result, get_projector_from_shortcut and the ADD / DIVIDE frame clause carry the order-independence part."),
        "technique": "contract-based deductive verification (symbolic execution of the real source with recording call-site contracts + SMT)",
        "design_ref": "DESIGN.md section 4 C02",
    },
    "C17": {
        "text": ("Proof that storage settings and tracing do not change what is stored or returned: Holder._set makes the value the "
                 "stored view of the period (memory entry if any, else file content) under every setting - memory only, disk "
                 "backed with any occupation threshold, eternal or dated - and changes no other period; get_array reads that view; "
                 "put_in_cache skips storing exactly for variables_to_drop and blacklist-with-opt-out while _calculate still "
                 "returns the computed array; InMemoryStorage / OnDiskStorage get, put, delete against symbolic period-keyed maps; "
                 "calculate leaves the stack as at entry on every exit and records each request once in the trace tree under the "
                 "node current at entry with the value returned, with the real SimpleTracer / FullTracer executed inside."),
        "note": ("File content goes through the assumed numpy.save/load round trip (validated natively per dtype on every run; object "
                 "dtype, i.e. string variables, is known not to load without pickle and is outside the claim); file names through an "
                 "injective token for str(period) (C05). psutil is an arbitrary real. FlatTrace rendering is not under contract. Later additions: delete of one definition period under every storage setting, a neutralised variable read twice, the ADD / DIVIDE contracts (every piece read through calculate), the spreading rules (known-period test through the holder's view), calculate interrupted by a BaseException; deleting a day from a store of days and a month from a store of months (memory and disk); a period stored on disk, read, stored again and read."),
        "technique": "contract-based deductive verification (symbolic execution of the real source with recording call-site contracts + SMT)",
        "design_ref": "DESIGN.md section 4 C17",
    },
    "C18": {
        "text": ("Proof of exceptional postconditions on the real code: on every raising path of _calculate (unknown variable, period "
                 "inconsistency, circular definition, exception out of the formula, out of the cast, out of the store) nothing has "
                 "been stored; calculate pops exactly the frame it pushed, restores the trace position, runs the purge and lets the "
                 "error reach the caller, for SimpleTracer and FullTracer and 0..2 outer frames; Holder._set stores nothing when "
                 "it refuses; purge and the cycle check as under C02."),
        "note": ("Every combination of callee outcomes is explored (each recorded callee may return or raise). State mutated by a user "
                 "formula before it raises is outside. That later requests behave as if the failed one never happened follows from "
                 "the unchanged store and stack proved here plus the C01 contract; it is not a separate obligation. Later additions: calculate with a BaseException outcome and with a text period, the period check as first step of _calculate, the ADD contract (a failing piece leaves the others)."),
        "technique": "contract-based deductive verification (symbolic execution of the real source with recording call-site contracts + SMT)",
        "design_ref": "DESIGN.md section 4 C18",
    },
    "C14": {
        "text": ("Proof by symbolic execution on a heap with concrete identities that TaxBenefitSystem.clone, Reform.__init__ (with an "
                 "apply() that edits variables and parameters), modify_parameters, load/add/update/replace/neutralize/annualize_variable, "
                 "Variable.clone and Parameter.clone change nothing reachable from the base system (every field of every reachable "
                 "object is compared with a snapshot), keep the base's entities bound to it, and give the derived system its own "
                 "tables, variables, entities and parameter tree; and that derived definitions are as declared: Variable.set inherits "
                 "what an update does not redefine, set_formulas keeps strictly earlier formulas, a neutralised variable is a new "
                 "flagged object, an annualised formula requests January of the same year. The real Variable.__init__ runs inside."),
        "note": ("One representative heap shape (two entities, three variables, two-level parameter tree); formula dates are concrete "
                 "cases (earlier / same / between / later), not symbolic. copy.deepcopy and SortedDict are assumed contracts. Three "
                 "genuine defects found here were repaired (fix: commits). Calculations on both systems are not re-derived here "
                 "(they follow from untouched definitions and the engine contracts). Later additions: ParameterNode.clone / ParameterScale.clone (own metadata, children cloned once), falsy redefinitions in Variable.set, a neutralised variable read twice, Parameter.update."),
        "technique": "contract-based deductive verification (heap frame postconditions by symbolic execution)",
        "design_ref": "DESIGN.md section 4 C14",
    },
    "C12": {
        "text": ("Proof on the input-buffer functions of the real SimulationBuilder, with period keys as an uninterpreted sort and "
                 "CANON = str o period: add_variable_value places the checked value at the instance's index of the array buffered "
                 "under the canonical spelling of the key, keeps every other index (default where nothing was buffered), every other "
                 "period and every other variable, and turns a refused value into a situation error that changes nothing; "
                 "init_variable_values sends every declared (key, value) - an undated value under the default period - to "
                 "add_variable_value with the instance's index and refuses unknown / foreign variables, unparsable keys and undated "
                 "values without default period as situation errors; finalize_variables_init hands every buffered array to the "
                 "variable's holder once and the shorter period (unit weight, size as numbers) first; add_default_group_entity puts "
                 "person i in group i with the first role."),
        "note": ("Bounded and labelled so: finalize_variables_init and init_variable_values are verified for two symbolic periods / "
                 "keys; group memberships, roles, own groups of persons left out and the membership refusals (add_group_entity) are "
                 "only a bounded stand-in on the real code over a stated set of small situations. NOT decided: axes expansion, "
                 "value conversions of check_set_value, document-shape dispatch. The C05 round trip (CANON idempotent) is an "
                 "assumption. Three genuine defects were repaired by fix: commits (raw vs canonical key, string-ordered flush, "
                 "id collision of persons left out). Later additions: two more bounded stand-ins on the real code (a situation with an axis equals the concatenation of its copies; declared values are read as the variable's type or refused), Holder.set_input and the spreading rules."),
        "technique": "contract-based deductive verification (maps over an uninterpreted key sort, recording call-site contracts + SMT; one bounded stand-in)",
        "design_ref": "DESIGN.md section 4 C12",
    },
    "C13": {
        "text": ("Proof by symbolic execution of the real Simulation.clone, Population.clone, GroupPopulation.clone and Holder.clone "
                 "on a heap with concrete object identities and symbolic contents: every part of the clone refers to the clone "
                 "(populations, holders, members, shortcut attributes), every owned mutable object (tables, in-memory storages, mark "
                 "set, tracer) is a different object with equal content, shared parts are the declared immutables, and no field "
                 "reachable from the original changes. Four genuine defects found this way were repaired (fix: commits); the sharing "
                 "of on-disk storages is a listed known finding."),
        "note": ("Obligations are identity / frame checks decided by the executor on one representative heap shape (two person holders, "
                 "one group holder; table loops unrolled); Holder.clone enters Population/Simulation.clone through its contract. "
                 "Independence under later operation sequences is derived from disjoint owned footprints, for mutators whose frames "
                 "are checked under C17/C18; files on disk are outside the heap model. While the known finding is open the property "
                 "does not hold for disk-backed variables. Later additions: an eternal variable's holder (storage settings), Population.clone after person.household was used (no attribute of the clone reaches the original, not even through a projector), storages never write arrays in place."),
        "technique": "contract-based deductive verification (heap separation / frame postconditions by symbolic execution)",
        "design_ref": "DESIGN.md section 4 C13",
    },
    "C16": {
        "text": ("Proof with loop invariants and ghost partial sums on the real set_input_divide_by_period and "
                 "set_input_dispatch_by_period, for every same-family (definition period, long period) pair, every start date and "
                 "size, any number of entities and any subset of pieces set before: pieces already set are untouched, every other "
                 "piece holds the equal share of the remainder (divide) or the value itself (dispatch), nothing outside the request "
                 "is written, an amount contradicting fully set pieces is refused; the conservation law (pieces sum to the amount) "
                 "and the distinctness of pieces are contract-level lemmas proved by induction."),
        "note": ("Floats are reals (float32 rounding of shares not modelled). The holder's store enters through call-site "
                 "contracts of Holder.get_array/_set/_to_array over a ghost view keyed by piece; Instant/Period.offset through their "
                 "C04 contracts; numpy through the array algebra (validated against numpy per run). The routing in Holder.set_input "
                 "is not yet under contract. One genuine defect (dispatch reused an existing array) was repaired by a fix: commit. Later additions: an input given again goes through the rule again (history case), summing through the ADD contract and its calendar callees, the purge."),
        "technique": "contract-based deductive verification (loop invariants, ghost state, inductive lemmas + SMT)",
        "design_ref": "DESIGN.md section 4 C16",
    },
    "C05": {
        "text": ("Proof through the real printer and the real decoder: for every aligned period (all six units; sizes 1, 12 months, any "
                 "other positive size; calendar and ISO years 1000..9999) Period.__str__ runs symbolically and yields a format string "
                 "(concrete structure, symbolic decimal fields); helpers.period - with _parsers, the regex-backed string types and the "
                 "assumed pendulum.parse - runs on that string and returns the same start, unit and size (twelve months as one year), "
                 "and printing the result gives the same text; Instant.__str__ / helpers.instant likewise; two aligned periods of one "
                 "unit differing in start or size print different texts; structured texts with symbolic fields naming an impossible "
                 "date (all five ISO shapes), a unit finer than the date's precision, a non-integer size, an unknown unit or a fourth "
                 "field are refused with a ValueError. The regular expressions are the real patterns, matched by derivatives."),
        "note": ("pendulum.parse on the five ISO shapes and the derivative matcher are assumed and validated against the real library / "
                 "re on every run. Arbitrary strings are covered only by a bounded stand-in (about 39 000 strings quick) with an "
                 "independent classifier, labelled bounded. One genuine defect ('week:YYYY-MM' accepted) was repaired by a fix: commit."),
        "technique": "contract-based deductive verification (format-term strings, regex derivatives over the real patterns, calendar theory + SMT; one bounded stand-in)",
        "design_ref": "DESIGN.md section 4 C05, section 2.5",
    },
    "C06": {
        "text": ("Proof over a symbolic history of any length (strictly decreasing list of dated entries with opaque, possibly "
                 "null values): Parameter._get_at_instant returns the value of the most recent entry on or before the date "
                 "(loop invariant), Parameter.update (three loops, invariants definitional on the list under construction) keeps "
                 "the history strictly decreasing, yields the new value on every date of the range and the previous value on "
                 "every other date, for ranges given as period / start+stop / open-ended start, and refuses the two argument "
                 "errors; get_at_instant / __call__ forward the ISO text of the instant; a group at a date exposes exactly the "
                 "members defined at that date."),
        "note": ("Bounded, not unbounded: ParameterNodeAtInstant.__init__ for a group of three members and Parameter.__init__ "
                 "for a five-entry document (loops over concrete dicts are unrolled). ISO date texts are compared through their "
                 "integer order embedding (validated exhaustively per run for 4-digit years). period.stop and Instant.offset enter "
                 "through their C04 contracts. ParameterScale at an instant is covered with the tax scales (C08), YAML loading is "
                 "outside. One false alarm of an earlier version of the postcondition is recorded in DESIGN.md section 9. Later additions: reads through every spelling of an instant (ISO date, ISO week date, month), Parameter._get_at_instant after the history was replaced by one as long (history case)."),
        "technique": "contract-based deductive verification (loop invariants over closure lists + SMT)",
        "design_ref": "DESIGN.md section 4 C06, section 3.3",
    },
    "C03": {
        "text": ("Proof of the accept/refuse matrix and of the ADD / DIVIDE value equations on the real Simulation.calculate_add, "
                 "calculate_divide, _check_period_consistency and CorePopulation.__call__: for every definition period x request "
                 "unit cell the statement speaks about, every path is executed symbolically for all start dates and sizes; ADD is "
                 "shown to be the sum, over a symbolic piece index, of the variable at exactly the pieces of the C04 tiling, DIVIDE "
                 "the value at the enclosing definition period divided by the number of requested units in it; refusals are "
                 "exceptional postconditions."),
        "note": ("Simulation.calculate enters through a call-site contract (raises, or returns the opaque value of the variable at "
                 "that period); sub-period and size functions through their C04 contracts. Cross-family cells accepted by the unit "
                 "weights are asserted neither way. Two genuine defects found by this check were repaired by fix: commits "
                 "(known_findings.json). Same trusted base as C04. Later additions: the period-consistency check is proved first in _calculate and again after an earlier valid request of the same variable (history case)."),
        "technique": "contract-based deductive verification (symbolic path execution of the real source + SMT)",
        "design_ref": "DESIGN.md section 4 C03",
    },
    "C04": {
        "text": ("Proof, for all valid dates in years 1..9999 and all sizes, that the real Instant/Period arithmetic "
                 "(offset, stop, days, size_in_*, contains, intersection, get_subperiods, Period.offset, ten named reference "
                 "periods) satisfies postconditions taken from the statement over a calendar theory: every path of each "
                 "function is executed symbolically from the working-tree source and every obligation is discharged by z3 "
                 "(cvc5 fallback); sub-period tiling is proved for a symbolic element index, so for every length."),
        "note": ("Trusted: pyvc itself; z3/cvc5; the assumed contracts of pendulum.Date.add/start_of/end_of/diff, "
                 "datetime.isocalendar, calendar.monthrange (validated against the real libraries on every run, never proved); "
                 "the calendar closed forms (validated against datetime for every day of 400 / 9999 years). Tiny accessors are "
                 "verified by inlining. Cross-family sizes and the last_N_weeks helpers are not under contract."),
        "technique": "contract-based deductive verification (symbolic path execution of the real source + SMT)",
        "design_ref": "DESIGN.md section 4 C04, section 3.1",
    },
}

NOT_APPLICABLE = {
    "C11": ("two-run relational property of the whole engine including user-written formulas; no per-function contract "
            "can state it (DESIGN.md section 5); its function-level ingredients are covered under C10/C12/C16"),
    "C20": ("observable is an HTTP/JSON body or a pytest verdict behind flask, dpath, yaml and float32 margin arithmetic; "
            "no contract within reach of the verifier expresses it (DESIGN.md section 5)"),
}
