"""C12 -- a described situation becomes exactly that simulation (DESIGN 4 C12): the input buffer.
Period keys are elements of an uninterpreted sort KEY; CANON(k) = str(periods.period(k)) is the canonical spelling
(idempotent: the C05 round trip, assumed here). The buffer of a variable is a map KEY -> array under construction whose
keys are canonical (representation invariant: add_variable_value is its only writer)."""
from __future__ import annotations

import z3

from pyvc import builtins_ as B
from pyvc import nparr
from pyvc import smt
from pyvc.contract import Contract
from pyvc.values import Builtin, ClassVal, DictVal, ExcVal, ListVal, Obj, Opaque, SeqVal, Sym, SymList, TupleVal, Unsupported

from .common import *  # noqa
from .c13_clone import dict_of
from .c18_engine import rec, log_of

SB = "openfisca_core.simulations.simulation_builder.SimulationBuilder"
KEY = z3.DeclareSort("PeriodKey")
CANON = z3.Function("CANON", KEY, KEY)
VALID = z3.Function("PARSES", KEY, z3.BoolSort())


_STR = []


def key_val(e):
    v = Opaque(e, "period-key", {})
    v.attrs["str"] = lambda ctx: v
    if _STR:
        v.attrs["cls"] = _STR[0]
    return v


class PeriodOfKey(Contract):
    """call-site contract of periods.period on a period key: raises ValueError when the key does not parse, else a period
    whose text is the canonical spelling CANON(key)"""
    name = "openfisca_core.periods.helpers.period"
    prop = ()

    def outcomes(self, I, ctx, a, old):
        k = a["value"]
        if not (isinstance(k, Opaque) and k.e is not None and k.e.sort() == KEY):
            raise Unsupported(f"period() of {k!r}")
        ctx.ghost.setdefault("log", []).append({"callee": "period", "args": a, "kind": "call"})
        if not ctx.branch(VALID(k.e)):
            e = ExcVal(I.exc_classes["ValueError"], ("unparsable period",))
            e.origin = "callee:period"
            return ("raise", e)
        p = Opaque(None, "period-of-key", {})
        p.attrs["str"] = lambda ctx2: key_val(CANON(k.e))
        p.attrs["key"] = k.e
        return ("return", p)

    def post(self, I, ctx, a, out, old):
        return []


class BWorld:
    def __init__(self, I, ctx):
        R = I.resolve_qualified
        if not _STR:
            _STR.append(I.builtins["str"])
        self.N = ctx.fresh_int("count")
        ctx.assume(self.N >= 1)
        self.PRES = z3.Function(ctx.fresh_name("PRES"), KEY, z3.BoolSort())
        self.BUF = z3.Function(ctx.fresh_name("BUF"), KEY, z3.IntSort(), z3.RealSort())
        k = z3.Const("k_w", KEY)
        ctx.assume(z3.ForAll([k], CANON(CANON(k)) == CANON(k), patterns=[CANON(k)]))             # C05: printing a parsed period is canonical
        ctx.assume(z3.ForAll([k], z3.Implies(self.PRES(k), CANON(k) == k), patterns=[self.PRES(k)]))  # buffer keys are canonical
        N = self.N
        self.buffer = B.MapVal(lambda q: (self.PRES(q.e), nparr.NArr(N, lambda j, q=q: Sym(self.BUF(q.e, B._z(j))), "float", "buffered")), "buffer")
        self.other = B.MapVal(lambda q: (z3.BoolVal(False), None), "other-buffer")
        self.DEF = ctx.fresh_real("default")
        self.var = Obj(R("openfisca_core.variables.variable.Variable"), {"name": "v"}, label="var:v")
        self.entity = Obj(I.builtins["object"], {"plural": "persons", "key": "person"}, label="entity")
        self.builder = Obj(R(SB), {"input_buffer": dict_of([("v", self.buffer), ("w", self.other)]), "entity_counts": dict_of([("persons", B.wrap(self.N))]),
                                   "axes_entity_counts": DictVal(), "default_period": None}, label="builder")


class AddVariableValue(Contract):
    name = f"{SB}.add_variable_value"
    prop = ("C12",)
    top_level = True
    cases = ("value", "none")
    descr = ("a declared value is placed at its entity's index in the array buffered for the variable under the CANONICAL spelling of "
             "the period key, whatever spelling was used; every other index of that array keeps what was buffered there (the default "
             "where nothing was), every other period and every other variable keeps its buffer; a value the variable refuses is a "
             "situation error and changes nothing")
    inline = (f"{SB}.get_input", f"{SB}.get_count")

    def setup(self, I, ctx, case):
        w = BWorld(I, ctx)
        ctx.ghost["bw"] = w
        K = ctx.fresh_const("key", KEY)
        idx = ctx.fresh_int("index")
        ctx.assume(z3.And(idx >= 0, idx < w.N, VALID(K)))      # init_variable_values has parsed the key before
        value = None if case == "none" else Sym(ctx.fresh_real("value"))
        return {"self": w.builder, "entity": w.entity, "variable": w.var, "instance_index": Sym(idx), "instance_id": "someone",
                "period_str": key_val(K), "value": value, "__w": w, "__K": K, "__idx": idx}

    @staticmethod
    def local_contracts():
        def default_array(I, ctx, a):
            w = ctx.ghost["bw"]
            return nparr.NArr(B.zint(a["array_size"]), lambda j: Sym(w.DEF), "float", "default")

        def checked(I, ctx, a):
            return Sym(ctx.ghost.setdefault("CHK", ctx.fresh_real("checked")))
        V = "openfisca_core.variables.variable.Variable"
        return {PeriodOfKey.name: PeriodOfKey(),
                f"{V}.default_array": rec(f"{V}.default_array", "default_array", [("return", default_array)]),
                f"{V}.check_set_value": rec(f"{V}.check_set_value", "check_set_value", [("return", checked), ("raise", "ValueError")])}

    def post(self, I, ctx, a, out, old):
        w, K, idx = a["__w"], a["__K"], a["__idx"]
        buf = w.builder.fields["input_buffer"].items[("c", "v")] if False else None
        from pyvc.interp import hkey
        ib = w.builder.fields["input_buffer"]
        cur = ib.items[hkey("v")]
        oth = ib.items[hkey("w")]
        k = ctx.fresh_const("k", KEY)
        j = ctx.fresh_int("j")
        c = CANON(K)
        pres_k, val_k = cur.lookup(key_val(k))
        rng = z3.And(j >= 0, j < w.N)
        unchanged_k = z3.And(pres_k == w.PRES(k), z3.Implies(z3.And(pres_k, rng), B.zreal(val_k.elem(j)) == w.BUF(k, j)) if val_k is not None else z3.BoolVal(True))
        frame = [("the-variable's-buffer-is-the-same-table", cur is w.buffer and oth is w.other),
                 ("other-variables-keep-their-buffer", z3.Not(oth.lookup(key_val(k))[0]))]
        if a["value"] is None:
            return frame + [("no-value-nothing-changes", z3.And(out[0] == "return", unchanged_k))]
        if out[0] == "raise":
            chk = [e for e in log_of(ctx, "check_set_value")]
            return frame + [("refused-only-when-the-variable-refuses-the-value-and-as-a-situation-error",
                             out[1].cls.name == "SituationParsingError" and len(chk) == 1 and chk[0]["kind"] == "raise"),
                            ("a-refused-value-changes-nothing", unchanged_k)]
        CHK = ctx.ghost.get("CHK")
        pres_c, val_c = cur.lookup(key_val(c))
        res = frame + [("buffered-under-the-canonical-spelling", pres_c),
                       ("array-has-one-element-per-entity", B._z(val_c.n) == w.N if val_c is not None else False)]
        if val_c is None or CHK is None:
            return res + [("value-checked-and-placed", False)]
        res += [("the-checked-value-is-at-the-entity's-index", B.zreal(val_c.elem(idx)) == CHK),
                ("every-other-entity-keeps-what-was-buffered-for-that-period-else-the-default",
                 z3.Implies(z3.And(rng, j != idx), B.zreal(val_c.elem(j)) == z3.If(w.PRES(c), w.BUF(c, j), w.DEF))),
                ("every-other-period-keeps-its-buffer", z3.Implies(k != c, unchanged_k))]
        return res

    def probes(self, case):
        if case == "none":
            return []
        return [{"callee": self.name, "script": NATIVE, "mode": "two-values", "key": key} for key in ("2018-01", "month:2018-01", "month:2018-01:1", "2018", "year:2018", "ETERNITY", "eternity")]

    def judge_native(self, I, case, call, nat):
        return judge(nat)


class InitVariableValues(Contract):
    name = f"{SB}.init_variable_values"
    prop = ("C12",)
    top_level = True
    cases = ("dated-values", "undated-value-with-default-period", "undated-value-without-default-period")
    descr = ("every (period key, value) declared for a variable of an instance goes to add_variable_value with the instance's index, "
             "the key as written and the value; an undated value goes under the default period; a variable that is unknown or "
             "belongs to another entity, a key that does not parse, or an undated value without default period is a situation error")
    inline = (f"{SB}.get_ids",)

    def setup(self, I, ctx, case):
        R = I.resolve_qualified
        if not _STR:
            _STR.append(I.builtins["str"])
        K = [ctx.fresh_const("key%d" % k, KEY) for k in range(2)]
        ctx.assume(K[0] != K[1])
        vals = [Sym(ctx.fresh_real("value%d" % k)) for k in range(2)]
        var = Obj(R("openfisca_core.variables.variable.Variable"), {"name": "v"}, label="var:v")
        ctx.ghost["var"] = var
        ent = Obj(R("openfisca_core.entities.entity.Entity"), {"plural": "persons", "key": "person"}, label="entity")
        if case == "dated-values":
            d = DictVal()
            d.sym = [[key_val(K[1]), vals[1]], [key_val(K[0]), vals[0]]]
            decl = d
        else:
            decl = vals[0]
        DK = ctx.fresh_const("default_key", KEY)
        builder = Obj(R(SB), {"entity_ids": dict_of([("persons", ListVal(["a", "someone", "b"]))]), "axes_entity_ids": DictVal(),
                              "default_period": key_val(DK) if case == "undated-value-with-default-period" else None}, label="builder")
        return {"self": builder, "entity": ent, "instance_object": dict_of([("v", decl)]), "instance_id": "someone",
                "__K": K, "__vals": vals, "__DK": DK, "__case": case, "__var": var}

    @staticmethod
    def local_contracts():
        E = "openfisca_core.entities._core_entity.CoreEntity"
        NF = "VariableNotFoundError"
        return {PeriodOfKey.name: PeriodOfKey(),
                f"{E}.check_variable_defined_for_entity": rec(f"{E}.check_variable_defined_for_entity", "check_defined",
                                                              [("return", None), ("raise", "ValueError"), ("raise", "openfisca_core.errors.variable_not_found_error.VariableNotFoundError")]),
                f"{E}.get_variable": rec(f"{E}.get_variable", "get_variable", [("return", lambda I, ctx, a: ctx.ghost["var"])]),
                f"{SB}.add_variable_value": rec(f"{SB}.add_variable_value", "add_variable_value", [("return", None)])}

    def post(self, I, ctx, a, out, old):
        K, vals, case = a["__K"], a["__vals"], a["__case"]
        adds = log_of(ctx, "add_variable_value")
        chk = log_of(ctx, "check_defined")
        res = [("variable-checked-against-the-entity-first", len(chk) >= 1 and chk[0]["args"]["variable_name"] == "v")]
        if not chk:
            return res
        if chk[0]["kind"] == "raise":
            return res + [("unknown-or-foreign-variable-is-a-situation-error", out[0] == "raise" and out[1].cls.name == "SituationParsingError" and not adds)]
        if case == "undated-value-without-default-period":
            return res + [("undated-value-without-default-period-is-a-situation-error",
                           out[0] == "raise" and out[1].cls.name == "SituationParsingError" and not adds)]
        keys = K if case == "dated-values" else [a["__DK"]]
        if out[0] == "raise":
            # only an unparsable key may stop it, as a situation error, and nothing after it is added
            bad = z3.Or(*[z3.Not(VALID(k)) for k in keys])
            return res + [("refused-only-for-a-key-that-does-not-parse-and-as-a-situation-error",
                           z3.And(z3.BoolVal(out[1].cls.name == "SituationParsingError"), bad))]
        res.append(("every-key-parses-when-accepted", z3.And(*[VALID(k) for k in keys])))
        res.append(("one-value-added-per-declared-key", len(adds) == len(keys)))
        if len(adds) != len(keys):
            return res
        for n, (k, c) in enumerate(zip(keys, adds)):
            ar = c["args"]
            pk = ar["period_str"]
            res.append((f"value-{n + 1}-added-at-the-instance's-index-under-its-key",
                        z3.And(z3.BoolVal(ar["instance_index"] == 1 and ar["variable"] is a["__var"] and ar["entity"] is a["entity"]
                                          and isinstance(pk, Opaque) and pk.e is not None and ar["value"] is vals[n]),
                               pk.e == k if isinstance(pk, Opaque) and pk.e is not None else z3.BoolVal(False))))
        return res


class AddDefaultGroupEntity(Contract):
    name = f"{SB}.add_default_group_entity"
    prop = ("C12",)
    top_level = True
    descr = ("persons left out of a group kind altogether are each put in a group of their own: as many groups as persons, with the "
             "persons' ids, person i in group i, holding the first role")

    def setup(self, I, ctx, case):
        R = I.resolve_qualified
        L = ctx.fresh_int("persons")
        ctx.assume(L >= 1)
        IDS = z3.Function(ctx.fresh_name("ID"), z3.IntSort(), KEY)
        ids = SymList(SeqVal(L, lambda j: Opaque(IDS(B._z(j)), "id", {}), "persons_ids"))
        r0, r1 = Opaque(None, "first-role", {}), Opaque(None, "second-role", {})
        ent = Obj(I.builtins["object"], {"plural": "households", "key": "household", "flattened_roles": TupleVal([r0, r1])}, label="entity")
        builder = Obj(R(SB), {"entity_ids": DictVal(), "entity_counts": DictVal(), "memberships": DictVal(), "roles": DictVal()}, label="builder")
        return {"self": builder, "persons_ids": ids, "entity": ent, "__L": L, "__r0": r0, "__ids": ids}

    def post(self, I, ctx, a, out, old):
        from pyvc.interp import hkey
        b, L = a["self"], a["__L"]
        if out[0] != "return":
            return [("no-exception", False)]
        f = b.fields
        hk = hkey("households")
        if not all(hk in f[k].items for k in ("entity_ids", "entity_counts", "memberships", "roles")):
            return [("group-kind-registered", False)]
        mem, roles = I.as_seq(ctx, f["memberships"].items[hk]), I.as_seq(ctx, f["roles"].items[hk])
        j = ctx.fresh_int("j")
        rng = z3.And(j >= 0, j < L)
        rj = roles.elem(j)
        return [("groups-bear-the-persons'-ids", f["entity_ids"].items[hk] is a["__ids"]),
                ("as-many-groups-as-persons", B._zb(B.eq_formula(I, ctx, f["entity_counts"].items[hk], B.wrap(L)))),
                ("one-membership-and-role-per-person", z3.And(B._z(mem.length) == L, B._z(roles.length) == L)),
                ("person-i-is-in-group-i", z3.Implies(rng, B.zint(mem.elem(j)) == j)),
                ("every-person-holds-the-first-role", rj is a["__r0"])]


class FinalizeVariablesInit(Contract):
    name = f"{SB}.finalize_variables_init"
    prop = ("C12",)
    top_level = True
    cases = tuple((u0, u1) for u0 in ("day", "month", "year") for u1 in ("day", "month", "year")) + (("month", "replicated-along-an-axis"),)
    descr = ("every buffered (period, array) of a variable of the population is handed to the variable's holder exactly once, with the "
             "buffered array, and a period that is shorter - smaller (unit weight, size) - is handed over before a longer one, so that "
             "values declared on longer periods only fill what nothing more specific declared")
    inline = (f"{SB}.get_count", f"{SB}.get_ids", "openfisca_core.periods.helpers.key_period_size")

    def setup(self, I, ctx, case):
        from . import c17_storage as S
        from .c04_periods import sym_period
        R = I.resolve_qualified
        replicated = case[1] == "replicated-along-an-axis"
        if replicated:
            case = (case[0], "year")
        N = ctx.fresh_int("count") if not replicated else z3.IntVal(3)
        ctx.assume(N >= 1)
        ps = [sym_period(I, ctx, case[0], "p0"), sym_period(I, ctx, case[1], "p1")]
        ctx.assume(z3.Not(B._zb(B.eq_formula(I, ctx, ps[0], ps[1]))))
        F = [z3.Function(ctx.fresh_name("VALS%d" % k), z3.IntSort(), z3.RealSort()) for k in range(2)]
        arrs = [nparr.NArr(N if not replicated else 3, lambda j, f=f: Sym(f(B._z(j))), "float", "buffered%d" % k) for k, f in enumerate(F)]
        from .c19_dump import FileNameToken
        tk = FileNameToken()
        toks = [tk.outcomes(I, ctx, {"self": p}, None)[1] for p in ps]
        buf = DictVal()
        buf.sym = [[toks[0], arrs[0]], [toks[1], arrs[1]]][::-1]       # insertion order p0, p1 (sym keeps the newest first)
        var = Obj(R("openfisca_core.variables.variable.Variable"), {"name": "v", "end": None}, label="var:v")
        holder = Obj(R("openfisca_core.holders.holder.Holder"), {"variable": var}, label="holder")
        ent = Obj(I.builtins["object"], {"plural": "persons", "key": "person"}, label="entity")
        pop = Obj(R("openfisca_core.populations.population.Population"), {"entity": ent, "count": 0, "ids": ListVal([])}, label="population")
        ids = ListVal(["ids"])
        builder = Obj(R(SB), {"input_buffer": dict_of([("v", buf)]), "entity_counts": dict_of([("persons", B.wrap(N))]),
                              "entity_ids": dict_of([("persons", ids)]), "axes_entity_counts": dict_of([("persons", 6)]) if replicated else DictVal(),
                              "axes_entity_ids": DictVal(),
                              "memberships": DictVal(), "roles": DictVal(), "axes_memberships": DictVal(), "axes_roles": DictVal()}, label="builder")
        ctx.ghost["holder"] = holder
        return {"self": builder, "population": pop, "__ps": ps, "__arrs": arrs, "__F": F, "__N": N, "__holder": holder, "__ids": ids, "__case": case,
                "__replicated": replicated}

    @staticmethod
    def local_contracts():
        from .c19_dump import FileNameToken, period_of_token_site
        c = period_of_token_site()
        P = "openfisca_core.populations._core_population.CorePopulation"
        H = "openfisca_core.holders.holder.Holder"
        return {FileNameToken.name: FileNameToken(), c.name: c,
                f"{P}.get_holder": rec(f"{P}.get_holder", "get_holder", [("return", lambda I, ctx, a: ctx.ghost["holder"])]),
                f"{H}.set_input": rec(f"{H}.set_input", "set_input", [("return", None)])}

    def post(self, I, ctx, a, out, old):
        ps, arrs, F, N = a["__ps"], a["__arrs"], a["__F"], a["__N"]
        pop = a["population"]
        if out[0] != "return":
            return [("no-exception", False)]
        calls = log_of(ctx, "set_input")
        rep = a.get("__replicated")
        res = [("population-gets-its-count-and-ids", (B._zb(B.eq_formula(I, ctx, pop.fields["count"], B.wrap(N))) if not isinstance(pop.fields["count"], int) else False)
                if not rep else pop.fields["count"] == 6),
               ("population-gets-the-declared-ids", pop.fields["ids"] is a["__ids"]),
               ("one-hand-over-per-buffered-period", len(calls) == 2 and all(c["args"]["self"] is a["__holder"] for c in calls))]
        if len(calls) != 2:
            return res
        j = ctx.fresh_int("j")
        rng = z3.And(j >= 0, j < N)
        first_is_p0 = B._zb(B.eq_formula(I, ctx, calls[0]["args"]["period"], ps[0]))
        for k, c in enumerate(calls):
            for m in range(2):
                hit = B._zb(B.eq_formula(I, ctx, c["args"]["period"], ps[m]))
                arr = c["args"]["array"]
                if rep:
                    # replication along an axis: the copies one after the other (expanding = concatenating the copies)
                    res.append((f"hand-over-{k + 1}-carries-the-buffered-array-once-per-copy-in-a-row",
                                z3.Implies(z3.And(hit, j >= 0, j < 6), z3.And(B._z(arr.n) == 6, B.zreal(arr.elem(j)) == F[m](j % 3)))))
                    continue
                res.append((f"hand-over-{k + 1}-carries-the-array-buffered-for-its-period",
                            z3.Implies(z3.And(hit, rng), z3.And(B._z(arr.n) == N, B.zreal(arr.elem(j)) == F[m](j)))))
        res.append(("both-periods-are-handed-over", z3.Or(z3.And(first_is_p0, B._zb(B.eq_formula(I, ctx, calls[1]["args"]["period"], ps[1]))),
                                                          z3.And(B._zb(B.eq_formula(I, ctx, calls[0]["args"]["period"], ps[1])),
                                                                 B._zb(B.eq_formula(I, ctx, calls[1]["args"]["period"], ps[0]))))))
        W = {"day": 100, "month": 200, "year": 300}
        w0, w1 = W[a["__case"][0]], W[a["__case"][1]]
        s0, s1 = zi(ps[0].items[2]), zi(ps[1].items[2])
        shorter0 = z3.Or(w0 < w1, z3.And(w0 == w1, s0 < s1)) if True else None
        shorter1 = z3.Or(w1 < w0, z3.And(w0 == w1, s1 < s0))
        res.append(("the-shorter-period-is-handed-over-first", z3.And(z3.Implies(shorter0, first_is_p0), z3.Implies(shorter1, z3.Not(first_is_p0)))))
        return res

    def probes(self, case):
        if case != ("month", "month"):
            return []
        return [{"callee": self.name, "script": NATIVE, "mode": "two-periods", "first": a, "second": b}
                for a, b in (("month:2018-01:3", "month:2018-01:24"), ("month:2018-01:24", "month:2018-01:3"), ("month:2018-01:2", "month:2018-01:10"))]

    def judge_native(self, I, case, call, nat):
        return judge(nat)


NATIVE = "import sys; sys.path.insert(0, '/verif/native')\nimport c12_replay\noutcome = c12_replay.run(call)\n"


def judge(nat):
    if nat.get("kind") == "harness-error":
        return "undecided", str(nat)[:300]
    if nat["kind"] == "raise":
        return "violates", "raised " + nat.get("exc", "") + ": " + nat.get("msg", "")
    return ("satisfies", "as specified") if nat["value"].get("ok") else ("violates", str(nat["value"])[:400])


def _situations(tier):
    """every way of declaring 0..2 households over 1..3 persons with ids drawn from a pool that lets a person share an id with
    a household; each person appears in at most two slots so that duplicates and unknown persons occur"""
    import itertools
    out = []
    pools = (["a"], ["a", "b"], ["h1", "b"], ["a", "b", "c"], ["h1", "h2", "c"], ["a", "b", "c", "d"]) if tier == "quick" else \
        (["a"], ["a", "b"], ["h1", "b"], ["b", "h1"], ["a", "b", "c"], ["h1", "h2", "c"], ["c", "h2", "h1"], ["a", "b", "c", "d"])
    for persons in pools:
        cand = persons + ["nobody"]
        for nh in (0, 1, 2):
            hids = ["h1", "h2"][:nh]
            slots = [(h, r) for h in hids for r in ("parents", "children")]
            lists = [[]] + [[x] for x in cand] + [[x, y] for x in cand for y in cand if x != y or x == persons[0]]
            lists3 = lists + [[persons[0], persons[-1], "nobody"][:3]] if len(persons) >= 1 else lists
            if len(persons) >= 3:
                lists3 = lists3 + [persons[:3]]                       # three declared persons as parents: one too many
            kids = lists[: 1 + len(cand)] + ([persons[:3], persons[1:4]] if len(persons) >= 3 else [])   # up to three children: allowed
            combos = itertools.product(*[(lists3 if r == "parents" else kids) for _, r in slots])
            for k, combo in enumerate(combos):
                if tier == "quick" and k % 3:
                    continue
                hh = {h: {} for h in hids}
                for (h, r), lst in zip(slots, combo):
                    if lst:
                        hh[h][r] = list(lst)
                sit = {"persons": {p: {} for p in persons}}
                if nh:
                    sit["households"] = hh
                out.append(sit)
    return out


NATIVE_STANDINS = [
    {"name": "group memberships, roles and own groups of persons left out (build_from_entities / add_group_entity)",
     "where": "SimulationBuilder.add_group_entity / check_persons_to_allocate",
     "bound": "1 to 3 persons (ids from pools in which a person may bear the id of a household), 0 to 2 households, every assignment of "
              "up to 2 (parents: 3) listed ids incl. an undeclared one to the parents / children slots (quick: every third)",
     "calls": lambda tier: [{"callee": "add_group_entity", "script": NATIVE, "mode": "groups", "situations": _situations(tier)}],
     "judge": lambda nat: judge(nat)},
    {"name": "a situation with an axis is the concatenation of the copies it stands for (expand_axes)",
     "where": "SimulationBuilder.expand_axes",
     "bound": "situations of 2-3 persons and 1-3 households (one of them possibly declared without members, persons possibly left out), one axis of 2-4 "
              "steps on a person variable, index 0 or 1; other inputs on persons and households",
     "calls": lambda tier: [{"callee": "expand_axes", "script": NATIVE, "mode": "axes", "situations": _axes_situations(tier)}],
     "judge": lambda nat: judge(nat)},
    {"name": "declared values are read as the variable's type or refused with a situation error (check_set_value through the builder)",
     "where": "Variable.check_set_value / SimulationBuilder.add_variable_value",
     "bound": "19 declared values over two enumerations sharing member names, float (incl. an arithmetic text), int, date (incl. impossible dates), "
              "text, bool - in one process, in a fixed order",
     "calls": lambda tier: [{"callee": "check_set_value", "script": NATIVE, "mode": "values"}],
     "judge": lambda nat: judge(nat)},
]


def _axes_situations(tier):
    out = []
    for persons, households in (
            ({"a": {}, "b": {"vm": {"2018-01": 5}}}, {"h1": {"parents": ["a", "b"], "hm": {"2018-01": 7}}, "h2": {}}),
            ({"a": {}, "b": {}, "c": {}}, {"h1": {"parents": ["a"], "children": ["b"]}}),
            ({"a": {}, "b": {}}, {"h2": {}, "h1": {"parents": ["b"], "children": ["a"], "hm": {"2018-01": 3}}}),
            ({"a": {}, "b": {}, "c": {}}, {"h1": {"parents": ["c"]}, "h2": {"parents": ["a"]}, "h3": {}})):
        for count in ((2, 3) if tier == "quick" else (2, 3, 4)):
            for index in (0, 1):
                out.append({"persons": persons, "households": households,
                            "axes": [[{"count": count, "name": "vm", "min": 0, "max": 100, "period": "2018-01", "index": index}]]})
    return out


CONTRACTS = [AddVariableValue(), InitVariableValues(), AddDefaultGroupEntity(), FinalizeVariablesInit()]
