"""C16 -- inputs given on a longer period are conserved when spread over shorter ones.
Contracts on holders.helpers.set_input_divide_by_period / set_input_dispatch_by_period with loop invariants and
ghost partial sums (DESIGN 4 C16). The holder's store is a ghost view keyed by piece index (pieces of the request
are pairwise distinct periods: lemma), arrays are closures over one symbolic entity index, floats are reals."""
from __future__ import annotations

import z3

from pyvc import builtins_ as B
from pyvc import nparr
from pyvc import smt
from pyvc import theory_cal as cal
from pyvc.contract import Contract, LoopSpec
from pyvc.values import Builtin, DictVal, ExcVal, ListVal, Obj, Opaque, Sym, SymList, TupleVal, Unsupported

from .common import *  # noqa
from .c04_periods import SAME_FAMILY_SPLITS, aligned, sub_count, sym_period, period_in_range

HELP = "openfisca_core.holders.helpers"
HOLDER = "openfisca_core.holders.holder.Holder"


class GPeriod(TupleVal):
    """a Period value carrying the ghost index of the piece it denotes"""
    __slots__ = ("ghost_index",)

    def __init__(self, items, cls, ghost_index):
        super().__init__(items, cls)
        self.ghost_index = ghost_index


def piece_start(I, ctx, period, defp, k):
    """start instant of piece k of `period` split into `defp` pieces (closed form for month/year, ordinal for days)"""
    y, m, d = ymd(period.items[1])
    kz = B._z(k)
    if defp in ("year", "month"):
        t = cal.tidx(y, m) + (12 * kz if defp == "year" else kz)
        return mk_instant(I, t / 12, t % 12 + 1, d)
    key = ("piece", defp, kz.sexpr())
    cache = ctx.ghost.setdefault("piece_cache", {})
    if key not in cache:
        st, _ = fresh_valid_instant(I, ctx, "pc")
        ctx.assume(ORD(st) == cal.ordinal(y, m, d) + (7 * kz if defp == "week" else kz))
        cache[key] = st
    return cache[key]


def piece(I, ctx, period, defp, k):
    st = piece_start(I, ctx, period, defp, k)
    return GPeriod([dateunit(I, defp), st, 1], period_cls(I), B._z(k))


class Store:
    """ghost view of the holder's store over piece indices: index -> (known, array)"""

    def __init__(self, fn):
        self.fn = fn

    def get(self, j):
        return self.fn(j)

    def updated(self, k, arr):
        old = self.fn
        kz = B._z(k)

        def fn(j, old=old, kz=kz, arr=arr):
            kn, a = old(j)
            hit = B._z(j) == kz
            return (smt.simp(z3.Or(hit, kn)),
                    nparr.NArr(a.n, lambda e: B.ite_val(hit, lambda: arr.elem(e), lambda: a.elem(e)), a.dtype, "store"))
        return Store(fn)


class Env16:
    """symbolic inputs shared by both helpers"""

    def __init__(self, I, ctx, defp, unit):
        self.defp, self.unit = defp, unit
        self.N = ctx.fresh_int("N")
        ctx.assume(self.N >= 0)
        self.AM = z3.Function(ctx.fresh_name("AM"), z3.IntSort(), z3.RealSort())          # amount per entity
        self.KN = z3.Function(ctx.fresh_name("KN"), z3.IntSort(), z3.BoolSort())          # piece k already set?
        self.SV = z3.Function(ctx.fresh_name("SV"), z3.IntSort(), z3.IntSort(), z3.RealSort())  # its value
        self.SK = z3.Function(ctx.fresh_name("SK"), z3.IntSort(), z3.IntSort(), z3.RealSort())  # sum of known pieces < k
        self.CU = z3.Function(ctx.fresh_name("CU"), z3.IntSort(), z3.IntSort())           # number of unknown pieces < k
        self.period = sym_period(I, ctx, unit)
        ctx.assume(aligned(defp, self.period.items[1]))
        self.n = sub_count(self.period, defp)
        self.amount = nparr.NArr(self.N, lambda e: Sym(self.AM(B._z(e))), "float", "amount")
        N, SV = self.N, self.SV
        self.store0 = Store(lambda j: (self.KN(B._z(j)), nparr.NArr(N, lambda e, j=j: Sym(SV(B._z(j), B._z(e))), "float", "stored")))
        e = z3.Int("e_def")
        ctx.assume(z3.ForAll([e], self.SK(0, e) == 0))
        ctx.assume(self.CU(0) == 0)

    def unfold(self, ctx, k):
        """definitional equations of the ghost partial sums at index k (one-step unfolding)"""
        kz = B._z(k)
        e = z3.Int("e_def")
        ctx.assume(z3.ForAll([e], self.SK(kz + 1, e) == self.SK(kz, e) + z3.If(self.KN(kz), self.SV(kz, e), 0),
                             patterns=[self.SK(kz + 1, e)]))
        ctx.assume(self.CU(kz + 1) == self.CU(kz) + z3.If(self.KN(kz), 0, 1))
        ctx.assume(z3.Implies(kz >= 0, self.CU(kz) >= 0))

    def holder(self, I, ctx):
        vcls = I.resolve_qualified("openfisca_core.variables.variable.Variable")
        var = Obj(vcls, {"name": "v", "definition_period": dateunit(I, self.defp), "is_neutralized": False,
                         "dtype": nparr.DType("float")})
        pop = Obj(I.resolve_qualified("openfisca_core.populations._core_population.CorePopulation"), {"count": B.wrap(self.N)})
        h = Obj(I.resolve_qualified(HOLDER), {"variable": var, "population": pop, "_eternal": False})
        ctx.ghost["store"] = self.store0
        ctx.ghost["env16"] = self
        return h


def ghost_index(period):
    gi = getattr(period, "ghost_index", None)
    if gi is None:
        raise Unsupported("holder store accessed with a period that is not a piece of the request (no ghost index)")
    return gi


class HolderGetArray(Contract):
    """call-site contract over the ghost store"""
    name = f"{HOLDER}.get_array"
    prop = ()

    def outcomes(self, I, ctx, a, old):
        if getattr(a["period"], "ghost_index", None) is None:
            # a period that is not one of the pieces (e.g. the request itself): what the holder keeps for it is not
            # constrained by the ghost store of the pieces - it may be anything or nothing
            env = ctx.ghost["env16"]
            if ctx.branch(ctx.fresh_bool("other_period_known")):
                F = z3.Function(ctx.fresh_name("OTHER"), z3.IntSort(), z3.RealSort())
                return ("return", nparr.NArr(env.N, lambda e: Sym(F(B._z(e))), "float", "stored-for-another-period"))
            return ("return", None)
        k = ghost_index(a["period"])
        kn, arr = ctx.ghost["store"].get(k)
        if ctx.branch(kn):
            return ("return", arr)
        return ("return", None)

    def post(self, I, ctx, a, out, old):
        return []


class HolderSet(Contract):
    name = f"{HOLDER}._set"
    prop = ()

    def outcomes(self, I, ctx, a, old):
        k = ghost_index(a["period"])
        v = a["value"]
        arr = nparr.as_narr(I, ctx, v)
        env = ctx.ghost["env16"]
        if not ctx.branch(B._z(arr.n) == env.N):
            return ("raise", exc(I, "ValueError"))
        ctx.ghost["store"] = ctx.ghost["store"].updated(k, nparr.NArr(arr.n, arr.elem, arr.dtype, "set"))
        ctx.ghost.setdefault("set_calls", []).append(k)
        return ("return", None)

    def post(self, I, ctx, a, out, old):
        return []


class HolderToArray(Contract):
    name = f"{HOLDER}._to_array"
    prop = ()

    def outcomes(self, I, ctx, a, old):
        arr = nparr.as_narr(I, ctx, a["value"])
        env = ctx.ghost["env16"]
        if not ctx.branch(B._z(arr.n) == env.N):
            return ("raise", exc(I, "ValueError"))
        return ("return", nparr.NArr(arr.n, arr.elem, "float", "to_array"))

    def post(self, I, ctx, a, out, old):
        return []


PAIRS = tuple((d, u) for (u, d) in sorted(SAME_FAMILY_SPLITS))


class _Spread(Contract):
    prop = ("C16", "C17", "C12")
    top_level = True
    cases = PAIRS

    def setup(self, I, ctx, case):
        defp, unit = case
        env = Env16(I, ctx, defp, unit)
        h = env.holder(I, ctx)
        return {"holder": h, "period": env.period, "array": nparr.NArr(env.N, env.amount.elem, "float", "input"), "__env": env}

    def small_model(self, I, case, a):
        env = a["__env"]
        return [env.N >= 1, env.N <= 2, zi(env.period.items[2]) <= 2, ymd(env.period.items[1])[0] >= 1900, ymd(env.period.items[1])[0] <= 2100]

    def call_descriptor(self, I, case, a, ev):
        env = a["__env"]
        defp, unit = case
        N = ev(env.N)
        n = ev(env.n)
        if N > 6 or n > 800:
            return None

        def real(t):
            v = ev(t)
            return v[0] / v[1] if isinstance(v, list) else float(v)
        amount = [real(env.AM(z3.IntVal(e))) for e in range(N)]
        known = {}
        for k in range(n):
            if ev(env.KN(z3.IntVal(k))) is True:
                known[str(k)] = [real(env.SV(z3.IntVal(k), z3.IntVal(e))) for e in range(N)]
        mode = "divide" if "divide" in self.name else "dispatch"
        return {"callee": self.name, "script": "import sys; sys.path.insert(0, '/verif/native')\nimport c16_replay\n"
                "outcome = c16_replay.run(call['mode'], call['defp'], call['period'], call['amount'], call['known'])\n",
                "mode": mode, "defp": defp, "period": enc_period(ev, env.period), "amount": amount, "known": known}

    def probes(self, case):
        defp, unit = case
        mode = "divide" if "divide" in self.name else "dispatch"
        start = {"week": [2021, 1, 4], "weekday": [2021, 1, 4]}.get(defp, [2021, 1, 1])
        if unit == "week":
            start = [2021, 1, 4]
        period = {"t": "Period", "unit": unit, "start": start, "size": 2}
        import sys
        sys.path.insert(0, "/verif/native")
        import c16_replay
        n = len(c16_replay.pieces(defp, period))
        out = []
        for ks in ([], [0], [n - 1], [n // 2], [0, n - 1], list(range(n))):
            ks = sorted(set(k for k in ks if 0 <= k < n))
            out.append({"callee": self.name, "script": "import sys; sys.path.insert(0, '/verif/native')\nimport c16_replay\n"
                        "outcome = c16_replay.run(call['mode'], call['defp'], call['period'], call['amount'], call['known'])\n",
                        "mode": mode, "defp": defp, "period": period, "amount": [120.0, 7.0],
                        "known": {str(k): [5.0, 1.0] for k in ks}})
        if mode == "divide":
            # every piece already given, and an amount that contradicts them for each entity while the differences cancel over the
            # population: to be refused like any other contradiction
            out.append(dict(out[-1], amount=[5.0 * n + 3.0, 1.0 * n - 3.0], known={str(k): [5.0, 1.0] for k in range(n)}))
        return out

    def judge_native(self, I, case, call, nat):
        if nat.get("kind") == "harness-error":
            return "undecided", str(nat)[:300]
        known, amount = call["known"], call["amount"]
        if nat["kind"] == "raise":
            if call["mode"] == "divide" and "Inconsistent input" in nat.get("msg", ""):
                n_known = len(known)
                # legitimate refusal: all pieces set and the amount contradicts them
                import sys
                sys.path.insert(0, "/verif/native")
                import c16_replay
                total_pieces = len(c16_replay.pieces(call["defp"], call["period"]))
                contradicts = any(abs(amount[e] - sum(v[e] for v in known.values())) > 1e-6 for e in range(len(amount)))
                if n_known == total_pieces and contradicts:
                    return "satisfies", "refused as specified"
            return "violates", "raised " + nat.get("exc", "") + ": " + nat.get("msg", "")
        return ("satisfies", "every piece as specified") if nat["value"].get("ok") else ("violates", str(nat["value"])[:400])

    # shared walking invariant: sub_period is piece k, k <= n
    def walk(self, ctx, I, vars, k):
        env = ctx.ghost["env16"]
        sp = vars["sub_period"]
        pk = piece(I, ctx, env.period, env.defp, k)
        kz = B._z(k)
        return [("walk-index-in-range", z3.And(kz >= 0, kz <= env.n)),
                ("sub-period-is-piece-k", B._zb(B.eq_formula(I, ctx, sp, pk)))]

    def store_equals(self, I, ctx, want):
        """formulas: the ghost store equals `want` pointwise (Skolem piece index and entity index)"""
        j = ctx.fresh_int("jj")
        e = ctx.fresh_int("ee")
        env = ctx.ghost["env16"]
        kn1, a1 = ctx.ghost["store"].get(j)
        kn2, a2 = want.get(j)
        rng = z3.And(e >= 0, e < env.N)
        return z3.And(kn1 == kn2, z3.Implies(z3.And(rng, kn2), B.zreal(a1.elem(e)) == B.zreal(a2.elem(e))))


class SetInputDivide(_Spread):
    name = f"{HELP}.set_input_divide_by_period"
    loop_heads = {0: 'while sub_period.start < after_instant',
                  1: 'while sub_period.start < after_instant'}
    descr = ("pieces already set are left untouched, the remainder is shared equally among the others, so the pieces sum to "
             "the amount; an amount contradicting values set for all pieces is refused")

    def _inv_a(self, ctx, I, vars):
        env = ctx.ghost["env16"]
        k = vars.get("__k", 0)
        kz = B._z(k)
        rem = vars["remaining_array"]
        e = z3.Int("e_inv")
        return self.walk(ctx, I, vars, k) + [
            ("remaining-is-amount-minus-known-pieces",
             z3.And(B._z(rem.n) == env.N,
                    z3.ForAll([e], z3.Implies(z3.And(e >= 0, e < env.N), B.zreal(rem.elem(e)) == env.AM(e) - env.SK(kz, e))))),
            ("count-is-number-of-unknown-pieces", B.zint(vars["sub_periods_count"]) == env.CU(kz)),
            ("store-untouched", self.store_equals(I, ctx, env.store0))]

    def _havoc_a(self, ctx, I, vars):
        env = ctx.ghost["env16"]
        k = ctx.fresh_int("ka")
        vars["__k"] = Sym(k)
        env.unfold(ctx, k)
        vars["sub_period"] = piece(I, ctx, env.period, env.defp, k)
        vars["remaining_array"] = nparr.NArr(env.N, lambda e: Sym(env.AM(B._z(e)) - env.SK(k, B._z(e))), "float", "remaining")
        vars["sub_periods_count"] = Sym(env.CU(k))
        vars["__step"] = "a"

    def _want_b(self, ctx, I, vars, k):
        env = ctx.ghost["env16"]
        D = vars["divided_array"]
        kz = B._z(k)

        def fn(j):
            kn0, a0 = env.store0.get(j)
            filled = z3.And(B._z(j) >= 0, B._z(j) < kz, z3.Not(kn0))
            return (smt.simp(z3.Or(kn0, filled)),
                    nparr.NArr(env.N, lambda e: B.ite_val(filled, lambda: D.elem(e), lambda: a0.elem(e)), "float", "want"))
        return Store(fn)

    def _inv_b(self, ctx, I, vars):
        k = vars.get("__k2", 0)
        return self.walk(ctx, I, vars, k) + [("unknown-pieces-before-k-hold-the-share", self.store_equals(I, ctx, self._want_b(ctx, I, vars, k)))]

    def _havoc_b(self, ctx, I, vars):
        env = ctx.ghost["env16"]
        k = ctx.fresh_int("kb")
        vars["__k2"] = Sym(k)
        vars["sub_period"] = piece(I, ctx, env.period, env.defp, k)
        ctx.ghost["store"] = self._want_b(ctx, I, vars, k)

    @property
    def loops(self):
        def step_a(ctx, I, vars):
            vars["__k"] = Sym(B._z(vars["__k"]) + 1)
            ctx.ghost["env16"].unfold(ctx, vars["__k"])

        def step_b(ctx, I, vars):
            vars["__k2"] = Sym(B._z(vars["__k2"]) + 1)
        return {0: LoopSpec(self._inv_a, self._havoc_a, step_a), 1: LoopSpec(self._inv_b, self._havoc_b, step_b)}

    def _bump(self, vars):
        pass

    def post(self, I, ctx, a, out, old):
        env = a["__env"]
        n = env.n
        store = ctx.ghost["store"]
        j, e = ctx.fresh_int("pj"), ctx.fresh_int("pe")
        rng = z3.And(j >= 0, j < n, e >= 0, e < env.N)
        kn, arr = store.get(j)
        cu = env.CU(n)
        share = (env.AM(e) - env.SK(n, e)) / z3.ToReal(cu)
        if out[0] == "raise":
            mismatch = z3.Int("e_mis")
            return [("refused-only-when-all-pieces-are-set-and-the-amount-contradicts-them",
                     z3.And(cu == 0, z3.Exists([mismatch], z3.And(mismatch >= 0, mismatch < env.N, env.AM(mismatch) != env.SK(n, mismatch)))))
                    if raised(out, I, "ValueError") else False,
                    ("nothing-stored-when-refused", self.store_equals(I, ctx, env.store0))]
        # instance of the proved ghost lemma "an unknown piece below k makes the unknown count positive" (lemmas())
        lem = z3.Implies(z3.And(j >= 0, j < n, z3.Not(env.KN(j))), cu > 0)
        res = [
            ("pieces-already-set-are-untouched", z3.Implies(z3.And(rng, env.KN(j)), z3.And(kn, B.zreal(arr.elem(e)) == env.SV(j, e)))),
            ("other-pieces-hold-an-equal-share-of-the-remainder",
             z3.Implies(z3.And(lem, rng, z3.Not(env.KN(j))), z3.And(kn, B.zreal(arr.elem(e)) == share))),
            ("nothing-outside-the-request-is-written", z3.Implies(z3.Or(j < 0, j >= n), kn == env.KN(j))),
            ("accepted-with-all-pieces-set-only-if-consistent",
             z3.Implies(z3.And(cu == 0, e >= 0, e < env.N), env.AM(e) == env.SK(n, e))),
        ]
        return res


class SetInputDispatch(_Spread):
    name = f"{HELP}.set_input_dispatch_by_period"
    loop_heads = {0: 'while sub_period.start < after_instant'}
    descr = "every piece not set before receives the value itself; pieces set before are never overwritten"

    def _want(self, ctx, I, vars, k):
        env = ctx.ghost["env16"]
        kz = B._z(k)

        def fn(j):
            kn0, a0 = env.store0.get(j)
            filled = z3.And(B._z(j) >= 0, B._z(j) < kz, z3.Not(kn0))
            return (smt.simp(z3.Or(kn0, filled)),
                    nparr.NArr(env.N, lambda e: B.ite_val(filled, lambda: Sym(env.AM(B._z(e))), lambda: a0.elem(e)), "float", "want"))
        return Store(fn)

    def _inv(self, ctx, I, vars):
        k = vars.get("__k", 0)
        env = ctx.ghost["env16"]
        arr = vars["array"]
        e = z3.Int("e_arr")
        same = z3.And(B._z(arr.n) == env.N,
                      z3.ForAll([e], z3.Implies(z3.And(e >= 0, e < env.N), B.zreal(arr.elem(e)) == env.AM(e)))) \
            if isinstance(arr, nparr.NArr) else z3.BoolVal(False)
        return self.walk(ctx, I, vars, k) + [("the-value-being-repeated-is-still-the-value-given", same),
                                             ("unset-pieces-before-k-hold-the-value", self.store_equals(I, ctx, self._want(ctx, I, vars, k)))]

    def _havoc(self, ctx, I, vars):
        env = ctx.ghost["env16"]
        k = ctx.fresh_int("kd")
        vars["__k"] = Sym(k)
        vars["array"] = nparr.NArr(env.N, lambda e: Sym(env.AM(B._z(e))), "float", "array")
        vars["existing_array"] = None
        vars["sub_period"] = piece(I, ctx, env.period, env.defp, k)
        ctx.ghost["store"] = self._want(ctx, I, vars, k)

    @property
    def loops(self):
        def step(ctx, I, vars):
            vars["__k"] = Sym(B._z(vars["__k"]) + 1)
        return {0: LoopSpec(self._inv, self._havoc, step)}

    def post(self, I, ctx, a, out, old):
        env = a["__env"]
        if out[0] == "raise":
            return [("no-exception-for-an-input-of-the-right-length", False)]
        n = env.n
        j, e = ctx.fresh_int("pj"), ctx.fresh_int("pe")
        rng = z3.And(j >= 0, j < n, e >= 0, e < env.N)
        kn, arr = ctx.ghost["store"].get(j)
        return [("pieces-already-set-are-untouched", z3.Implies(z3.And(rng, env.KN(j)), z3.And(kn, B.zreal(arr.elem(e)) == env.SV(j, e)))),
                ("other-pieces-receive-the-value-itself", z3.Implies(z3.And(rng, z3.Not(env.KN(j))), z3.And(kn, B.zreal(arr.elem(e)) == env.AM(e)))),
                ("nothing-outside-the-request-is-written", z3.Implies(z3.Or(j < 0, j >= n), kn == env.KN(j)))]


class HolderSetInput(Contract):
    name = f"{HOLDER}.set_input"
    prop = ("C16", "C14")
    top_level = True
    cases = tuple((rule, shape, neut) for rule in (False, True) for shape in ("one-definition-period", "longer-period", "eternity-period")
                  for neut in (False, True)) + ((True, "longer-period-given-before", False),)
    descr = ("an input goes through the variable's spreading rule whenever it has one - also for a single definition period, which "
             "is what keeps values set before from being overwritten - and is stored directly otherwise; an eternal period for a "
             "dated variable is refused; inputs of a neutralised variable are ignored")
    inline = ("openfisca_core.periods.helpers.period*",)

    def setup(self, I, ctx, case):
        from .c18_engine import rec
        rule, shape, neut = case
        calls = []
        ruleobj = None
        if rule:
            def rulefn(ctx2, holder, period, array):
                calls.append((holder, period, array))
                return None
            ruleobj = Builtin("set_input-rule", rulefn)
        vcls = I.resolve_qualified("openfisca_core.variables.variable.Variable")
        var = Obj(vcls, {"name": "v", "definition_period": dateunit(I, "month"), "is_neutralized": neut, "set_input": ruleobj,
                         "value_type": I.builtins["float"]})
        h = Obj(I.resolve_qualified(HOLDER), {"variable": var, "_eternal": False}, label="holder")
        if shape == "one-definition-period":
            p = sym_period(I, ctx, "month")
            ctx.assume(zi(p.items[2]) == 1)
        elif shape in ("longer-period", "longer-period-given-before"):
            p = sym_period(I, ctx, "year")
        else:
            p = mk_period(I, "eternity", mk_instant(I, -1, -1, -1), -1)
        a = {"self": h, "period": p, "array": nparr.NArr(ctx.fresh_int("n"), lambda i: Sym(z3.Real("x")), "float", "input"),
             "__calls": calls, "__case": case}
        if shape == "longer-period-given-before":
            # history: the same input was given for the same period before (and pieces may have been deleted since): it goes through
            # the rule again - the rule decides from what the holder holds now
            f, _ = self.target(I)
            ctx.depth += 1
            try:
                I.inline_call(ctx, f, [], {"self": h, "period": p, "array": a["array"]})
            finally:
                ctx.depth -= 1
        return a

    @staticmethod
    def local_contracts():
        from .c18_engine import rec
        return {f"{HOLDER}._set": rec(f"{HOLDER}._set", "_set", [("return", None)])}

    def post(self, I, ctx, a, out, old):
        from .c18_engine import log_of
        rule, shape, neut = a["__case"]
        calls, sets = a["__calls"], log_of(ctx, "_set")
        if shape == "eternity-period":
            return [("eternal-period-for-a-dated-variable-refused", out[0] == "raise" and out[1].cls.name == "PeriodMismatchError"),
                    ("nothing-stored", not calls and not sets)]
        if neut:
            return [("inputs-of-a-neutralised-variable-are-ignored", out[0] == "return" and not calls and not sets)]
        if out[0] != "return":
            return [("no-exception", False)]
        if shape == "longer-period-given-before":
            return [("an-input-given-again-goes-through-the-spreading-rule-again",
                     len(calls) == 2 and calls[1][0] is a["self"] and calls[1][1] is a["period"] and calls[1][2] is a["array"]),
                    ("not-stored-behind-the-rule's-back", not sets)]
        if rule:
            return [("spreading-rule-applied-once-whatever-the-period",
                     len(calls) == 1 and calls[0][0] is a["self"] and calls[0][1] is a["period"] and calls[0][2] is a["array"]),
                    ("not-stored-behind-the-rule's-back", not sets)]
        return [("stored-directly", len(sets) == 1 and sets[0]["args"]["period"] is a["period"] and sets[0]["args"]["value"] is a["array"])]


class SimSetInput(Contract):
    name = "openfisca_core.simulations.simulation.Simulation.set_input"
    prop = ("C16", "C01")
    top_level = True
    cases = ("no-end", "before-end", "after-end")
    descr = "an input is handed to the variable's holder for the period it names, unless the period starts after the variable's end date"
    inline = ("openfisca_core.periods.helpers.period*", "openfisca_core.simulations.simulation.Simulation.get_holder",
              "openfisca_core.simulations.simulation.Simulation.get_variable_population",
              "openfisca_core.populations._core_population.CorePopulation.get_holder")

    def setup(self, I, ctx, case):
        from .c18_engine import World18
        w = World18(I, ctx, "simple", 0)
        p = sym_period(I, ctx, "month")
        y, m, d = ymd(p.items[1])
        if case != "no-end":
            w.var.fields["end"] = I.dt_date_class.ns["__new_model__"](ctx, I.dt_date_class, 2015, 12, 31)
            key = y * 10000 + m * 100 + d
            ctx.assume(key <= 20151231 if case == "before-end" else key > 20151231)
        return {"self": w.sim, "variable_name": "v", "period": p, "value": Opaque(None, "value", {}), "__w": w, "__case": case}

    @staticmethod
    def local_contracts():
        from .c18_engine import rec
        return {f"{HOLDER}.set_input": rec(f"{HOLDER}.set_input", "holder.set_input", [("return", None)])}

    def post(self, I, ctx, a, out, old):
        from .c18_engine import log_of
        calls = log_of(ctx, "holder.set_input")
        if out[0] != "return":
            return [("no-exception", False)]
        if a["__case"] == "after-end":
            return [("input-after-the-end-date-ignored", not calls)]
        return [("handed-to-the-variable's-holder-for-that-period",
                 len(calls) == 1 and calls[0]["args"]["self"] is a["__w"].holder and calls[0]["args"]["array"] is a["value"] and
                 calls[0]["args"]["period"] is a["period"])]


def _k_bump_hook(I):
    """the ghost walking index follows the code's own step `sub_period = sub_period.offset(1)`"""
    pass


def lemmas(prop, timeout_ms):
    if prop != "C16":
        return []
    recs = []
    # conservation: with S2 the partial sums of the pieces after the call, S2(k) = SK(k) + CU(k)*D; hence the total is the amount
    k = z3.Int("k")
    SK = z3.Function("SKl", z3.IntSort(), z3.RealSort())
    CU = z3.Function("CUl", z3.IntSort(), z3.IntSort())
    S2 = z3.Function("S2l", z3.IntSort(), z3.RealSort())
    KN = z3.Function("KNl", z3.IntSort(), z3.BoolSort())
    SV = z3.Function("SVl", z3.IntSort(), z3.RealSort())
    AFTER = z3.Function("AFTERl", z3.IntSort(), z3.RealSort())
    D, A = z3.Reals("D A")
    n = z3.Int("n")
    defs = lambda x: [SK(x + 1) == SK(x) + z3.If(KN(x), SV(x), 0), CU(x + 1) == CU(x) + z3.If(KN(x), 0, 1),
                      S2(x + 1) == S2(x) + AFTER(x),
                      AFTER(x) == z3.If(KN(x), SV(x), D)]      # the divide postcondition, per piece
    inv = lambda x: S2(x) == SK(x) + z3.ToReal(CU(x)) * D
    L = [("conservation.base", [SK(0) == 0, CU(0) == 0, S2(0) == 0], inv(z3.IntVal(0))),
         ("conservation.step", defs(k) + [inv(k)], inv(k + 1)),
         ("conservation.total-is-the-amount", [inv(n), CU(n) > 0, D == (A - SK(n)) / z3.ToReal(CU(n))], S2(n) == A),
         ("conservation.all-set-and-accepted", [inv(n), CU(n) == 0, A == SK(n)], S2(n) == A)]
    # an unknown piece below k makes the unknown count positive (induction on k)
    jj = z3.Int("jj")
    P = lambda x: z3.Implies(z3.And(jj >= 0, jj < x, z3.Not(KN(jj))), CU(x) > 0)
    Q = lambda x: CU(x) >= 0
    L.append(("unknown-count.base", [CU(0) == 0], z3.And(P(z3.IntVal(0)), Q(z3.IntVal(0)))))
    L.append(("unknown-count.step", defs(k) + [P(k), Q(k), k >= 0], z3.And(P(k + 1), Q(k + 1))))
    # pieces are pairwise distinct periods (so a store keyed by piece index is a store keyed by period)
    t0, i, j, d0, o0 = z3.Ints("t0 i j d0 o0")
    L.append(("pieces.month-starts-strictly-increase", [i < j, cal.OM(t0 + i) + cal.DIM(t0 + i) <= cal.OM(t0 + j)],
              cal.OM(t0 + i) < cal.OM(t0 + j)))
    L.append(("pieces.day-starts-strictly-increase", [i < j], o0 + i < o0 + j))
    for name, hyps, goal in L:
        verdict, backend, model, dt = smt.prove(hyps, goal, timeout_ms=timeout_ms)
        recs.append({"name": "lemma." + name, "where": "contracts/c16_set_input.py", "kind": "lemma", "verdict": verdict,
                     "backend": backend, "time": round(dt, 4), "contract": "c16-lemmas", "case": "None"})
    return recs


CONTRACTS = [SetInputDivide(), SetInputDispatch(), HolderSetInput(), SimSetInput()]
LOCAL = {HolderGetArray.name: HolderGetArray(), HolderSet.name: HolderSet(), HolderToArray.name: HolderToArray()}
for _c in CONTRACTS[:2]:
    _c.local_contracts = (lambda: dict(LOCAL))
