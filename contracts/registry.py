"""Which contracts, lemma libraries and assumed-contract validations serve which property."""
from __future__ import annotations

import importlib
import json
import os
import subprocess
import sys
import time

VERIF = os.path.dirname(os.path.dirname(os.path.abspath(__file__)))
MODULES = ["contracts.c04_periods", "contracts.engine", "contracts.c03_requests", "contracts.c06_parameters", "contracts.c16_set_input", "contracts.c13_clone", "contracts.c14_reforms", "contracts.c18_engine", "contracts.c17_storage", "contracts.c15_enums", "contracts.c10_groups", "contracts.c07_views", "contracts.c19_dump", "contracts.c08_taxscales", "contracts.c09_transforms", "contracts.c12_builder", "contracts.c05_text"]

CAL_THEORY = "calendar (OM/DIM opaque, lemma instances; closed forms = Hinnant days-from-civil), validated against datetime"

PROPS = {
    "C08": {
        "theories": ["tax-scale mathematics over the reals (DESIGN 3.4); numpy 1-D/2-D array algebra; sums over brackets are reduction nodes compared pointwise"],
        "lemmas": [],
        "validations": ["numpy"],
        "assumptions": [
            "floats are reals; numpy.finfo(float64).eps is taken as 0 (with the literal eps the statement's exact equalities are false by an ulp-scale term: the claim is about the mathematical scale)",
            "thresholds strictly increasing, as many rates / amounts as thresholds, at least one bracket, at least one base",
            "numpy contracts used: tile, .T, outer, minimum / maximum with +inf, column slices, dot as a sum over the inner index, sum(axis=1); validated against numpy on every run",
            "threshold factors are positive",
        ],
        "not_decided": ["what numpy.round computes (it is an uninterpreted function here: the rounding cases pin down where rounding is applied, not its value)",
                        "NaN / inf bases, empty scales, result dtypes"],
    },
    "C09": {
        "theories": ["tax-scale mathematics over the reals (DESIGN 3.4); closure lists; finite sums by induction"],
        "lemmas": [],
        "validations": [],
        "assumptions": [
            "floats are reals (no rounding: the decimals option of multiply_thresholds is not decided)",
            "operand scales are well formed: thresholds strictly increasing, as many rates as thresholds",
            "the law reaches calc() through C08's MarginalRateCalc contract (calc = sum over brackets of rate x part of the base in the bracket) and the sum lemmas",
            "for-loops over a list iterate the list as it was when the loop started (none of the loops here changes an element ahead of the cursor)",
            "combining: proved for the marginal-rate function (rate of the bracket containing each point); that the tax is the integral of the marginal rate, so that pointwise additivity of rates is additivity of taxes, is mathematics not checked here",
            "the ghost marginal-rate function of a well-formed scale is introduced by its definition (existence of the bracket containing a point: C08 lemma bracket.count)",
            "multiply_thresholds / scale_tax_scales: positive factor; add_tax_scale: the added scale has non-negative thresholds (a zero upper threshold reads as no upper bound in combine_bracket); inverse: first threshold 0, rates below 1",
        ],
        "native_standins": "contracts.c09_transforms:NATIVE_STANDINS",
        "not_decided": ["to_average / to_marginal: proved for scales with at least one bracket and finite thresholds 0 <= t_0 < t_1 < ...; negative thresholds and the empty scale are outside; "
                        "float('inf') is an unspecified real constant above every finite threshold (arithmetic on it is not modelled); a structurally different but tax-equivalent result "
                        "(e.g. equal-rate brackets merged) would fail the structural clauses",
                        "helpers.combine_tax_scales: proved for groups of three members (each a marginal-rate scale or not, symbolic), add_tax_scale entering through its contract",
                        "the decimals option of multiply_thresholds"],
    },
    "C05": {
        "theories": [CAL_THEORY, "format strings: concrete structure, symbolic decimal fields; regular expressions by derivatives over the real patterns"],
        "lemmas": [],
        "validations": ["calendar", "pendulum", "regex"],
        "assumptions": [
            "years (calendar and ISO) 1000..9999: four digits, as the statement says",
            "pendulum.parse(text, exact=True) on the five ISO shapes: the date named, ParserError when it does not exist (assumed, validated natively)",
            "decimal rendering: format(n, '02d') / str(n) of a non-negative integer; int() of a numeral; str.split / lower / upper on ASCII",
            "regular expressions: derivative matcher over the real patterns as parsed by the standard library's parser; '$' read as end of string (validated against re on every run)",
        ],
        "native_standins": "contracts.c05_text:NATIVE_STANDINS",
        "not_decided": ["arbitrary strings: only the bounded stand-in (the symbolic refusal families cover structured texts with symbolic fields)",
                        "years below 1000 (printed without padding) and sizes below one: outside the statement",
                        "the file-name use in OnDiskStorage (C17 / C19 assume the round trip proved here)"],
    },
    "C12": {
        "theories": ["period keys as an uninterpreted sort with CANON = str o period (idempotent); buffers as maps from keys to arrays"],
        "lemmas": [],
        "validations": ["numpy"],
        "assumptions": [
            "str(periods.period(key)) is the canonical spelling of a key and printing a parsed period is canonical (CANON idempotent): the C05 round trip, assumed here",
            "representation invariant of the input buffer: its keys are canonical spellings (add_variable_value is the only writer)",
            "Variable.check_set_value and Variable.default_array enter as call-site contracts (returns the checked value / raises ValueError; an array of defaults)",
            "string order of decimal numerals is uninterpreted except: irreflexive, total, numeric for numerals of equal length",
        ],
        "native_standins": "contracts.c12_builder:NATIVE_STANDINS",
        "bounded": ["finalize_variables_init: a buffer with two periods (symbolic, units day/month/year); init_variable_values: one variable with two symbolic keys"],
        "not_decided": ["add_group_entity / check_persons_to_allocate are not under contract (nested loops over the document): bounded stand-in on the real code only",
                        "expand_axes / add_parallel_axis: bounded stand-in on the real code only (one axis); add_perpendicular_axis not covered",
                        "Variable.check_set_value's conversions (numpy / eval_expression): bounded stand-in on the real code only; proved: its ValueError becomes a situation error",
                        "build_from_dict shape dispatch, build_from_variables, build_default_simulation"],
    },
    "C19": {
        "theories": ["file system as a ghost map path -> array; storage view of C17"],
        "property_probes": "contracts.c19_dump:PROPERTY_PROBES",
        "lemmas": [],
        "validations": ["numpyio", "numpy"],
        "assumptions": [
            "numpy.save / numpy.load round trip per dtype (assumed; validated natively for bool, int32, float32, datetime64[D], enum indices); object dtype (string variables) does not load without pickle",
            "periods.period(str(p)) == p for stored periods (size one or eternity): the C05 round trip, assumed here",
            "os.listdir returns the names created in the directory; os.path.join is injective",
            "numpy.select: first matching choice (validated against numpy)",
        ],
        "bounded": ["_restore_holder: a holder with two stored periods (symbolic) / one eternal entry; the loops over known periods are unrolled"],
        "not_decided": ["dump_simulation / restore_simulation: proved on systems with zero, one or two group entities and a fixed set of holders / variable directories (concrete shapes, recording contracts of the four workers)",
                        "string variables (object dtype): not restorable without pickle - outside the assumed round trip"],
    },
    "C07": {
        "theories": ["parameter views: VIEW_AT(tree, instant) opaque; representation invariant MemoOK (every memoised view of a system is the view of its current tree)"],
        "native_standins": "contracts.c07_views:NATIVE_STANDINS",
        "lemmas": [],
        "validations": [],
        "assumptions": [
            "the at-instant view of a tree is an opaque function of (tree object, instant): in-place edits of a tree after a read are not a documented route and are not covered",
            "functools.lru_cache (if used) is a process-wide memo keyed by the argument tuple",
            "what a view contains is C06's business (ParameterNodeAtInstant.__init__, Parameter._get_at_instant)",
        ],
        "not_decided": ["vector indexing by non-string, non-enum keys, vector indexing whose result is a group; the as-of-date vectorial variant only through a bounded stand-in on the real code"],
    },
    "C10": {
        "theories": ["groups: N persons, count groups, eid: [0,N) -> [0,count) (all symbolic); aggregates are reduction nodes compared pointwise on (group id, weight) per person"],
        "lemmas": [],
        "validations": ["numpy"],
        "assumptions": [
            "numpy contracts used: bincount (per-group sum of weights; length max(minlength, max+1); sum over a mask selection = masked sum), fancy indexing, where, max, zeros / empty_like, integer item assignment; validated against numpy on every run",
            "floats are reals",
            "0 <= eid[i] < count for every person (well-formed membership)",
        ],
        "bounded": [],
        "not_decided": ["reduce with reducers other than maximum / minimum / logical_and: not under contract in this version",
                        "get_rank: 'the ranks of the m members concerned are a permutation of 0..m-1' is proved as pairwise distinct + non-negative + downward closed (equivalent for finite sets; "
                        "the equivalence itself is not machine-checked here); a population without persons (numpy.max of nothing raises) and a projector given as entity are outside",
                        "the shortcut resolution of projectors (get_projector_from_shortcut, __getattr__ delegation)"],
    },
    "C15": {
        "theories": ["numpy array algebra (closures); enumeration model: n members (1 <= n <= 256, symbolic), indices [0..n), names pairwise distinct, enums[i].index == i"],
        "native_standins": "contracts.c15_enums:NATIVE_STANDINS",
        "lemmas": [],
        "validations": ["numpy"],
        "assumptions": [
            "numpy contracts used: asarray/array of a sequence, comparison with a scalar, boolean-mask indexing (selected elements in order; same length iff all selected), astype(uint8) = value mod 256, fancy indexing; validated against numpy on every run",
            "an enumeration has at most 256 members (uint8 index type)",
        ],
        "not_decided": ["EnumType.__new__ is verified on four concrete declarations (with and without aliases) against an ASSUMED contract of the standard library's enum class creation; "
                        "EnumType.__eq__ / __hash__ (equality of enumerations by class name) only through the bounded stand-in on declarations: the verifier compares classes by identity, "
                        "so 'another enumeration' in the proved contracts is one with another class name"],
    },
    "C01": {
        "theories": ["engine model: callees of the function under test enter through recording call-site contracts; postconditions speak about the call sequence, the stack, the trace tree and what was stored", "storage view stored(period)"],
        "lemmas": [],
        "validations": [],
        "assumptions": [
            "user formulas are pure functions of the values their reads return (assumed); the claim is that the engine functions apply them as the statement says, not that any rule system was run",
            "array casts keep values (floats are reals); enum encoding is C15's business and enters as a recorded call",
            "formula start dates are concrete cases (none / one / two formulas, with and without end date); the requested period is symbolic",
        ],
        "not_decided": ["projections / aggregations inside formulas (C10)", "parameters (C06/C07)", "enum default arrays"],
    },
    "C02": {
        "theories": ["engine model: callees of the function under test enter through recording call-site contracts; postconditions speak about the call sequence, the stack, the trace tree and what was stored"],
        "lemmas": [],
        "validations": [],
        "assumptions": ["stack shapes up to 3 / 5 frames are enumerated for the cycle and spiral functions (periods symbolic)"],
        "bounded": ["_check_for_cycle / invalidate_spiral_variables: stack shapes enumerated up to 3 / 5 frames"],
        "not_decided": ["order-independence for rule systems without self-dependency is an argument over the _calculate contract (a stored value is only ever the cast formula result or an input), not a discharged obligation",
                        "the closing clause (every value still readable equals what a fresh simulation would compute from the other readable values) is a whole-history property: not decided by any contract here"],
    },
    "C17": {
        "theories": ["engine model (recording call-site contracts) + storage view: stored(period) = in-memory entry if any, else the array in the file registered for the period"],
        "lemmas": [],
        "validations": ["numpyio"],
        "assumptions": [
            "numpy.save / numpy.load round trip per dtype (assumed; validated natively for bool, int32, float32, datetime64[D] and uint8 enum arrays; known to fail for object/str arrays)",
            "file names: os.path.join(dir, str(period)) names one file per period (injectivity of str(period) is C05's claim, assumed here)",
            "psutil.virtual_memory().percent and the occupation threshold are arbitrary reals (both storage branches explored)",
            "user formulas are pure; tracing only observes",
        ],
        "not_decided": ["byte-level content of files; string (object dtype) variables cannot be read back from disk with allow_pickle=False (recorded under known findings when claimed)"],
    },
    "C18": {
        "theories": ["engine model: callees of the function under test enter through recording call-site contracts; postconditions speak about the call sequence, the stack, the trace tree and what was stored"],
        "lemmas": [],
        "validations": [],
        "assumptions": [
            "user formulas do not mutate engine state before raising; single thread",
            "callee behaviour is over-approximated: each recorded callee may return or raise in every way its contract lists, and all combinations are explored",
            "stack shapes: 0..2 outer frames for calculate; up to 3-5 frames for the cycle/spiral functions (periods symbolic)",
        ],
        "bounded": ["_check_for_cycle / invalidate_spiral_variables: stack shapes up to 3 / 5 frames enumerated (frame periods symbolic)"],
        "not_decided": ["state mutated by a user formula before it raises"],
    },
    "C14": {
        "theories": ["heap model with concrete identities; frame = snapshot of every object reachable from the base system"],
        "lemmas": [],
        "validations": [],
        "assumptions": [
            "copy.copy / copy.deepcopy: fresh, structurally equal, disjoint from the original (assumed contract of the standard library)",
            "sortedcontainers.SortedDict iterates in key order (assumed, concrete string keys)",
            "heap shape: a base system with two entities, three variables (one with two dated formulas) and a two-level parameter tree",
            "formulas and parameter modifiers are opaque callables; a modifier may edit the tree it is handed in place",
        ],
        "not_decided": ["calculations on base and derived systems (follow from untouched definitions + C01)",
                        "test_runner._get_tax_benefit_system (clones the baseline per reform combination: covered through TaxBenefitSystem.clone)",
                        "Variable.__init__ as a whole (its attribute rule Variable.set and formula rule set_formulas are under contract)"],
    },
    "C13": {
        "theories": ["heap model: objects with concrete identity and symbolic contents; ownership declaration of DESIGN 4 C13"],
        "lemmas": [],
        "validations": [],
        "assumptions": [
            "ownership: a holder owns its storages and their tables, a population its holders table, a simulation its populations "
            "table, mark set and tracer; variables, entities, membership arrays and stored value arrays are shared immutables "
            "(the engine never writes them in place)",
            "heap shape: one person population with two holders (memory only, disk backed) and one group population with one holder; "
            "tables are iterated by unrolling (the clone code treats every entry alike)",
            "non-interference of later operation sequences follows from disjoint owned footprints only for mutators that write "
            "inside their owner's footprint (Holder._set/delete_arrays, storage put/delete, purge): their frames are proved under C17/C18",
        ],
        "not_decided": ["files of a disk-backed storage are shared by path (the OS-level state is outside the heap model)"],
    },
    "C16": {
        "theories": [CAL_THEORY, "numpy array algebra (closures over one symbolic entity index); ghost partial sums with one-step unfolding"],
        "lemmas": [],
        "validations": ["calendar", "pendulum", "numpy"],
        "assumptions": [
            "floats are reals: float32 rounding of the shares and of their sum is not modelled",
            "the long period is tiled exactly by the definition period (same family, start aligned to the definition unit)",
            "the holder's store enters through call-site contracts of Holder.get_array / _set / _to_array over a ghost view keyed by piece",
            "input dtype coercions (e.g. integer list inputs making the in-place subtraction raise a numpy casting error) are outside the statement",
        ],
        "not_decided": [],
    },
    "C06": {
        "theories": ["parameter history view: strictly decreasing (key, value) list; ISO date strings through their order embedding",
                     CAL_THEORY],
        "lemmas": [],
        "validations": ["calendar", "pendulum", "isoorder"],
        "assumptions": [
            "history keys are full ISO dates YYYY-MM-DD with 4-digit years, so string order is date order (validated)",
            "parameter values are opaque; None is represented by a distinguished value; allowed types as in config.ALLOWED_PARAM_TYPES",
            "update(start, stop) is called with start <= stop",
        ],
        "bounded": ["ParameterNodeAtInstant.__init__: member loop unrolled for a group of 3 members (2 parameters, 1 subgroup); values and date symbolic",
                    "Parameter.__init__: a five-entry document (shuffled dates, one null value, both 'expected' placeholder forms)",
                    "ParameterScale._get_at_instant: a scale of three brackets (definedness, thresholds and values symbolic)",
                    "ParameterNode._get_at_instant: one history of length two (read, member's history replaced, read again)"],
        "not_decided": ["YAML loading"],
    },
    "C03": {
        "theories": [CAL_THEORY, "opaque result arrays VAL(variable, period); sums compared by length and pointwise summand"],
        "lemmas": [],
        "validations": ["calendar", "pendulum"],
        "assumptions": [
            "Simulation.calculate is used through its call-site contract: it raises or returns the opaque value VAL(variable, period)",
            "value clauses are claimed for same-family unit pairs from a request start aligned to the definition unit; "
            "cross-family cells accepted by the unit weights (e.g. a week variable summed over a month) are asserted neither way",
            "all dates within years 1..9999; sizes between 1 and 20000",
        ],
        "not_decided": ["plain request of a day/weekday variable whose value is not stored is decided on _check_period_consistency only"],
    },
    "C04": {
        "theories": [CAL_THEORY],
        "lemmas": ["cal"],
        "validations": ["calendar", "z3cal", "extmodel", "pendulum"],
        "assumptions": [
            "all dates (inputs and results) lie within years 1..9999; sizes between 1 and 20000",
            "pendulum.Date.add/start_of/end_of/diff, datetime.date.isocalendar, calendar.monthrange behave as pyvc.calmodel "
            "(validated on sampled/bounded domains on every run, never proved)",
            "intersection(start, stop) is called with start <= stop when both are given",
            "get_subperiods tiling is claimed for same-family unit pairs from a start aligned to the sub-unit; "
            "cross-family splits (e.g. month into weeks) are asserted neither way",
        ],
        "not_decided": ["size_in_weeks / size_in_weekdays of month and year periods (cross-family, excluded by the statement)",
                        "last_fortnight / last_2_weeks / last_26_weeks / last_52_weeks (not under contract)"],
    },
}


def load_all(I):
    from contracts import common
    common.install_common(I)
    reg = {}
    for m in MODULES:
        mod = importlib.import_module(m)
        for c in mod.CONTRACTS:
            reg[c.name] = c
        if hasattr(mod, "install"):
            mod.install(I)
    return reg


def start_validations(prop, tier, seed):
    procs = []
    for v in PROPS[prop].get("validations", []):
        if v == "pendulum":
            cmd = ["/venv/bin/python", os.path.join(VERIF, "native", "validate_pendulum.py"), tier, str(seed)]
        else:
            cmd = [sys.executable, os.path.join(VERIF, "pyvc", "validate_ext.py"), v, tier, str(seed)]
        env = dict(os.environ, PYTHONWARNINGS="ignore")
        procs.append((v, subprocess.Popen(cmd, stdout=subprocess.PIPE, stderr=subprocess.PIPE, text=True, env=env, cwd=VERIF)))
    return procs


def finish_validations(procs):
    out = []
    for v, p in procs:
        so, se = p.communicate()
        lines = [l for l in so.strip().splitlines() if l.startswith("{")]
        if p.returncode != 0 or not lines:
            out.append({"name": v, "ok": False, "cases": 0, "detail": (se or so)[-600:]})
        else:
            out.append(json.loads(lines[-1]))
    return out


def prove_lemmas(prop, timeout_ms):
    recs = []
    spec = PROPS[prop]
    if "cal" in spec.get("lemmas", []):
        from pyvc import theory_cal
        for name, verdict, backend, dt in theory_cal.prove_library(timeout_ms=max(timeout_ms, 60000)):
            recs.append({"name": name, "where": "pyvc/theory_cal.py", "kind": "lemma", "verdict": verdict,
                         "backend": backend, "time": round(dt, 4), "contract": "lemma-library", "case": "None"})
    for modname in MODULES:
        mod = importlib.import_module(modname)
        if hasattr(mod, "lemmas"):
            recs.extend(mod.lemmas(prop, timeout_ms))
    return recs
