"""C19 -- a dumped simulation restores to the same values and entity structure (DESIGN 4 C19).
The directory is a ghost map path -> array (numpy.save / numpy.load assumed round trip per dtype); file names are
injective tokens for str(period), turned back into the period by periods.period (the C05 round trip, assumed here)."""
from __future__ import annotations

import z3

from pyvc import builtins_ as B
from pyvc import nparr
from pyvc.contract import Contract
from pyvc.values import Builtin, ClassVal, DictVal, ExcVal, ListVal, MapVal, Obj, Opaque, SetVal, Sym, TupleVal, Unsupported

from .common import *  # noqa
from . import engine as E
from . import c17_storage as S
from .c04_periods import sym_period
from .c13_clone import dict_of
from .c18_engine import rec, log_of

DUMP = "openfisca_core.tools.simulation_dumper"
HOLDER = S.HOLDER
GPOP = "openfisca_core.populations.group_population.GroupPopulation"
POP = "openfisca_core.populations.population.Population"


def fs_model(I):
    """os / numpy file functions over the ghost file system of the current path (ctx.ghost['fs'])"""
    def fs(ctx):
        f = S.fs_of(ctx)
        f.setdefault("dirs", [])
        return f

    def join(ctx, d, name, *more):
        if more:
            return join(ctx, join(ctx, d, name), *more)
        if isinstance(d, str) and isinstance(name, str):
            return d.rstrip("/") + "/" + name
        ctx.assumed_ext.add("os.path.join(dir, name) names one file per (dir, name); str(period) is injective on periods (C05)")
        core = name.attrs.get("core", name) if isinstance(name, Opaque) else name
        ext0 = name.attrs.get("ext", "") if isinstance(name, Opaque) else ""
        tok = Opaque(S.PJOIN(S.dir_term(d), S.name_term(core)), "path", {"dir": d, "name": core, "ext": ext0})

        def binop(ctx2, op, x, y):
            if isinstance(y, str) and y.startswith("."):
                r = Opaque(x.e, "path", dict(x.attrs))
                r.attrs["ext"] = x.attrs.get("ext", "") + y
                return r
            return B.NOT_IMPLEMENTED
        tok.attrs["binop"] = binop
        return tok

    def mkdir(ctx, d):
        fs(ctx)["dirs"].append(d)

    def listdir(ctx, d):
        ctx.assumed_ext.add("os.listdir(dir): the names of the files and directories created in dir")
        f = fs(ctx)
        names = []
        for p, v in f["writes"]:
            if isinstance(p, Opaque) and p.attrs.get("dir") == d:
                names.append(name_with_ext(I, p.attrs["name"], p.attrs.get("ext", "")))
            elif isinstance(p, str) and p.rsplit("/", 1)[0] == d:
                names.append(p.rsplit("/", 1)[1])
        for x in f["dirs"]:
            if isinstance(x, str) and x.rsplit("/", 1)[0] == d:
                names.append(x.rsplit("/", 1)[1])
        return ListVal(names)
    I.ext["os.path"] = {"join": Builtin("os.path.join", join), "isdir": Builtin("isdir", lambda ctx, d: d in fs(ctx)["dirs"]),
                        "abspath": Builtin("abspath", lambda ctx, d: __import__("posixpath").normpath(d) if isinstance(d, str) and d.startswith("/") else d), "exists": Builtin("exists", None)}
    I.ext["os"].update({"mkdir": Builtin("os.mkdir", mkdir), "listdir": Builtin("os.listdir", listdir)})


def name_with_ext(I, core, ext):
    """a directory entry: the file-name token followed by its extension"""
    if not ext:
        return core

    def ga(ctx, name):
        if name == "endswith":
            return Builtin("endswith", lambda ctx2, suf: ext.endswith(suf) if isinstance(suf, str) else False)
        if name == "rsplit":
            def rsplit(ctx2, sep=None, maxsplit=-1):
                if sep == "." and maxsplit == 1:
                    head = ext[:-len("." + ext.rsplit(".", 1)[1])]
                    return ListVal([name_with_ext(I, core, head), ext.rsplit(".", 1)[1]])
                raise Unsupported("rsplit on a file name")
            return Builtin("rsplit", rsplit)
        return None
    return Opaque(core.e, "filename+ext", {"core": core, "ext": ext, "cls": I.builtins["str"], "getattr": ga})


def install(I):
    fs_model(I)
    np_tab = I.ext["numpy"]
    old_load = np_tab["load"].fn
    old_save = np_tab["save"].fn

    def np_load(ctx, path, **kw):
        path = S.unwrap(path)
        if isinstance(path, str) or True:
            for p, v in reversed(S.fs_of(ctx)["writes"]):
                if (isinstance(p, str) or isinstance(path, str)) and p == path:
                    return _loaded(I, ctx, v)
        r = old_load(ctx, path)
        return r

    def _loaded(I, ctx, v):
        if isinstance(v, (nparr.NArr,)) and v.dtype == "object-str":
            raise I.raise_exc("ValueError")
        if isinstance(v, ListVal):
            return nparr.as_narr(I, ctx, v)
        return v
    np_tab["load"] = Builtin("numpy.load", np_load)


class FileNameToken(S.PeriodStrToken):
    """str(period) inside the storages: an injective token that remembers its period (periods.period inverts it: C05)"""

    def outcomes(self, I, ctx, a, old):
        k = S.period_key(a["self"])
        period = a["self"]

        def ga(ctx2, name):
            if name == "endswith":
                return Builtin("endswith", lambda ctx3, suf: True)
            if name == "rsplit":
                return Builtin("rsplit", lambda ctx3, *args: ListVal([tok, "npy"]))
            return None
        tok = Opaque(S.PSTR(*k), "filename", {"period": period, "cls": I.builtins["str"]})
        tok.attrs["getattr"] = ga
        return ("return", tok)


class PeriodOfToken(Contract):
    """periods.period on a file-name token gives back the period it was printed from (C05 round trip, assumed here);
    on anything else the real function runs"""
    name = "openfisca_core.periods.helpers.period"
    prop = ()

    def apply(self, I, ctx, f, args, kwargs):
        v = args[0] if args else kwargs.get("value")
        if isinstance(v, Opaque) and v.attrs.get("ext"):
            # a name still carrying an extension is not a printed period
            raise ExcVal(I.resolve_qualified("openfisca_core.periods._errors.PeriodError"))
        if isinstance(v, Opaque) and v.attrs.get("period") is not None:
            ctx.assumed_ext.add("periods.period(str(p)) == p for every stored period p (size one or eternity): the C05 round trip")
            ctx.ghost.setdefault("log", []).append({"callee": "periods.period", "args": {"value": v}, "kind": "return", "value": v.attrs["period"]})
            return v.attrs["period"]
        return I.inline_call(ctx, f, args, kwargs)


def period_of_token_site():
    return PeriodOfToken()


class RestoreHolder(Contract):
    name = f"{DUMP}._restore_holder"
    prop = ("C19",)
    top_level = True
    cases = ("dated-float", "eternal-float", "dated-float-one-on-disk")
    descr = ("after _dump_holder, _restore_holder gives the variable's holder, for every period the original held, an array equal "
             "to the original one, and nothing else")
    inline = (f"{DUMP}._dump_holder", HOLDER + ".create_disk_storage", HOLDER + ".get_known_periods", HOLDER + ".get_array",
              S.MEM + ".*", S.DISK + ".*", "openfisca_core.simulations.simulation.Simulation.get_holder",
              "openfisca_core.simulations.simulation.Simulation.get_variable_population",
              "openfisca_core.populations._core_population.CorePopulation.get_holder")

    def setup(self, I, ctx, case):
        R = I.resolve_qualified
        eternal = case.startswith("eternal")
        spilled = case.endswith("one-on-disk")
        w = S.HWorld(I, ctx, disk=spilled, eternal=eternal)
        if eternal:
            ps = [S.eternity(I)]
        else:
            ps = [sym_period(I, ctx, "month", "p%d" % i) for i in range(2)]
            for p in ps:
                ctx.assume(zi(p.items[2]) == 1)
            ctx.assume(z3.Not(B._zb(B.eq_formula(I, ctx, ps[0], ps[1]))))
        vals = [S.plain_array(ctx, "stored%d" % i) for i in range(len(ps))]
        if spilled:
            # the second period's array was moved to the holder's own disk storage (memory threshold reached)
            # ... in a file of the holder's own storage directory, which is not the directory dumped into
            own_dir, dump_dir = S.dir_term(w.disk.fields["storage_dir"]), S.dir_term("/dump/v")
            ctx.assume(own_dir != dump_dir)
            path = Opaque(S.PJOIN(own_dir, ctx.fresh_const("spilled_name", S.NAME)), "path:spilled", {})
            w.disk.fields["_files"] = B.map_of_pairs(I, ctx, [(ps[1], path)], "files")
            vals[1] = S.unwrap(I.call(ctx, I.ext["numpy"]["load"], [path], {}))
            w.mem.fields["_arrays"] = B.map_of_pairs(I, ctx, [(ps[0], vals[0])], "memory")
        else:
            w.mem.fields["_arrays"] = B.map_of_pairs(I, ctx, list(zip(ps, vals)), "memory")
        w.var.fields["possible_values"] = None
        # dump the original holder with the real _dump_holder
        dump = I.resolve_qualified(f"{DUMP}._dump_holder")
        ctx.depth += 1
        saved = dict(I.contracts)
        try:
            I.contracts[FileNameToken.name] = FileNameToken()
            I.call(ctx, dump, [w.holder, "/dump"], {})
        finally:
            ctx.depth -= 1
        # the simulation being restored: same rule system, empty holder
        from .c18_engine import World18
        w2 = World18(I, ctx, "simple", 0, defp="eternity" if eternal else "month")
        w2.var.fields.update({"possible_values": None})
        return {"simulation": w2.sim, "variable_name": "v", "directory": "/dump", "__ps": ps, "__vals": vals, "__w2": w2}

    @staticmethod
    def local_contracts():
        c = period_of_token_site()
        return {FileNameToken.name: FileNameToken(), c.name: c,
                f"{HOLDER}.put_in_cache": rec(f"{HOLDER}.put_in_cache", "put_in_cache", [("return", None)])}

    def post(self, I, ctx, a, out, old):
        if out[0] != "return":
            return [("restore-succeeds", False)]
        puts = log_of(ctx, "put_in_cache")
        ps, vals, w2 = a["__ps"], a["__vals"], a["__w2"]
        res = [("one-array-restored-per-period-held", len(puts) == len(ps)),
               ("restored-into-the-variable's-holder", all(p["args"]["self"] is w2.holder for p in puts))]
        # a storage object opened on the dump is discarded when the restore returns; its finaliser (OnDiskStorage.__del__) removes
        # the directory unless the storage was told to preserve it: the dump must survive being restored
        opened = [o for o in ctx.ghost.get("created", []) if o.cls.name == "OnDiskStorage"]
        res.append(("storages-opened-on-the-dump-preserve-its-files", bool(opened) and all(o.fields.get("preserve_storage_dir") is True for o in opened[-1:])))
        for p, v in zip(ps, vals):
            hits = []
            for e in puts:
                same_p = B._zb(B.eq_formula(I, ctx, e["args"]["period"], p))
                same_v = B._zb(B.eq_formula(I, ctx, S.unwrap(e["args"]["value"]), v))
                hits.append(z3.And(same_p, same_v))
            res.append(("each-period-held-gets-back-its-array", z3.Or(*hits) if hits else z3.BoolVal(False)))
        return res


class RestoreEntity(Contract):
    name = f"{DUMP}._restore_entity"
    prop = ("C19",)
    top_level = True
    cases = ("group", "person")
    descr = ("after _dump_entity, _restore_entity gives a population with the same identifiers, memberships, positions and roles, "
             "and the same number of entities (including groups without members)")
    inline = (f"{DUMP}._dump_entity", GPOP + ".members_position", GPOP + ".members_entity_id", GPOP + ".members_role",
              GPOP + ".ordered_members_map")

    def setup(self, I, ctx, case):
        R = I.resolve_qualified
        group = case == "group"
        N, G = ctx.fresh_int("N"), ctx.fresh_int("G")
        ctx.assume(z3.And(N >= 1, G >= 1))
        EID = z3.Function(ctx.fresh_name("EID"), z3.IntSort(), z3.IntSort())
        POSF = z3.Function(ctx.fresh_name("POS"), z3.IntSort(), z3.IntSort())
        RIDX = z3.Function(ctx.fresh_name("RIDX"), z3.IntSort(), z3.IntSort())
        IDS = z3.Function(ctx.fresh_name("IDS"), z3.IntSort(), z3.IntSort())
        i = z3.Int("i_w")
        ctx.assume(z3.ForAll([i], z3.Implies(z3.And(i >= 0, i < N), z3.And(EID(i) >= 0, EID(i) < G, RIDX(i) >= 0, RIDX(i) < 2)),
                             patterns=[EID(i)]))
        rcls = R("openfisca_core.entities.role.Role")
        dsc = lambda k: Obj(I.builtins["object"], {"key": k, "plural": k + "s", "label": None, "doc": None})
        roles = [Obj(rcls, {"description": dsc("parent")}, label="role:parent"), Obj(rcls, {"description": dsc("child")}, label="role:child")]

        def role_elem(j):
            idx = RIDX(B._z(j))
            return Opaque(None, "role-of-member", {"idx": idx, "eq": (lambda ctx2, other, idx=idx: (idx == roles.index(other)) if other in roles else
                                                                    (other.attrs["idx"] == idx if isinstance(other, Opaque) and "idx" in other.attrs else False))})
        ecls = R("openfisca_core.entities.group_entity.GroupEntity") if group else R("openfisca_core.entities.entity.Entity")
        entity = Obj(ecls, {"key": "household" if group else "person", "flattened_roles": TupleVal(roles)}, label="entity")
        n_ent = G if group else N
        fields = {"entity": entity, "ids": nparr.NArr(n_ent, lambda j: Sym(IDS(B._z(j))), "int", "ids"), "count": Sym(n_ent)}
        if group:
            fields.update({"_members_entity_id": nparr.NArr(N, lambda j: Sym(EID(B._z(j))), "int", "eid"),
                           "_members_position": nparr.NArr(N, lambda j: Sym(POSF(B._z(j))), "int", "pos"),
                           "_members_role": nparr.NArr(N, role_elem, "object", "roles"), "_ordered_members_map": None})
        orig = Obj(R(GPOP if group else POP), fields, label="original-population")
        dump = R(f"{DUMP}._dump_entity")
        ctx.depth += 1
        try:
            I.call(ctx, dump, [orig, "/dump/__entities__"], {})
        finally:
            ctx.depth -= 1
        new = Obj(R(GPOP if group else POP), {"entity": entity, "ids": ListVal([]), "count": 0, "_members_entity_id": None,
                                              "_members_position": None, "_members_role": None, "_ordered_members_map": None},
                  label="restored-population")
        return {"population": new, "directory": "/dump/__entities__", "__orig": orig, "__N": N, "__G": G, "__group": group}

    def post(self, I, ctx, a, out, old):
        if out[0] != "return":
            return [("restore-succeeds", False)]
        new, orig, N, G, group = a["population"], a["__orig"], a["__N"], a["__G"], a["__group"]
        i = ctx.fresh_int("i")
        res = []

        def same_array(name, x, y, n):
            if not isinstance(x, nparr.NArr) or not isinstance(y, nparr.NArr):
                return [(f"{name}-restored", False)]
            return [(f"{name}-same-length", B._z(x.n) == B._z(y.n)),
                    (f"{name}-same-elements", z3.Implies(z3.And(i >= 0, i < n), B._zb(B.eq_formula(I, ctx, x.elem(i), y.elem(i)))))]
        res += same_array("identifiers", new.fields.get("ids"), orig.fields["ids"], G if group else N)
        res.append(("same-number-of-entities", B.zint(new.fields.get("count")) == (G if group else N)))
        if group:
            res += same_array("memberships", new.fields.get("_members_entity_id"), orig.fields["_members_entity_id"], N)
            res += same_array("positions", new.fields.get("_members_position"), orig.fields["_members_position"], N)
            res += same_array("roles", new.fields.get("_members_role"), orig.fields["_members_role"], N)
            res.append(("returns-the-number-of-persons", out[1] is not None and B.zint(out[1]) == N))
        return res

    def probes(self, case):
        return [{"callee": self.name, "script": "import sys; sys.path.insert(0, '/verif/native')\nimport c19_replay\noutcome = c19_replay.run(call['scenario'])\n",
                 "scenario": "trailing-empty-group"}]

    def call_descriptor(self, I, case, a, ev):
        return None

    def judge_native(self, I, case, call, nat):
        if nat.get("kind") != "return":
            return "violates", "scenario raised " + nat.get("exc", "?") + ": " + nat.get("msg", "")
        v = nat["value"]
        return ("satisfies", "scenario ok") if v["ok"] else ("violates", call["scenario"] + ": " + "; ".join(v["detail"]))


CONTRACTS = [RestoreHolder(), RestoreEntity()]


class _SimInit(Contract):
    """call-site contract of Simulation.__init__ as restore_simulation uses it: the simulation gets the populations instantiated for it"""
    name = "openfisca_core.simulations.simulation.Simulation.__init__"
    prop = ()

    def outcomes(self, I, ctx, a, old):
        a["self"].fields["populations"] = a["populations"]
        a["self"].fields["tax_benefit_system"] = a["tax_benefit_system"]
        ctx.ghost["new_simulation"] = a["self"]
        return ("return", None)

    def post(self, I, ctx, a, out, old):
        return []


def _orch_world(I, ctx, groups=2):
    from .c18_engine import rec
    R = I.resolve_qualified
    ent = lambda key, person: Obj(R("openfisca_core.entities.entity.Entity" if person else "openfisca_core.entities.group_entity.GroupEntity"),
                                  {"key": key, "is_person": person}, label="entity:" + key)
    mkpop = lambda key, person, holders: Obj(R(POP if person else GPOP), {"entity": ent(key, person), "count": Sym(ctx.fresh_int("count_" + key)),
                                                                            "_holders": dict_of([(h, Obj(R(HOLDER), {"name": h}, label="holder:" + h)) for h in holders])},
                                              label="population:" + key)
    pops = [("household", mkpop("household", False, ["rent"]))] if groups >= 1 else []
    pops.append(("person", mkpop("person", True, ["salary", "age"])))
    if groups >= 2:
        pops.append(("family", mkpop("family", False, [])))
    return pops


class DumpSimulation(Contract):
    name = f"{DUMP}.dump_simulation"
    prop = ("C19",)
    top_level = True
    cases = ("new-directory", "existing-empty-directory", "directory-not-empty")
    descr = ("dumping writes the structure of every population (once, under <directory>/__entities__) and every holder of every "
             "population (once, under <directory>); a directory that is not empty is refused and nothing is written")

    def setup(self, I, ctx, case):
        pops = _orch_world(I, ctx)
        sim = Obj(I.resolve_qualified("openfisca_core.simulations.simulation.Simulation"), {"populations": dict_of(pops)}, label="simulation")
        f = S.fs_of(ctx)
        f.setdefault("dirs", [])
        if case != "new-directory":
            f["dirs"] += ["/data", "/data/dump"]
        if case == "directory-not-empty":
            f["dirs"].append("/data/dump/leftover")
        return {"simulation": sim, "directory": "/data/dump", "__pops": pops, "__case": case}

    @staticmethod
    def local_contracts():
        from .c18_engine import rec
        return {f"{DUMP}._dump_entity": rec(f"{DUMP}._dump_entity", "dump_entity", [("return", None)]),
                f"{DUMP}._dump_holder": rec(f"{DUMP}._dump_holder", "dump_holder", [("return", None)])}

    def post(self, I, ctx, a, out, old):
        from .c18_engine import log_of
        log = log_of(ctx)
        if a["__case"] == "directory-not-empty":
            return [("a-directory-that-is-not-empty-is-refused", out[0] == "raise" and out[1].cls.name == "ValueError"),
                    ("and-nothing-is-written", not log)]
        if out[0] != "return":
            return [("no-exception", False)]
        want = []
        for key, pop in a["__pops"]:
            want.append(("dump_entity", pop, "/data/dump/__entities__"))
            for h in pop.fields["_holders"].items.values():
                want.append(("dump_holder", h, "/data/dump"))
        got = [(e["callee"], e["args"].get("population", e["args"].get("holder")), e["args"].get("directory")) for e in log]
        dirs = S.fs_of(ctx)["dirs"]
        return [("every-population-and-every-holder-is-dumped-exactly-once-to-the-right-place",
                 len(got) == len(want) and all(g[0] == w[0] and g[1] is w[1] and g[2] == w[2] for g, w in zip(got, want))),
                ("the-directories-exist", "/data/dump" in dirs and "/data/dump/__entities__" in dirs)]


class RestoreSimulation(Contract):
    name = f"{DUMP}.restore_simulation"
    prop = ("C19",)
    top_level = True
    cases = ("two-group-entities", "one-group-entity", "no-group-entity")
    descr = ("restoring builds a simulation of the given system, restores the structure of every population once from "
             "<directory>/__entities__ (the person population has as many persons as the group structures say, when there are "
             "any), and every variable directory once; the __entities__ directory is not taken for a variable")

    def setup(self, I, ctx, case):
        from .c18_engine import rec
        groups = {"two-group-entities": 2, "one-group-entity": 1, "no-group-entity": 0}[case]
        pops = _orch_world(I, ctx, groups)
        table = dict_of(pops)
        tbs = Opaque(None, "tax-benefit-system", {"getattr": lambda ctx2, nm: Builtin("instantiate_entities", lambda ctx3: table) if nm == "instantiate_entities" else None})
        f = S.fs_of(ctx)
        f.setdefault("dirs", [])
        f["dirs"] += ["/data", "/data/dump", "/data/dump/__entities__", "/data/dump/salary", "/data/dump/rent"]
        ctx.ghost["n_persons"] = ctx.fresh_int("persons_in_the_dump")
        person = [p for _, p in pops if p.fields["entity"].fields["is_person"]][0]
        return {"directory": "/data/dump", "tax_benefit_system": tbs, "__pops": pops, "__table": table, "__case": case, "__count0": person.fields["count"]}

    @staticmethod
    def local_contracts():
        from .c18_engine import rec

        def restored_count(I, ctx, a):
            return None if a["population"].fields["entity"].fields["is_person"] else Sym(ctx.ghost["n_persons"])
        return {_SimInit.name: _SimInit(),
                f"{DUMP}._restore_entity": rec(f"{DUMP}._restore_entity", "restore_entity", [("return", restored_count)]),
                f"{DUMP}._restore_holder": rec(f"{DUMP}._restore_holder", "restore_holder", [("return", None)])}

    def post(self, I, ctx, a, out, old):
        from .c18_engine import log_of
        if out[0] != "return" or not isinstance(out[1], Obj):
            return [("returns-a-simulation", False)]
        sim = out[1]
        ents = log_of(ctx, "restore_entity")
        hold = log_of(ctx, "restore_holder")
        pops = [p for _, p in a["__pops"]]
        person = [p for p in pops if p.fields["entity"].fields["is_person"]][0]
        res = [("a-simulation-of-the-given-system-with-its-populations", sim.fields.get("populations") is a["__table"] and sim.fields.get("tax_benefit_system") is a["tax_benefit_system"]),
               ("every-population's-structure-is-restored-exactly-once-from-the-entities-directory",
                len(ents) == len(pops) and all(any(e["args"]["population"] is p for e in ents) for p in pops)
                and all(e["args"]["directory"] == "/data/dump/__entities__" for e in ents)),
               ("every-variable-directory-is-restored-once-into-this-simulation-and-__entities__-is-not-a-variable",
                sorted(str(e["args"]["variable_name"]) for e in hold) == ["rent", "salary"] and all(e["args"]["simulation"] is sim and e["args"]["directory"] == "/data/dump" for e in hold))]
        if a["__case"] == "no-group-entity":
            res.append(("without-group-structure-the-person-count-is-what-the-restored-identifiers-gave", person.fields.get("count") is a["__count0"]))
        else:
            res.append(("the-person-population-has-as-many-persons-as-the-group-structures-say", B._zb(B.eq_formula(I, ctx, person.fields.get("count"), Sym(ctx.ghost["n_persons"])))))
        return res


CONTRACTS += [DumpSimulation(), RestoreSimulation()]


def _c19_probes(self, case):
    return [{"callee": self.name, "script": "import sys; sys.path.insert(0, '/verif/native')\nimport c19_replay\noutcome = c19_replay.run(call['scenario'])\n",
             "scenario": sc} for sc in ("trailing-empty-group", "round-trip", "no-group-entity", "restore-twice")]


for _c in CONTRACTS:
    type(_c).probes = _c19_probes
    if not hasattr(type(_c), "judge_native"):
        type(_c).judge_native = RestoreEntity.judge_native
        type(_c).call_descriptor = RestoreEntity.call_descriptor


def PROPERTY_PROBES():
    """scenarios through the whole dump / restore path, for failing-input searches when a case of any contract serving C19 cannot be generated"""
    script = "import sys; sys.path.insert(0, '/verif/native')\nimport c19_replay\noutcome = c19_replay.run(call['scenario'])\n"

    def judge(nat):
        if nat.get("kind") != "return":
            return "violates", "scenario raised " + nat.get("exc", "?") + ": " + nat.get("msg", "")
        return ("satisfies", "ok") if nat["value"]["ok"] else ("violates", "; ".join(nat["value"]["detail"])[:600])
    return [({"callee": "dump_simulation / restore_simulation", "script": script, "scenario": sc}, judge)
            for sc in ("round-trip", "restore-twice", "trailing-empty-group", "no-group-entity")]
