"""C05 -- text forms of periods and instants round-trip and are canonical (DESIGN 4 C05, 2.5).
The printer (Period.__str__, Instant.__str__) runs on a symbolic aligned period and yields a format string; the real
decoder (helpers.period / helpers.instant with _parsers and the regex-backed string types) runs on that format string.
Refusals are checked on structured strings with symbolic numeric fields."""
from __future__ import annotations

import z3

from pyvc import builtins_ as B
from pyvc import smt
from pyvc import fmtterms
from pyvc import theory_cal as cal
from pyvc.contract import Contract
from pyvc.strings import Dec
from pyvc.values import Builtin, ClassVal, DictVal, ExcVal, FmtStr, ListVal, Obj, Opaque, Sym, TupleVal, Unsupported

from .common import *  # noqa
from .c04_periods import sym_period, mk_period, period_parts, PER

H = "openfisca_core.periods.helpers"
INS = "openfisca_core.periods.instant_.Instant"

# (unit, size class)
PRINT_CASES = (("year", "one"), ("year", "many"), ("month", "one"), ("month", "twelve"), ("month", "other"), ("day", "one"), ("day", "many"),
               ("week", "one"), ("week", "many"), ("weekday", "one"), ("weekday", "many"), ("eternity", "one"))


def aligned_period(I, ctx, unit, szc, base="p"):
    """a symbolic period of the case, aligned as the statement says, years (calendar and ISO) 1000..9999"""
    if unit == "eternity":
        from .c04_periods import mk_instant
        return mk_period(I, unit, mk_instant(I, -1, -1, -1), -1)
    p = sym_period(I, ctx, unit, base)
    u, s, n = period_parts(p)
    y, m, d = ymd(s)
    n = zi(n)
    ctx.assume(z3.And(y >= 1000, y <= 9999))
    ctx.assume({"one": n == 1, "twelve": n == 12, "many": n >= 2, "other": z3.And(n >= 2, n != 12)}[szc])
    if unit in ("month", "year"):
        ctx.assume(d == 1)
    o = cal.ordinal(y, m, d)
    if unit == "week":
        ctx.assume(cal.weekday0(o) == 0)
    if unit in ("week", "weekday"):
        # the ISO year of the start is printed: keep it to four digits as well
        th = o - cal.weekday0(o) + 3
        ctx.assume(z3.And(th >= cal.OM(12 * 1000), th < cal.OM(12 * 10000)))
    return p


def expected_after_parse(I, p, unit, szc):
    """what the statement allows the parse-back to be: the same period, except that twelve months are one year"""
    u, s, n = period_parts(p)
    if unit == "month" and szc == "twelve":
        return "year", s, 1
    return unit, s, n


class ParsePrinted(Contract):
    name = f"{H}.period"
    prop = ("C05",)
    top_level = True
    cases = PRINT_CASES
    descr = ("parsing the text an aligned period prints yields a period covering the same days - the same start, unit and size, except "
             "that twelve months come back as one year - and printing that again yields the same text")
    inline = (f"{H}.*", "openfisca_core.periods._parsers.*", "openfisca_core.types.*", f"{PER}.__str__", f"{PER}.eternity",
              "openfisca_core.periods.date_unit.*")

    def setup(self, I, ctx, case):
        unit, szc = case
        p = aligned_period(I, ctx, unit, szc)
        f = I.resolve_qualified(f"{PER}.__str__")
        ctx.depth += 1
        try:
            text = I.call(ctx, f, [p], {})
        finally:
            ctx.depth -= 1
        return {"value": text, "__p": p, "__text": text, "__case": case}

    def post(self, I, ctx, a, out, old):
        unit, szc = a["__case"]
        p = a["__p"]
        if out[0] != "return":
            return [("the-printed-text-parses", False)]
        q = out[1]
        if not (isinstance(q, TupleVal) and len(q.items) == 3):
            return [("parses-to-a-period", False)]
        if unit == "eternity":
            qu, qs, qn = period_parts(q)
            return [("eternity-comes-back-as-eternity", qu == "eternity")]
        eu, es, en = expected_after_parse(I, p, unit, szc)
        qu, qs, qn = period_parts(q)
        res = [("same-unit-except-twelve-months-is-a-year", qu == eu),
               ("same-start", z3.And(*[zi(x) == zi(y) for x, y in zip(ymd(qs), ymd(es))])),
               ("same-size-except-twelve-months-is-a-year", zi(qn) == zi(en))]
        f = I.resolve_qualified(f"{PER}.__str__")
        try:
            again = I.call(ctx, f, [q], {})
            res.append(("printing-the-parsed-period-gives-the-same-text", B._zb(B.eq_formula(I, ctx, again, a["__text"]))))
        except ExcVal:
            res.append(("printing-the-parsed-period-gives-the-same-text", False))
        return res

    def small_model(self, I, case, a):
        return []

    def call_descriptor(self, I, case, a, ev):
        unit, szc = case
        if unit == "eternity":
            return None
        u, s, n = period_parts(a["__p"])
        return {"callee": self.name, "script": NATIVE, "mode": "round-trip", "unit": unit, "start": [ev(zi(x)) for x in ymd(s)], "size": ev(zi(n))}

    def probes(self, case):
        unit, szc = case
        if unit == "eternity":
            return [{"callee": self.name, "script": NATIVE, "mode": "round-trip", "unit": "eternity", "start": [-1, -1, -1], "size": -1}]
        size = {"one": [1], "twelve": [12], "many": [2, 3, 12, 24], "other": [2, 11, 13]}[szc]
        starts = {"year": [[2014, 1, 1], [2014, 3, 1], [1000, 1, 1], [9990, 12, 1]], "month": [[2014, 1, 1], [2014, 12, 1], [2016, 2, 1]],
                  "day": [[2014, 1, 1], [2016, 2, 29], [2014, 12, 31]], "week": [[2014, 12, 29], [2015, 1, 5], [2020, 12, 28], [2021, 1, 4]],
                  "weekday": [[2014, 12, 29], [2016, 1, 3], [2021, 1, 1], [2015, 12, 31]]}[unit]
        return [{"callee": self.name, "script": NATIVE, "mode": "round-trip", "unit": unit, "start": st, "size": n} for st in starts for n in size]

    def judge_native(self, I, case, call, nat):
        return judge(nat)


class ParsePrintedInstant(Contract):
    name = f"{H}.instant"
    prop = ("C05",)
    top_level = True
    descr = "every instant (years 1000..9999) prints as an ISO date that parses back to itself"
    inline = (f"{H}.*", "openfisca_core.periods._parsers.*", "openfisca_core.types.*", f"{INS}.__str__", f"{INS}.date")

    def target(self, I):
        d = I.resolve_qualified(self.name)
        for ann, f in d.registry:
            if ann.split(".")[-1].strip() == "str":
                return f, "dispatch:str"
        raise Unsupported("no str overload of helpers.instant")

    def setup(self, I, ctx, case):
        i, (y, m, d) = sym_instant(I, ctx, "i")
        ctx.assume(z3.And(y >= 1000, y <= 9999))
        f = I.resolve_qualified(f"{INS}.__str__")
        ctx.depth += 1
        try:
            text = I.call(ctx, f, [i], {})
        finally:
            ctx.depth -= 1
        return {"value": text, "__i": i}

    def post(self, I, ctx, a, out, old):
        if out[0] != "return" or not isinstance(out[1], TupleVal):
            return [("the-printed-instant-parses", False)]
        return [("parses-back-to-itself", z3.And(*[zi(x) == zi(y) for x, y in zip(ymd(out[1]), ymd(a["__i"]))]))]

    def call_descriptor(self, I, case, a, ev):
        return {"callee": self.name, "script": NATIVE, "mode": "instant", "start": [ev(zi(x)) for x in ymd(a["__i"])]}

    def probes(self, case):
        return [{"callee": self.name, "script": NATIVE, "mode": "instant", "start": st} for st in ([2014, 1, 1], [2016, 2, 29], [1000, 1, 1], [9999, 12, 31])]

    def judge_native(self, I, case, call, nat):
        return judge(nat)


class PrintInjective(Contract):
    name = f"{PER}.__str__"
    prop = ("C05",)
    top_level = True
    cases = tuple(c for c in PRINT_CASES if c[0] != "eternity") + (("year", "any"), ("month", "any"), ("day", "any"), ("week", "any"), ("weekday", "any"))
    descr = ("two aligned periods of the same unit that differ in start or size never print to the same text (cases: both of one size "
             "class, and sizes of any two classes)")
    inline = ("openfisca_core.periods.date_unit.*",)

    def setup(self, I, ctx, case):
        unit, szc = case
        p = aligned_period(I, ctx, unit, szc if szc != "any" else "anysize", "p") if szc != "any" else self._any(I, ctx, unit, "p")
        q = aligned_period(I, ctx, unit, szc, "q") if szc != "any" else self._any(I, ctx, unit, "q")
        same = z3.And(*[zi(x) == zi(y) for x, y in zip(ymd(period_parts(p)[1]), ymd(period_parts(q)[1]))], zi(period_parts(p)[2]) == zi(period_parts(q)[2]))
        ctx.assume(z3.Not(same))
        f = I.resolve_qualified(f"{PER}.__str__")
        ctx.depth += 1
        try:
            other = I.call(ctx, f, [q], {})
        finally:
            ctx.depth -= 1
        return {"self": p, "__other": other}

    @staticmethod
    def _any(I, ctx, unit, base):
        p = sym_period(I, ctx, unit, base)
        u, s, n = period_parts(p)
        y, m, d = ymd(s)
        ctx.assume(z3.And(y >= 1000, y <= 9999, zi(n) >= 1))
        if unit in ("month", "year"):
            ctx.assume(d == 1)
        o = cal.ordinal(y, m, d)
        if unit == "week":
            ctx.assume(cal.weekday0(o) == 0)
        if unit in ("week", "weekday"):
            th = o - cal.weekday0(o) + 3
            ctx.assume(z3.And(th >= cal.OM(12 * 1000), th < cal.OM(12 * 10000)))
        return p

    def post(self, I, ctx, a, out, old):
        if out[0] != "return":
            return [("prints", False)]
        return [("texts-differ", z3.Not(B._zb(B.eq_formula(I, ctx, out[1], a["__other"]))))]


def _date_text(ctx, shape, base="f"):
    """(format string, fields dict) of an ISO shape with symbolic fields: year 1000..9999 in four digits, the other fields any
    value their number of digits can show"""
    y = ctx.fresh_int(base + "y")
    ctx.assume(z3.And(y >= 1000, y <= 9999))
    f = {"y": y}
    parts = [Dec(y, 4)]
    if shape in ("month", "day"):
        f["m"] = ctx.fresh_int(base + "m")
        ctx.assume(z3.And(f["m"] >= 0, f["m"] <= 99))
        parts += ["-", Dec(f["m"], 2)]
    if shape == "day":
        f["d"] = ctx.fresh_int(base + "d")
        ctx.assume(z3.And(f["d"] >= 0, f["d"] <= 99))
        parts += ["-", Dec(f["d"], 2)]
    if shape in ("week", "weekday"):
        f["w"] = ctx.fresh_int(base + "w")
        ctx.assume(z3.And(f["w"] >= 0, f["w"] <= 99))
        parts += ["-W", Dec(f["w"], 2)]
    if shape == "weekday":
        f["wd"] = ctx.fresh_int(base + "wd")
        ctx.assume(z3.And(f["wd"] >= 0, f["wd"] <= 9))
        parts += ["-", Dec(f["wd"], 1)]
    return parts, f


def _exists(f, shape):
    """the date the ISO text names exists"""
    y = f["y"]
    if shape == "year":
        return z3.BoolVal(True)
    if shape == "month":
        return z3.And(f["m"] >= 1, f["m"] <= 12)
    if shape == "day":
        return cal.valid(y, f["m"], f["d"])
    jan4 = cal.OM(12 * y) + 3
    thursday = jan4 - cal.weekday0(jan4) + 7 * (f["w"] - 1) + 3
    ok = z3.And(f["w"] >= 1, thursday < cal.OM(12 * y + 12))
    if shape == "weekday":
        ok = z3.And(ok, f["wd"] >= 1, f["wd"] <= 7)
    return ok


FINER = (("day", "year"), ("day", "month"), ("day", "week"), ("weekday", "year"), ("weekday", "month"), ("weekday", "week"),
         ("week", "year"), ("month", "year"), ("week", "month"))


class Refusals(Contract):
    name = f"{H}.period#refusals"
    prop = ("C05",)
    top_level = True
    cases = tuple(("impossible-date", sh) for sh in ("month", "day", "week", "weekday")) + \
        tuple(("finer-unit", u, sh, sz) for u, sh in FINER for sz in ("no-size", "size")) + \
        tuple(("non-integer-size", t) for t in ("x", "1.5", "", "1x", "one")) + \
        tuple(("unknown-unit", u) for u in ("fortnight", "eternity", "quarter", "")) + (("extra-field",),)
    descr = ("strings naming an impossible calendar date, a unit finer than the precision of the date given, a non-integer size, an "
             "unknown unit or extra fields are refused with an error (a ValueError) instead of being mapped to some period")
    inline = ParsePrinted.inline

    def setup(self, I, ctx, case):
        kind = case[0]
        if kind == "impossible-date":
            parts, f = _date_text(ctx, case[1])
            ctx.assume(z3.Not(_exists(f, case[1])))
        elif kind == "finer-unit":
            _, u, sh, sz = case
            parts, f = _date_text(ctx, sh)
            ctx.assume(_exists(f, sh))
            parts = [u, ":"] + parts
            if sz == "size":
                n = ctx.fresh_int("n")
                ctx.assume(n >= 1)
                parts += [":", Dec(n, None)]
        elif kind == "non-integer-size":
            parts, f = _date_text(ctx, "month")
            ctx.assume(_exists(f, "month"))
            parts = ["month", ":"] + parts + [":", case[1]]
        elif kind == "unknown-unit":
            parts, f = _date_text(ctx, "month")
            ctx.assume(_exists(f, "month"))
            parts = [case[1], ":"] + parts
        else:
            parts, f = _date_text(ctx, "month")
            ctx.assume(_exists(f, "month"))
            n, k = ctx.fresh_int("n"), ctx.fresh_int("k")
            ctx.assume(z3.And(n >= 1, k >= 0))
            parts = ["month", ":"] + parts + [":", Dec(n, None), ":", Dec(k, None)]
        text = FmtStr(parts)
        return {"value": text, "__case": case, "__f": f}

    def post(self, I, ctx, a, out, old):
        if out[0] != "raise":
            return [("refused", False)]
        return [("refused", True), ("with-a-value-error", any(c.name == "ValueError" for c in out[1].cls.mro()))]

    def probes(self, case):
        kind = case[0]
        texts = []
        if kind == "impossible-date":
            texts = {"month": ["2014-13", "2014-00"], "day": ["2014-02-30", "2015-02-29", "2014-04-31", "2014-13-01"],
                     "week": ["2014-W53", "2015-W54", "2014-W00"], "weekday": ["2014-W01-8", "2014-W01-0", "2014-W53-1"]}[case[1]]
        elif kind == "finer-unit":
            _, u, sh, sz = case
            date = {"year": "2014", "month": "2014-02", "week": "2014-W05"}[sh]
            texts = [f"{u}:{date}" + (":3" if sz == "size" else "")]
        elif kind == "non-integer-size":
            texts = ["month:2014-02:" + case[1]]
        elif kind == "unknown-unit":
            texts = [case[1] + ":2014-02"]
        else:
            texts = ["month:2014-02:3:1"]
        return [{"callee": self.name, "script": NATIVE, "mode": "must-refuse", "text": t} for t in texts]

    def call_descriptor(self, I, case, a, ev):
        return None

    def judge_native(self, I, case, call, nat):
        return judge(nat)


REFUSAL_KINDS = ("impossible-date", "finer-unit", "non-integer-size", "unknown-unit", "extra-field")


class PeriodOfText(ParsePrinted):
    """one registered contract for helpers.period: the round trip on printed texts and the refusals"""
    cases = ParsePrinted.cases + Refusals.cases
    descr = ParsePrinted.descr + "; " + Refusals.descr
    _r = Refusals()

    def _is_r(self, case):
        return case[0] in REFUSAL_KINDS

    def setup(self, I, ctx, case):
        return self._r.setup(I, ctx, case) if self._is_r(case) else super().setup(I, ctx, case)

    def post(self, I, ctx, a, out, old):
        return self._r.post(I, ctx, a, out, old) if self._is_r(a["__case"]) else super().post(I, ctx, a, out, old)

    def probes(self, case):
        return self._r.probes(case) if self._is_r(case) else super().probes(case)

    def call_descriptor(self, I, case, a, ev):
        return None if self._is_r(case) else super().call_descriptor(I, case, a, ev)


NATIVE = "import sys; sys.path.insert(0, '/verif/native')\nimport c05_replay\noutcome = c05_replay.run(call)\n"


def judge(nat):
    if nat.get("kind") == "harness-error":
        return "undecided", str(nat)[:300]
    if nat["kind"] == "raise":
        return "violates", "raised " + nat.get("exc", "") + ": " + nat.get("msg", "")
    return ("satisfies", "as specified") if nat["value"].get("ok") else ("violates", str(nat["value"])[:400])


NATIVE_STANDINS = [
    {"name": "every string of a finite set is refused or is a spelling whose canonical text is stable; the statement's refusal list is refused",
     "where": "periods.helpers.period on arbitrary strings",
     "bound": "the printed forms of 9 starts x 5 units x sizes {1,2,3,12,24} plus 8 hand-picked texts (quick: every third), all their single-character "
              "insertions / deletions / substitutions over the alphabet '0123456789-:Wdwy ', and every string of length <= 4 over '0129-:W' "
              "(39 197 strings quick, 120 716 thorough); an independent classifier decides which must be refused",
     "calls": lambda tier: [{"callee": "periods.period", "script": NATIVE, "mode": "strings", "tier": tier}],
     "judge": lambda nat: judge(nat)},
]


CONTRACTS = [PeriodOfText(), ParsePrintedInstant(), PrintInjective()]
