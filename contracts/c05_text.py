"""C05 -- text forms of periods and instants round-trip and are canonical (DESIGN 4 C05, 2.5).
The printer (Period.__str__, Instant.__str__) runs on a symbolic aligned period and yields a format string; the real
decoder (helpers.period / helpers.instant with _parsers and the regex-backed string types) runs on that format string.
Refusals are checked on structured strings with symbolic numeric fields."""
from __future__ import annotations

import z3

from pyvc import builtins_ as B
from pyvc import smt
from pyvc import fmtterms
from pyvc import theory_cal as cal
from pyvc.contract import Contract
from pyvc.strings import Dec
from pyvc.values import Builtin, ClassVal, DictVal, ExcVal, FmtStr, ListVal, Obj, Opaque, Sym, TupleVal, Unsupported

from .common import *  # noqa
from .c04_periods import sym_period, mk_period, period_parts, PER

H = "openfisca_core.periods.helpers"
INS = "openfisca_core.periods.instant_.Instant"

# (unit, size class)
PRINT_CASES = (("year", "one"), ("year", "many"), ("month", "one"), ("month", "twelve"), ("month", "other"), ("day", "one"), ("day", "many"),
               ("week", "one"), ("week", "many"), ("weekday", "one"), ("weekday", "many"), ("eternity", "one"))


def aligned_period(I, ctx, unit, szc, base="p"):
    """a symbolic period of the case, aligned as the statement says, years (calendar and ISO) 1000..9999"""
    if unit == "eternity":
        from .c04_periods import mk_instant
        return mk_period(I, unit, mk_instant(I, -1, -1, -1), -1)
    p = sym_period(I, ctx, unit, base)
    u, s, n = period_parts(p)
    y, m, d = ymd(s)
    n = zi(n)
    ctx.assume(z3.And(y >= 1000, y <= 9999))
    ctx.assume({"one": n == 1, "twelve": n == 12, "many": n >= 2, "other": z3.And(n >= 2, n != 12)}[szc])
    if unit in ("month", "year"):
        ctx.assume(d == 1)
    o = cal.ordinal(y, m, d)
    if unit == "week":
        ctx.assume(cal.weekday0(o) == 0)
    if unit in ("week", "weekday"):
        # the ISO year of the start is printed: keep it to four digits as well
        th = o - cal.weekday0(o) + 3
        ctx.assume(z3.And(th >= cal.OM(12 * 1000), th < cal.OM(12 * 10000)))
    return p


def expected_after_parse(I, p, unit, szc):
    """what the statement allows the parse-back to be: the same period, except that twelve months are one year"""
    u, s, n = period_parts(p)
    if unit == "month" and szc == "twelve":
        return "year", s, 1
    return unit, s, n


class ParsePrinted(Contract):
    name = f"{H}.period"
    prop = ("C05",)
    top_level = True
    cases = PRINT_CASES
    descr = ("parsing the text an aligned period prints yields a period covering the same days - the same start, unit and size, except "
             "that twelve months come back as one year - and printing that again yields the same text")
    inline = (f"{H}.*", "openfisca_core.periods._parsers.*", "openfisca_core.types.*", f"{PER}.__str__", f"{PER}.eternity",
              "openfisca_core.periods.date_unit.*")

    def setup(self, I, ctx, case):
        unit, szc = case
        p = aligned_period(I, ctx, unit, szc)
        f = I.resolve_qualified(f"{PER}.__str__")
        ctx.depth += 1
        try:
            text = I.call(ctx, f, [p], {})
        finally:
            ctx.depth -= 1
        return {"value": text, "__p": p, "__text": text, "__case": case}

    def post(self, I, ctx, a, out, old):
        unit, szc = a["__case"]
        p = a["__p"]
        if out[0] != "return":
            return [("the-printed-text-parses", False)]
        q = out[1]
        if not (isinstance(q, TupleVal) and len(q.items) == 3):
            return [("parses-to-a-period", False)]
        if unit == "eternity":
            qu, qs, qn = period_parts(q)
            return [("eternity-comes-back-as-eternity", qu == "eternity")]
        eu, es, en = expected_after_parse(I, p, unit, szc)
        qu, qs, qn = period_parts(q)
        res = [("same-unit-except-twelve-months-is-a-year", qu == eu),
               ("same-start", z3.And(*[zi(x) == zi(y) for x, y in zip(ymd(qs), ymd(es))])),
               ("same-size-except-twelve-months-is-a-year", zi(qn) == zi(en))]
        f = I.resolve_qualified(f"{PER}.__str__")
        try:
            again = I.call(ctx, f, [q], {})
            res.append(("printing-the-parsed-period-gives-the-same-text", B._zb(B.eq_formula(I, ctx, again, a["__text"]))))
        except ExcVal:
            res.append(("printing-the-parsed-period-gives-the-same-text", False))
        return res

    def small_model(self, I, case, a):
        return []

    def call_descriptor(self, I, case, a, ev):
        unit, szc = case
        if unit == "eternity":
            return None
        u, s, n = period_parts(a["__p"])
        return {"callee": self.name, "script": NATIVE, "mode": "round-trip", "unit": unit, "start": [ev(zi(x)) for x in ymd(s)], "size": ev(zi(n))}

    def probes(self, case):
        unit, szc = case
        if unit == "eternity":
            return [{"callee": self.name, "script": NATIVE, "mode": "round-trip", "unit": "eternity", "start": [-1, -1, -1], "size": -1}]
        size = {"one": [1], "twelve": [12], "many": [2, 3, 12, 24], "other": [2, 11, 13]}[szc]
        starts = {"year": [[2014, 1, 1], [2014, 3, 1], [1000, 1, 1], [9990, 12, 1]], "month": [[2014, 1, 1], [2014, 12, 1], [2016, 2, 1]],
                  "day": [[2014, 1, 1], [2016, 2, 29], [2014, 12, 31]], "week": [[2014, 12, 29], [2015, 1, 5], [2020, 12, 28], [2021, 1, 4]],
                  "weekday": [[2014, 12, 29], [2016, 1, 3], [2021, 1, 1], [2015, 12, 31]]}[unit]
        return [{"callee": self.name, "script": NATIVE, "mode": "round-trip", "unit": unit, "start": st, "size": n} for st in starts for n in size]

    def judge_native(self, I, case, call, nat):
        return judge(nat)


NATIVE = "import sys; sys.path.insert(0, '/verif/native')\nimport c05_replay\noutcome = c05_replay.run(call)\n"


def judge(nat):
    if nat.get("kind") == "harness-error":
        return "undecided", str(nat)[:300]
    if nat["kind"] == "raise":
        return "violates", "raised " + nat.get("exc", "") + ": " + nat.get("msg", "")
    return ("satisfies", "as specified") if nat["value"].get("ok") else ("violates", str(nat["value"])[:400])


CONTRACTS = [ParsePrinted()]
