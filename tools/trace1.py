import sys; sys.path.insert(0,'/verif')
from pyvc.driver import get_interp
from pyvc.ctx import Ctx
from pyvc.values import ExcVal
I, reg = get_interp()
name, case = sys.argv[1], eval(sys.argv[2])
c = [c for c in reg.values() if c.name.endswith(name)][0]
f, kind = c.target(I)
I.under_test = c.name; I.inline=set(c.inline); I.loop_specs = {c.name: c.loops} if c.loops else {}
if hasattr(c,'local_contracts'):
    I.contracts=dict(I.contracts); I.contracts.update(c.local_contracts())
ctx = Ctx()
a = c.setup(I, ctx, case)
params = c.params(f)
try:
    r = I.inline_call(ctx, f, [], {p:a[p] for p in params if p in a})
    print("RETURN", r)
except Exception as e:
    import traceback; traceback.print_exc()
except ExcVal as e:
    print("RAISE", e.cls.name, "at", ctx.where, e.args_)
