#!/bin/bash
# runs the quick check of every claimed property in parallel (4 at a time); prints one line each
cd "$(dirname "$0")/.."
props=$(python3 -c "import json;print(' '.join(p['property_id'] for p in json.load(open('MANIFEST.json'))['checks']))")
mkdir -p /var/tmp/runall
echo $props | tr ' ' '\n' | xargs -P ${1:-4} -I{} sh -c './check {} > /var/tmp/runall/{}.txt 2>&1; echo "{} exit=$? $(grep -c VIOLATION /var/tmp/runall/{}.txt) violations $(tail -1 /var/tmp/runall/{}.txt | cut -c1-120)"'
