#!/bin/bash
# usage: keepseed5.sh <prop> <k-in-worktree> <n-to-keep-as>: like keepseed4.sh for the round-5 worktrees (/tmp/wt5_<prop>/out)
P=$1; K=$2; N=$3; SRC=/tmp/wt5_$P/out; DST=/verif/seeded/$P-$N
mkdir -p $DST
cp $SRC/change_$K.diff $DST/patch.diff; cp $SRC/demo_$K.py $DST/demo.py; cp $SRC/notes_$K.md $DST/notes.md
SR_SRC=$SRC /verif/tools/seedround.sh $P $K 2>&1 < /dev/null | grep -v "WARNING conda" > $DST/run.txt
python3 /verif/tools/seedmeta4.py $P $N $DST
python3 - "$DST" <<'PY'
import json,sys
p=sys.argv[1]+"/meta.json"; m=json.load(open(p)); m["round"]=5; json.dump(m,open(p,"w"),indent=1)
PY
