#!/usr/bin/env python3
"""Regenerates /verif/MANIFEST.json from contracts/registry.py (claimed) and NOT_APPLICABLE below."""
import json, os, sys
VERIF = os.path.dirname(os.path.dirname(os.path.abspath(__file__)))
sys.path.insert(0, VERIF)
from contracts import manifest_data as MD

props = [json.loads(l)["id"] for l in open(os.path.join(VERIF, "properties.jsonl"))]
checks = []
for pid in props:
    if pid in MD.CLAIMS:
        c = MD.CLAIMS[pid]
        checks.append({
            "property_id": pid,
            "quick_cmd": f"./check {pid} --tier quick",
            "thorough_cmd": f"./check {pid} --tier thorough",
            "evidence_file": f"/verif/evidence/{pid}.json",
            "replay_cmd_template": f"./check {pid} --replay {{path}}",
            "engine": "pyvc",
            "level_claimed": {"category": c.get("category", "proof"), "text": c["text"], "design_ref": c["design_ref"]},
            "level_note": c["note"],
            "technique": c["technique"],
        })
na = [{"property_id": pid, "reason": MD.NOT_APPLICABLE.get(pid, "check not built yet (framework under construction; DESIGN.md section 8 build order)")}
      for pid in props if pid not in MD.CLAIMS]
m = {
    "version": 1,
    "setup_cmd": "python3-vt -c \"import z3; print('z3', z3.get_version_string())\" && /usr/bin/cvc5 --version | head -1 && /venv/bin/python -c \"import openfisca_core, pendulum, numpy; print('repo importable')\"",
    "hooks": {"guard": "OPENFISCA_CORE_VERIF", "enable": "no source hooks: pyvc parses the working-tree sources under /repo on every run and keeps contracts as sidecar files under /verif/contracts",
              "baseline_off_cmd": "cd /repo && /venv/bin/python -m pytest -ra -q -p no:cacheprovider --timeout=900 --continue-on-collection-errors",
              "source_commits": MD.HOOK_COMMITS, "add_only": True},
    "engines": [{"name": "pyvc", "path": "/verif/pyvc", "serves_properties": sorted(MD.CLAIMS),
                 "kind_free_text": "contract-based deductive verification: AST path executor over the real /repo sources, sidecar contracts (pre/post, loop invariants, frames, ghost state), verification conditions discharged by z3 with cvc5 fallback; counterexamples replayed natively under /venv/bin/python"}],
    "checks": checks,
    "notes": MD.NOTES,
    "not_applicable": na,
}
json.dump(m, open(os.path.join(VERIF, "MANIFEST.json"), "w"), indent=1)
print("claimed:", sorted(MD.CLAIMS), "not applicable:", [x["property_id"] for x in na])
