#!/bin/sh
# usage: keepseed2.sh <prop> <k-in-worktree> <k-to-keep-as>  -- like keepseed.sh for a later round (renumbers without touching the agent's files)
P=$1; K=$2; N=$3; SRC=/tmp/wt_$P/out; DST=/verif/seeded/$P-$N
mkdir -p $DST
cp $SRC/change_$K.diff $DST/patch.diff; cp $SRC/demo_$K.py $DST/demo.py; cp $SRC/notes_$K.md $DST/notes.md
/verif/tools/seedtest.sh $P $DST/patch.diff $DST/demo.py > $DST/run.txt 2>&1
python3 /verif/tools/seedmeta.py $P $N $DST
