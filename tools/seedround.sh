#!/bin/bash
# usage: [SR_QUICK=1] [SR_ARGS="--only x"] seedround.sh <prop> <k> [more props to check...]   (SRC dir: $SR_SRC or /tmp/wt_<prop>/out)
# Confirms a sub-agent's change /tmp/wt_<prop>/out/change_<k>.diff on a scratch copy of /repo (never /repo itself):
#   patch applies to HEAD; suite with the change (440 passed + the 4 known failures); demo exits 1 with / 0 without;
#   then runs the quick check(s) against the changed copy. Prints a short report; scratch removed at the end.
P=$1; K=$2; shift 2
SRC=${SR_SRC:-/tmp/wt_$P/out}
S=/var/tmp/seedround.$P.$K.$$
mkdir -p $S/t
git -C /repo archive HEAD | tar -x -C $S/t
cd $S/t
if ! patch -p1 -s < $SRC/change_$K.diff; then echo "PATCH DOES NOT APPLY"; rm -rf $S; exit 9; fi
if [ -z "$SR_QUICK" ]; then
PYTHONPATH=$S/t /venv/bin/python -m pytest -q -p no:cacheprovider --timeout=900 > $S/suite.txt 2>&1
echo "suite with change: $(tail -1 $S/suite.txt) | failures: $(grep -c '^FAILED' $S/suite.txt) ($(grep '^FAILED' $S/suite.txt | grep -vc test_yaml.py::test_.*shell_script) unexpected)"
PYTHONPATH=$S/t PYTHONWARNINGS=ignore /venv/bin/python $SRC/demo_$K.py > $S/demo.out 2>&1; echo "demo with change: exit=$? ($(tail -1 $S/demo.out | cut -c1-200))"
(cd /repo && PYTHONPATH=/repo PYTHONWARNINGS=ignore /venv/bin/python $SRC/demo_$K.py > /dev/null 2>&1; echo "demo without change: exit=$?")
fi
for Q in $P "$@"; do
  PYVC_REPO=$S/t PYVC_EVIDENCE_DIR=$S/evidence PYVC_REPLAY_DIR=$S/replays /verif/check $Q $SR_ARGS > $S/out.$Q.txt 2>&1
  e=$?
  echo "check $Q: exit=$e; $(grep -c '^VIOLATION' $S/out.$Q.txt) violation lines, $(grep '^VIOLATION' $S/out.$Q.txt | grep -vc no-failing-input-found) with replayed failing input; $(grep 'quick:' $S/out.$Q.txt | sed 's/.*obligations/obligations/')"
  grep -E "^VIOLATION|^UNDECIDED|^CHECKER-ERROR|UNSUPPORTED" $S/out.$Q.txt | sed 's/.*replays\/[A-Z0-9]*\///' | cut -c1-220 | head -4
done
cd /; rm -rf $S
