#!/bin/bash
# usage: keepseed6.sh <prop> <k-in-worktree> <n-to-keep-as> [more props]: like keepseed5.sh for the round-6 worktrees (/tmp/wt6_<prop>/out).
# The suite / demo confirmation lines are taken from the confirmation run of tools/seedround.sh kept in /var/tmp/sr6_<prop>_<k>.txt
# (same scratch-copy procedure); the check itself is run again (SR_QUICK=1) with the current machinery, so that run.txt shows what catches it now.
P=$1; K=$2; N=$3; shift 3; SRC=/tmp/wt6_$P/out; DST=/verif/seeded/$P-$N
mkdir -p $DST
cp $SRC/change_$K.diff $DST/patch.diff; cp $SRC/demo_$K.py $DST/demo.py; cp $SRC/notes_$K.md $DST/notes.md
grep -E "^suite with change|^demo with|^demo without" /var/tmp/sr6_${P}_$K.txt > $DST/run.txt
SR_QUICK=1 SR_SRC=$SRC /verif/tools/seedround.sh $P $K "$@" 2>&1 < /dev/null | grep -v "WARNING conda" >> $DST/run.txt
python3 /verif/tools/seedmeta4.py $P $N $DST
python3 - "$DST" <<'PY'
import json,sys
p=sys.argv[1]+"/meta.json"; m=json.load(open(p)); m["round"]=6; json.dump(m,open(p,"w"),indent=1)
PY
