import json, re, sys
P, K, DST = sys.argv[1:]
run = open(DST + "/run.txt").read()
notes = open(DST + "/notes.md").read()
m0 = re.search(r"suite with change: (.*?) \| failures: (\d+) \((\d+) unexpected\)", run)
m1 = re.search(r"demo with change: exit=(\d+)", run); m2 = re.search(r"demo without change: exit=(\d+)", run)
mv = re.search(r"check %s: exit=(\d+); (\d+) violation lines, (\d+) with replayed" % P, run)
meta = {
 "id": f"{P}-{K}", "breaks_property": P, "round": 4,
 "origin": "independent sub-agent given only the property text and a scratch worktree (no access to /verif)",
 "needs_to_manifest": " ".join(notes.split())[:900],
 "confirmed": {"suite_with_change": (m0.group(1).strip() if m0 else None), "suite_failures": int(m0.group(2)) if m0 else None,
               "suite_failures_other_than_the_4_shell_script_tests": int(m0.group(3)) if m0 else None,
               "demo_exit_with_change": int(m1.group(1)) if m1 else None, "demo_exit_without_change": int(m2.group(1)) if m2 else None},
 "what_was_run": f"tools/seedround.sh {P} <k>  (scratch copy of /repo HEAD under /var/tmp with seeded/{P}-{K}/patch.diff applied: the unedited suite; demo.py with and without "
                 f"the change; PYVC_REPO=<scratch> ./check {P}; scratch removed)",
 "check_result": {"exit": int(mv.group(1)) if mv else None, "violation_lines": int(mv.group(2)) if mv else None,
                  "with_replayed_failing_input": int(mv.group(3)) if mv else None,
                  "detected": bool(mv and int(mv.group(1)) == 1 and int(mv.group(2)) > 0),
                  "first_obligations": re.findall(r"^([\w.\-]+__.*?\.json.*)$", run, re.M)[:3]},
}
json.dump(meta, open(DST + "/meta.json", "w"), indent=1)
ok = meta["confirmed"]["suite_failures_other_than_the_4_shell_script_tests"] == 0 and meta["confirmed"]["demo_exit_with_change"] == 1 and meta["confirmed"]["demo_exit_without_change"] == 0
print(P, K, "detected" if meta["check_result"]["detected"] else "MISSED", "confirmed" if ok else "NOT-CONFIRMED", meta["confirmed"]["suite_with_change"])
