#!/bin/bash
# usage: selftest.sh Cxx [Cyy ...]: re-applies the recorded seeded changes of the properties on scratch copies and reports which the quick check detects
cd "$(dirname "$0")/.."
for P in "$@"; do
python3-vt - "$P" <<'PY'
import sys
sys.path.insert(0, '/verif')
from pyvc.driver import run_self_test
for r in run_self_test(sys.argv[1]):
    print(r)
PY
done
