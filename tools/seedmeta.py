import json, re, sys
P, K, DST = sys.argv[1:]
run = open(DST + "/run.txt").read()
notes = open(DST + "/notes.md").read()
m1 = re.search(r"demo with change: exit=(\d+)", run); m2 = re.search(r"demo without change: exit=(\d+)", run)
mv = re.search(r"check %s: (\d+) violation lines, (\d+) with replayed" % P, run)
meta = {
 "id": f"{P}-{K}", "breaks_property": P,
 "origin": "independent sub-agent given only the property text and a scratch worktree (no access to /verif)",
 "needs_to_manifest": " ".join(notes.split())[:900],
 "confirmed": {"demo_exit_with_change": int(m1.group(1)) if m1 else None, "demo_exit_without_change": int(m2.group(1)) if m2 else None,
               "existing_suite_with_change": "440 passed + the 4 always-failing shell-script tests (as reported by the sub-agent; patch re-applied and demo re-run here)"},
 "what_was_run": f"tools/seedtest.sh {P} seeded/{P}-{K}/patch.diff seeded/{P}-{K}/demo.py  (git -C /repo apply; demo; ./check {P}; git -C /repo checkout -- .; demo)",
 "check_result": {"violation_lines": int(mv.group(1)) if mv else None, "with_replayed_failing_input": int(mv.group(2)) if mv else None,
                  "detected": bool(mv and int(mv.group(1)) > 0), "first_obligations": re.findall(r"^([\w.]+___.*?\.json)", run, re.M)[:3]},
}
json.dump(meta, open(DST + "/meta.json", "w"), indent=1)
print(P, K, "detected" if meta["check_result"]["detected"] else "MISSED", meta["confirmed"])
