import sys, time; sys.path.insert(0,'/verif')
from pyvc.interp import Interp
from pyvc.contract import run_contract_case
from contracts import c04_periods as C
I = Interp()
from contracts import common; common.install_common(I)
reg = {c.name: c for c in C.CONTRACTS}
only = sys.argv[1] if len(sys.argv)>1 else None
for c in C.CONTRACTS:
    if only and only not in c.name: continue
    I.contracts = {k:v for k,v in reg.items()}
    for case in c.cases:
        r = run_contract_case(I, c, case)
        ob = r['obligations']
        bad = [o for o in ob if o['verdict']!='proved']
        print(c.name.split('.')[-2:], case, 'paths',r['paths'],'obl',len(ob),'bad',len(bad),'cover',r['cover'],'wall',r['wall'], r['outcomes'], r['error'] or '')
        for o in bad: print('   ',o['name'],o['verdict'],o['where'],o.get('model'), o.get('call'))
