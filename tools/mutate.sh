#!/bin/sh
# usage: mutate.sh <file-relative-to-repo> <sed-expr> <prop> [check args]  -- runs a check against a mutated scratch copy
set -e
S=/var/tmp/pyvc.mut.$$
mkdir -p $S && cp -r /repo/openfisca_core /repo/openfisca_web_api $S/ 
sed -i "$2" $S/$1
if diff -q /repo/$1 $S/$1 >/dev/null; then echo "MUTATION DID NOT APPLY"; rm -rf $S; exit 9; fi
diff /repo/$1 $S/$1 | head -6
shift; shift
PYVC_EVIDENCE_DIR=$S/evidence PYVC_REPLAY_DIR=$S/replays PYVC_REPO=$S /verif/check "$@" | grep -v "^  failed obligation" | tail -8 || true
rm -rf $S
