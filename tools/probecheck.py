#!/opt/veriftools/pyvenv/bin/python
"""Runs every native probe scenario of every registered contract against the tree (PYVC_REPO or /repo) and prints those
judged 'violates'. On a tree whose obligations are all discharged a probe that fails is an ill-formed probe (its input is
outside the contract's precondition, or its expectation is wrong): probes must be corrected, never the code.
usage: probecheck.py [contract-name-substring]"""
import json
import os
import sys
from concurrent.futures import ProcessPoolExecutor

sys.path.insert(0, os.path.dirname(os.path.dirname(os.path.abspath(__file__))))


def jobs(filt):
    from pyvc.driver import get_interp
    I, reg = get_interp()
    out = []
    for name, c in sorted(reg.items()):
        if not hasattr(c, "probes") or (filt and filt not in name):
            continue
        for ci, case in enumerate(c.cases):
            try:
                ps = c.probes(case) or []
            except Exception as e:
                print("PROBE-LIST-ERROR", name, case, type(e).__name__, e)
                continue
            for pi, pc in enumerate(ps):
                out.append((name, ci, pi))
    return out


def run(job):
    name, ci, pi = job
    from pyvc.driver import get_interp
    from pyvc import replay as RP
    I, reg = get_interp()
    c = reg[name]
    case = c.cases[ci]
    pc = c.probes(case)[pi]
    path = f"/var/tmp/probecheck.{os.getpid()}.json"
    json.dump({"call": pc}, open(path, "w"))
    try:
        nat = RP.run_native(path)
        if hasattr(c, "judge_native"):
            verdict, detail = c.judge_native(I, case, pc, nat)
        else:
            verdict, detail = RP.evaluate_post(I, c, case, pc, nat)
    except Exception as e:
        verdict, detail = "error", f"{type(e).__name__}: {e}"
    finally:
        os.unlink(path)
    return name, repr(case), pi, verdict, str(detail)[:300], {k: v for k, v in pc.items() if k != "script"}


def main():
    filt = sys.argv[1] if len(sys.argv) > 1 else None
    js = jobs(filt)
    bad = 0
    with ProcessPoolExecutor(12) as ex:
        for name, case, pi, verdict, detail, pc in ex.map(run, js):
            if verdict != "satisfies":
                bad += verdict == "violates"
                print(verdict.upper(), name, case, pi, detail, json.dumps(pc)[:400])
    print(f"probes run: {len(js)}; violating: {bad}")
    return 1 if bad else 0


if __name__ == "__main__":
    sys.exit(main())
