#!/bin/bash
# runs the recorded behaviour-preserving refactorings (harmless/LIST.txt: diff + the properties whose contracts cover the function) through
# the quick checks on scratch copies; every line must say exit=0 (a non-zero exit on one of them is a false alarm or a brittle contract)
cd "$(dirname "$0")/.."
sed "s#^#$PWD/#" harmless/LIST.txt | xargs -P ${1:-3} -I{} sh -c 'tools/harmtest.sh {} < /dev/null'
