#!/bin/sh
# usage: seedtest.sh <prop> <change.diff> <demo.py> [more props...]  -- applies a seeded change to /repo, runs the demo and the check(s), undoes it
P=$1; D=$2; DEMO=$3; shift 3
cd /repo || exit 9
git diff --quiet || { echo "REPO NOT CLEAN"; exit 9; }
git apply "$D" || { echo "PATCH DOES NOT APPLY"; exit 9; }
PYTHONPATH=/repo PYTHONWARNINGS=ignore /venv/bin/python "$DEMO" > /var/tmp/seed_demo.out 2>&1; echo "demo with change: exit=$? ($(tail -1 /var/tmp/seed_demo.out | cut -c1-150))"
S=/var/tmp/pyvc.seed.$$; mkdir -p $S
for Q in $P "$@"; do
  PYVC_EVIDENCE_DIR=$S/evidence PYVC_REPLAY_DIR=$S/replays /verif/check $Q > $S/out.txt 2>&1
  echo "check $Q: $(grep -c '^VIOLATION' $S/out.txt) violation lines, $(grep '^VIOLATION' $S/out.txt | grep -vc no-failing-input-found) with replayed failing input; $(grep 'quick:' $S/out.txt | sed 's/.*obligations/obligations/')"
  grep -E "^VIOLATION" $S/out.txt | sed 's/.*replays\/[A-Z0-9]*\///' | cut -c1-150 | head -3
done
git checkout -- .
PYTHONPATH=/repo PYTHONWARNINGS=ignore /venv/bin/python "$DEMO" > /dev/null 2>&1; echo "demo without change: exit=$?"
rm -rf $S
