#!/usr/bin/env python3
"""Print python files without docstrings (reading aid only)."""
import ast, sys
class S(ast.NodeTransformer):
    def _strip(self, n):
        self.generic_visit(n)
        if n.body and isinstance(n.body[0], ast.Expr) and isinstance(n.body[0].value, ast.Constant) and isinstance(n.body[0].value.value, str):
            n.body = n.body[1:] or [ast.Pass()]
        return n
    visit_FunctionDef = visit_ClassDef = visit_AsyncFunctionDef = visit_Module = _strip
for f in sys.argv[1:]:
    print("#### " + f)
    print(ast.unparse(S().visit(ast.parse(open(f).read()))))
