#!/bin/bash
# usage: harmtest.sh <diff> [props...]: applies a (supposedly behaviour-preserving) diff to a scratch copy of /repo and runs the
# quick checks of the properties whose evidence mentions a touched file (or the given ones); prints one line per property.
D=$1; shift
S=/var/tmp/pyvc.harm.$$
mkdir -p $S && cp -r /repo/openfisca_core /repo/openfisca_web_api $S/
if ! patch -p1 -s -d $S -i $D; then echo "DOES NOT APPLY $D"; rm -rf $S; exit 9; fi
props="$@"
if [ -z "$props" ]; then
  files=$(grep '^+++ b/' $D | sed 's#+++ b/##')
  for f in $files; do
    m=$(echo $f | sed 's#\.py$##; s#/#.#g')
    props="$props $(grep -l -e "$f" -e "$m" /verif/evidence/C*.json | xargs -n1 basename | sed 's/.json//')"
  done
  props=$(echo $props | tr ' ' '\n' | sort -u | tr '\n' ' ')
fi
for P in $props; do
  PYVC_EVIDENCE_DIR=$S/evidence PYVC_REPLAY_DIR=$S/replays PYVC_REPO=$S /verif/check $P > $S/$P.txt 2>&1
  e=$?
  echo "$(basename $(dirname $(dirname $D)))/$(basename $D) $P exit=$e $(grep -m2 'VIOLATION\|UNDECIDED\|CHECKER-ERROR' $S/$P.txt | cut -c1-260 | tr '\n' ' ')"
done
rm -rf $S
