#!/bin/bash
# usage: keepseed4.sh <prop> <k-in-worktree> <n-to-keep-as>: records a sub-agent's change as /verif/seeded/<prop>-<n> after confirming it here
# (tools/seedround.sh: suite with the change on a scratch copy, demo with / without, the property's quick check on the changed copy)
P=$1; K=$2; N=$3; SRC=/tmp/wt_$P/out; DST=/verif/seeded/$P-$N
mkdir -p $DST
cp $SRC/change_$K.diff $DST/patch.diff; cp $SRC/demo_$K.py $DST/demo.py; cp $SRC/notes_$K.md $DST/notes.md
/verif/tools/seedround.sh $P $K 2>&1 | grep -v "WARNING conda" > $DST/run.txt
python3 /verif/tools/seedmeta4.py $P $N $DST
