import sys, time; sys.path.insert(0,'/verif')
from pyvc import smt
from pyvc.contract import run_contract_case
from pyvc.driver import get_interp
I, reg = get_interp()
name, case = sys.argv[1], eval(sys.argv[2])
c = [c for c in reg.values() if c.name.endswith(name)][0]
r = run_contract_case(I, c, case, timeout_ms=int(sys.argv[3]) if len(sys.argv)>3 else 30000)
ob = r['obligations']
print('paths',r['paths'],'obl',len(ob),'wall',r['wall'],r['error'])
S=smt.STATS
print('z3',S.z3_calls,round(S.z3_time,2),'feas',S.feas_calls,round(S.feas_time,2),'cvc5',S.cvc5_calls,round(S.cvc5_time,2))
for o in sorted(ob,key=lambda o:-o['time'])[:10]: print(o['name'],o['verdict'],o['backend'],o['time'],o['where'])
for o in ob:
    if o['verdict']!='proved': print('BAD',o['name'],o['verdict'],o.get('model'),o.get('call'))
