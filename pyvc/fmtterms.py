"""Format-term string domain (DESIGN 2.5) -- filled in with C05."""
from .values import Unsupported


def fmt_eq(I, ctx, a, b):
    raise Unsupported(f"format-term equality not available: {a!r} == {b!r} at {ctx.where}")


def fmt_len(I, ctx, s):
    raise Unsupported("format-term len")


def parse_int(I, ctx, v):
    raise Unsupported(f"int() of {v!r}")


def str_method(I, ctx, s, name):
    return None
