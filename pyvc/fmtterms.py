"""Format-term string domain (DESIGN 2.5): strings whose *structure* is concrete (literal characters, in particular every
separator) and whose numeric fields are symbolic.

A normalised string is a list of segments: a single character, or a field `Dec(e, k)`: the decimal numeral of the
non-negative integer term e written with exactly k digits (zero padded), k known; `Dec(e, None)`: the unpadded numeral of a
non-negative integer whose number of digits is not known (only as the last segment). The number of digits of an unpadded
numeral is established from the path's hypotheses by solver queries; a literal '0' directly before a field is absorbed
into the field (so "W0" + numeral(week < 10) and "W" + numeral(week >= 10) are both "W" + 2-digit field).

Regular expressions are the real patterns (the pattern string comes out of the real source, parsed by the standard
library's own parser) matched by Brzozowski derivatives; a k-digit field is enumerated over its 10^k digit strings and the
values are grouped by the derivative they lead to."""
from __future__ import annotations

import z3

from . import smt
from . import builtins_ as B
from .strings import Dec
from .values import Builtin, EnumMember, FmtStr, ListVal, Opaque, Sym, TupleVal, Unsupported


class NFmt(FmtStr):
    """normalised format string (parts = segments)"""
    __slots__ = ()


_DIGITS = "0123456789"


def _digits_of(ctx, e):
    """k such that the hypotheses give 10^(k-1) <= e < 10^k (k = 1: 0 <= e < 10); None if e >= 0 only; Unsupported otherwise"""
    e = smt.simp(e)
    if z3.is_int_value(e):
        v = e.as_long()
        if v < 0:
            raise Unsupported("numeral of a negative number")
        return len(str(v))
    cache = ctx.ghost.setdefault("digits_cache", {})
    if e.get_id() in cache:                       # established earlier on this path: hypotheses only grow
        return cache[e.get_id()]
    key = (e.get_id(), len(ctx.hyps()))
    if key in cache:
        return cache[key]
    hyps = ctx.hyps()
    # one model tells which digit count to try
    s0 = z3.Solver()
    s0.set("timeout", 1500)
    for h in hyps:
        s0.add(h)
    ks = list(range(1, 6))
    if s0.check() == z3.sat:
        v0 = s0.model().eval(e, model_completion=True)
        if z3.is_int_value(v0) and v0.as_long() >= 0:
            k0 = len(str(v0.as_long()))
            ks = [k0] if k0 <= 5 else []
    res = "unsupported"
    for k in ks:
        lo = 0 if k == 1 else 10 ** (k - 1)
        v, _, _, _ = smt.prove(hyps, z3.And(e >= lo, e < 10 ** k), timeout_ms=2000)
        if v == "proved":
            res = k
            break
    if res == "unsupported":
        v, _, _, _ = smt.prove(hyps, e >= 0, timeout_ms=2000)
        if v == "proved":
            res = None
    cache[key] = res
    if res == "unsupported":
        raise Unsupported(f"numeral of {e}: sign / number of digits not determined by the path condition at {ctx.where}")
    if res is not None:
        cache[e.get_id()] = res
    return res


def norm(I, ctx, s):
    """normalise a str / FmtStr into NFmt"""
    if isinstance(s, NFmt):
        return s
    s = B.enum_str(s)
    if isinstance(s, str):
        return NFmt(list(s))
    from .values import IsoStr
    if isinstance(s, IsoStr):
        if s.y is None:
            raise Unsupported("ISO date string known by its key only")
        ctx.assumed_ext.add("date.isoformat(): YYYY-MM-DD with zero padding (years 1000..9999: four digits)")
        return NFmt([Dec(B._z(s.y), 4), "-", Dec(B._z(s.m), 2), "-", Dec(B._z(s.d), 2)])
    if not isinstance(s, FmtStr):
        raise Unsupported(f"not a string: {s!r}")
    segs = []
    for p in s.parts:
        p = B.enum_str(p) if not isinstance(p, (Dec, tuple)) else p
        if isinstance(p, NFmt):
            segs.extend(p.parts)
        elif isinstance(p, FmtStr):
            segs.extend(norm(I, ctx, p).parts)
        elif isinstance(p, str):
            segs.extend(p)
        elif isinstance(p, bool):
            segs.extend(str(p))
        elif isinstance(p, int):
            segs.extend(str(p))
        elif isinstance(p, Dec) or (isinstance(p, tuple) and p and p[0] == "str" and isinstance(p[1], Sym) and p[1].kind == "int") or \
                (isinstance(p, Sym) and p.kind == "int"):
            if isinstance(p, Dec):
                e, w = p.e, p.width
            else:
                e, w = (p[1].e if isinstance(p, tuple) else p.e), None
            e = smt.simp(e)
            if z3.is_int_value(e) and e.as_long() >= 0:
                txt = str(e.as_long())
                segs.extend(txt.rjust(w, "0") if w else txt)
                continue
            if w is not None:
                v, _, _, _ = smt.prove(ctx.hyps(), z3.And(e >= 0, e < 10 ** w), timeout_ms=2000)
                if v != "proved":
                    raise Unsupported(f"padded numeral of {e}: not known to be within 0..{10 ** w - 1} at {ctx.where}")
                k = w
            else:
                k = _digits_of(ctx, e)
            segs.append(Dec(e, k))
        elif isinstance(p, tuple) and p and p[0] == "str":
            inner = p[1]
            if isinstance(inner, (str, FmtStr)) or isinstance(B.enum_str(inner), str):
                segs.extend(norm(I, ctx, B.enum_str(inner)).parts)
            else:
                raise Unsupported(f"text of {inner!r} inside a string at {ctx.where}")
        else:
            raise Unsupported(f"string part {p!r} at {ctx.where}")
    # absorb literal zeros standing directly before a field of known width
    out = []
    for sg in segs:
        if isinstance(sg, Dec) and sg.width is not None:
            z = 0
            while out and out[-1] == "0":
                out.pop()
                z += 1
            out.append(Dec(sg.e, sg.width + z) if z else sg)
        else:
            out.append(sg)
    return NFmt(out)


def concrete(n):
    return "".join(n.parts) if all(isinstance(x, str) for x in n.parts) else None


def _back(n):
    c = concrete(n)
    return c if c is not None else n


# ---------------------------------------------------------------------------------------------------------------
# equality, length, int()
# ---------------------------------------------------------------------------------------------------------------
def fmt_eq(I, ctx, a, b):
    try:
        x, y = norm(I, ctx, a).parts, norm(I, ctx, b).parts
    except Unsupported:
        if isinstance(b, (str, FmtStr)) and isinstance(a, (str, FmtStr)):
            raise
        return False
    conds = []
    i = j = 0
    while i < len(x) and j < len(y):
        p, q = x[i], y[j]
        if isinstance(p, str) and isinstance(q, str):
            if p != q:
                return False
            i, j = i + 1, j + 1
            continue
        if isinstance(q, Dec) and not isinstance(p, Dec):
            x, y, i, j, p, q = y, x, j, i, q, p
        # p is a field
        if p.width is None and isinstance(q, Dec) and q.width is not None and not (i == len(x) - 1 and j == len(y) - 1):
            # an unpadded numeral of unknown length against a k-digit field: equal texts need equal values, and then the
            # unpadded numeral has k digits exactly when the value has no leading zero in k digits
            conds.append(p.e == q.e)
            if q.width > 1:
                conds.append(q.e >= 10 ** (q.width - 1))
            i, j = i + 1, j + 1
            continue
        if p.width is None:
            rest = y[j:]
            if len(rest) == 1 and isinstance(rest[0], Dec):
                r = rest[0]
                conds.append(p.e == r.e)
                if r.width is not None and r.width > 1:
                    conds.append(r.e >= 10 ** (r.width - 1))      # an unpadded numeral has no leading zero
                return _conj(conds)
            if all(isinstance(c, str) for c in rest):
                txt = "".join(rest)
                if not txt or not all(c in _DIGITS for c in txt) or (len(txt) > 1 and txt[0] == "0"):
                    return False
                conds.append(p.e == int(txt))
                return _conj(conds)
            raise Unsupported("comparison of an unpadded numeral with a mixed rest")
        k = p.width
        if isinstance(q, Dec):
            if q.width == k:
                conds.append(p.e == q.e)
                i, j = i + 1, j + 1
                continue
            if q.width is None:
                conds.append(p.e == q.e)
                if k > 1:
                    conds.append(p.e >= 10 ** (k - 1))
                i, j = i + 1, j + 1
                continue
            raise Unsupported(f"comparison of numerals of different widths at the same place: {x!r} / {y!r}")
        chunk = y[j:j + k]
        if len(chunk) < k or not all(isinstance(c, str) for c in chunk):
            if len(chunk) < k and all(isinstance(c, str) for c in chunk):
                return False
            raise Unsupported("comparison of a numeral with a mixed span")
        txt = "".join(chunk)
        if not all(c in _DIGITS for c in txt):
            return False
        conds.append(p.e == int(txt))
        i, j = i + 1, j + k
    if i < len(x) or j < len(y):
        return False
    return _conj(conds)


def _conj(conds):
    if not conds:
        return True
    f = smt.simp(z3.And(*conds))
    return True if z3.is_true(f) else False if z3.is_false(f) else f


def fmt_len(I, ctx, s):
    n = norm(I, ctx, s)
    total = 0
    for sg in n.parts:
        if isinstance(sg, str):
            total += 1
        elif sg.width is None:
            raise Unsupported("len() of a string ending in a numeral of unknown length")
        else:
            total += sg.width
    return total


def parse_int(I, ctx, v):
    n = norm(I, ctx, v)
    c = concrete(n)
    if c is not None:
        try:
            return int(c)
        except ValueError:
            raise I.raise_exc("ValueError")
    if len(n.parts) == 1 and isinstance(n.parts[0], Dec):
        return B.wrap(n.parts[0].e)
    if any(isinstance(sg, str) and sg not in _DIGITS + " _+-" for sg in n.parts):
        raise I.raise_exc("ValueError")
    raise Unsupported(f"int() of {v!r}")


# ---------------------------------------------------------------------------------------------------------------
# str methods
# ---------------------------------------------------------------------------------------------------------------
def _split(n, sep, maxsplit=-1, from_right=False):
    if not isinstance(sep, str) or not sep or any(c in _DIGITS for c in sep):
        raise Unsupported(f"split on {sep!r}")
    segs = n.parts
    if from_right:
        raise Unsupported("rsplit of a format string")
    out, cur, i, done = [], [], 0, 0
    L = len(sep)
    while i < len(segs):
        window = segs[i:i + L]
        if (maxsplit < 0 or done < maxsplit) and len(window) == L and all(isinstance(c, str) for c in window) and "".join(window) == sep:
            out.append(NFmt(cur))
            cur = []
            i += L
            done += 1
        else:
            cur.append(segs[i])
            i += 1
    out.append(NFmt(cur))
    return ListVal([_back(x) for x in out])


def _positions(n):
    """expand a normalised string to one entry per character position: a literal char, or (field term, width, digit index)"""
    out = []
    for sg in n.parts:
        if isinstance(sg, str):
            out.append(sg)
        elif sg.width is None:
            out.append(None)           # unknown extent from here on
            break
        else:
            out.extend((sg.e, sg.width, d) for d in range(sg.width))
    return out


def _digit(e, width, d):
    return (e / (10 ** (width - 1 - d))) % 10


def contains(I, ctx, s, x):
    """x in s for a concrete needle: some alignment where every needle character equals the character at that position (a digit
    of a field is the corresponding decimal digit of its value)"""
    x = B.enum_str(x)
    if not isinstance(x, str):
        raise Unsupported(f"{x!r} in a format string")
    n = norm(I, ctx, s)
    if not any(c in _DIGITS for c in x):
        runs = "".join(c if isinstance(c, str) else "\x00" for c in n.parts)
        return x in runs
    pos = _positions(n)
    if None in pos:
        raise Unsupported("substring test on a string ending in a numeral of unknown length")
    alts = []
    for start in range(0, len(pos) - len(x) + 1):
        conds, ok = [], True
        for off, ch in enumerate(x):
            p = pos[start + off]
            if isinstance(p, str):
                if p != ch:
                    ok = False
                    break
            else:
                if ch not in _DIGITS:
                    ok = False
                    break
                conds.append(_digit(p[0], p[1], p[2]) == int(ch))
        if ok:
            alts.append(z3.And(*conds) if conds else z3.BoolVal(True))
    if not alts:
        return False
    f = smt.simp(z3.Or(*alts))
    return True if z3.is_true(f) else False if z3.is_false(f) else Sym(f)


def slice_(I, ctx, s, lo, hi):
    """s[lo:hi] with concrete bounds falling on segment boundaries"""
    n = norm(I, ctx, s)
    pos = _positions(n)
    if None in pos:
        total = None
    else:
        total = len(pos)
    lo = 0 if lo is None else lo
    if lo < 0 or (hi is not None and hi < 0):
        if total is None:
            raise Unsupported("negative slice bound on a string of unknown length")
        lo = max(total + lo, 0) if lo < 0 else lo
        hi = max(total + hi, 0) if hi is not None and hi < 0 else hi
    out, at = [], 0
    for sg in n.parts:
        w = 1 if isinstance(sg, str) else sg.width
        if w is None:
            if hi is None and at >= lo:
                out.append(sg)
                break
            raise Unsupported("slice through a numeral of unknown length")
        a, b = at, at + w
        if b <= lo or (hi is not None and a >= hi):
            at = b
            continue
        if a >= lo and (hi is None or b <= hi):
            out.append(sg)
        else:
            # part of a field: its digits as a narrower field
            d0, d1 = max(lo, a) - a, (min(hi, b) if hi is not None else b) - a
            k = d1 - d0
            out.append(Dec((sg.e / (10 ** (w - d1))) % (10 ** k), k))
        at = b
    return _back(NFmt(out))


def str_method(I, ctx, s, name):
    def B_(fn):
        return Builtin("str." + name, fn)
    from .values import IsoStr
    if isinstance(s, IsoStr):
        s = norm(I, ctx, s)
    if not isinstance(s, FmtStr):
        return None
    if name in ("split", "rsplit"):
        return B_(lambda ctx2, sep=None, maxsplit=-1: _split(norm(I, ctx2, s), B.enum_str(sep), maxsplit, name == "rsplit"))
    if name in ("lower", "upper"):
        return B_(lambda ctx2: _back(NFmt([getattr(c, name)() if isinstance(c, str) else c for c in norm(I, ctx2, s).parts])))
    if name == "__contains__":
        return B_(lambda ctx2, x: contains(I, ctx2, s, x))
    if name == "__eq__":
        return B_(lambda ctx2, x: B.eq_formula(I, ctx2, s, x))
    if name == "__len__":
        return B_(lambda ctx2: fmt_len(I, ctx2, s))
    if name in ("startswith", "endswith"):
        def sw(ctx2, p):
            p = B.enum_str(p)
            if not isinstance(p, str) or any(c in _DIGITS for c in p):
                raise Unsupported(f"{name}({p!r}) on a format string")
            segs = norm(I, ctx2, s).parts
            part = segs[:len(p)] if name == "startswith" else segs[len(segs) - len(p):]
            if len(part) < len(p):
                return False
            if any(isinstance(c, Dec) for c in part):
                return False          # a digit where a non-digit is asked for
            return "".join(part) == p
        return B_(sw)
    if name == "__hash__":
        raise Unsupported("hash of a format string")
    return None


# ---------------------------------------------------------------------------------------------------------------
# regular expressions by derivatives
# ---------------------------------------------------------------------------------------------------------------
EMPTY, EPS = ("empty",), ("eps",)
ALPHABET = frozenset(chr(c) for c in range(32, 127))


def _cat(a, b):
    if a == EMPTY or b == EMPTY:
        return EMPTY
    if a == EPS:
        return b
    if b == EPS:
        return a
    return ("cat", a, b)


def _alt(a, b):
    if a == EMPTY:
        return b
    if b == EMPTY:
        return a
    if a == b:
        return a
    items = set()
    for x in (a, b):
        if x[0] == "alt":
            items |= set(x[1])
        else:
            items.add(x)
    return ("alt", frozenset(items)) if len(items) > 1 else next(iter(items))


def _star(a):
    if a in (EMPTY, EPS):
        return EPS
    if a[0] == "star":
        return a
    return ("star", a)


_NULL = {}


def nullable(r):
    if r in _NULL:
        return _NULL[r]
    t = r[0]
    v = (t == "eps" or t == "star" or (t == "cat" and nullable(r[1]) and nullable(r[2])) or (t == "alt" and any(nullable(x) for x in r[1])))
    _NULL[r] = v
    return v


_DERIV = {}


def deriv(r, c):
    key = (r, c)
    if key in _DERIV:
        return _DERIV[key]
    t = r[0]
    if t in ("empty", "eps"):
        v = EMPTY
    elif t == "set":
        v = EPS if c in r[1] else EMPTY
    elif t == "cat":
        v = _cat(deriv(r[1], c), r[2])
        if nullable(r[1]):
            v = _alt(v, deriv(r[2], c))
    elif t == "alt":
        v = EMPTY
        for x in r[1]:
            v = _alt(v, deriv(x, c))
    elif t == "star":
        v = _cat(deriv(r[1], c), r)
    else:
        raise Unsupported(f"regex node {t}")
    _DERIV[key] = v
    return v


def _convert(pattern):
    """(regex, anchored_at_end) from the standard library's parse of the pattern"""
    try:
        import re._parser as sre_parse
        import re._constants as C
    except ImportError:       # python < 3.11
        import sre_parse
        import sre_constants as C

    def charset(items):
        s, neg = set(), False
        for op, av in items:
            if op == C.NEGATE:
                neg = True
            elif op == C.LITERAL:
                s.add(chr(av))
            elif op == C.RANGE:
                s |= {chr(x) for x in range(av[0], av[1] + 1)}
            elif op == C.CATEGORY and av == C.CATEGORY_DIGIT:
                s |= set(_DIGITS)
            elif op == C.CATEGORY and av == C.CATEGORY_WORD:
                s |= {c for c in ALPHABET if c.isalnum() or c == "_"}
            elif op == C.CATEGORY and av == C.CATEGORY_SPACE:
                s |= {" "}
            else:
                raise Unsupported(f"regex class item {op} {av}")
        return ("set", frozenset(ALPHABET - s if neg else s))

    def conv(seq):
        items = list(seq)
        r = EPS
        end = False
        for idx, (op, av) in enumerate(items):
            if op == C.AT:
                if av == C.AT_BEGINNING and idx == 0:
                    continue
                if av == C.AT_END and idx == len(items) - 1:
                    end = True
                    continue
                raise Unsupported(f"regex anchor {av} inside the pattern")
            r = _cat(r, one(op, av))
        return r, end

    def one(op, av):
        if op == C.LITERAL:
            return ("set", frozenset([chr(av)]))
        if op == C.NOT_LITERAL:
            return ("set", frozenset(ALPHABET - {chr(av)}))
        if op == C.ANY:
            return ("set", ALPHABET)
        if op == C.IN:
            return charset(av)
        if op == C.SUBPATTERN:
            r, end = conv(av[3])
            if end:
                raise Unsupported("regex $ inside a group")
            return r
        if op == C.BRANCH:
            r = EMPTY
            for alt in av[1]:
                x, end = conv(alt)
                if end:
                    raise Unsupported("regex $ inside an alternative")
                r = _alt(r, x)
            return r
        if op in (C.MAX_REPEAT, C.MIN_REPEAT):
            lo, hi, sub = av
            x, end = conv(sub)
            if end:
                raise Unsupported("regex $ inside a repetition")
            r = EPS
            for _ in range(lo):
                r = _cat(r, x)
            if hi == C.MAXREPEAT:
                return _cat(r, _star(x))
            if hi - lo > 64:
                raise Unsupported("regex repetition bound too large")
            tail = EPS
            for _ in range(hi - lo):
                tail = _alt(EPS, _cat(x, tail))
            return _cat(r, tail)
        raise Unsupported(f"regex operator {op}")
    return conv(sre_parse.parse(pattern))


_CONVERTED = {}


def regex_cond(I, ctx, pattern, s, kind):
    """z3 Bool (or python bool): the string matches"""
    if pattern not in _CONVERTED:
        _CONVERTED[pattern] = _convert(pattern)
    rx, end = _CONVERTED[pattern]
    if kind == "search":
        raise Unsupported("re.search on a format string")
    if kind == "match" and not end:
        raise Unsupported("re.match without $ on a format string (prefix match)")
    ctx.assumed_ext.add("regular expressions over format strings: derivative matcher over the pattern as parsed by the standard library "
                        "(differentially tested against re on every run); '$' as end of string (no trailing newline)")
    states = {rx: z3.BoolVal(True)}
    for sg in norm(I, ctx, s).parts:
        new = {}
        if isinstance(sg, str):
            for r, cond in states.items():
                d = deriv(r, sg)
                if d != EMPTY:
                    new[d] = z3.Or(new[d], cond) if d in new else cond
        else:
            if sg.width is None or sg.width > 4:
                raise Unsupported("regex over a numeral of unknown or large width")
            k = sg.width
            for r, cond in states.items():
                groups = {}
                for v in range(10 ** k):
                    d = r
                    for ch in str(v).rjust(k, "0"):
                        d = deriv(d, ch)
                        if d == EMPTY:
                            break
                    if d != EMPTY:
                        groups.setdefault(d, []).append(v)
                for d, vals in groups.items():
                    c2 = z3.And(cond, _in_ranges(sg.e, vals))
                    new[d] = z3.Or(new[d], c2) if d in new else c2
        states = new
        if not states:
            return False
    acc = [cond for r, cond in states.items() if nullable(r)]
    if not acc:
        return False
    f = smt.simp(z3.Or(*acc))
    return True if z3.is_true(f) else False if z3.is_false(f) else f


def _in_ranges(e, vals):
    rs, lo, prev = [], None, None
    for v in vals:
        if lo is None:
            lo = prev = v
        elif v == prev + 1:
            prev = v
        else:
            rs.append((lo, prev))
            lo = prev = v
    rs.append((lo, prev))
    return z3.Or(*[z3.And(e >= a, e <= b) if a != b else e == a for a, b in rs])


def regex_match(I, ctx, pattern, s, kind):
    c = regex_cond(I, ctx, pattern, s, "match" if kind == "match" else kind)
    m = Opaque(None, "re.Match", {"truth": lambda ctx2: True})
    if c is True:
        return m
    if c is False:
        return None
    return B.OptVal(smt.simp(z3.Not(c)), m)


def match_concrete(pattern, text):
    """the derivative matcher on a concrete string (for the differential validation against re)"""
    if pattern not in _CONVERTED:
        _CONVERTED[pattern] = _convert(pattern)
    rx, end = _CONVERTED[pattern]
    if not end:
        raise Unsupported("pattern without $")
    r = rx
    for ch in text:
        if ch not in ALPHABET:
            return False
        r = deriv(r, ch)
        if r == EMPTY:
            return False
    return nullable(r)
