"""Core python operations on the value domains: truth, arithmetic, comparison, attributes, items."""
from __future__ import annotations

import ast
from fractions import Fraction

import z3

from . import smt
from .values import (MapVal, NOT_IMPLEMENTED, BoundMethod, Builtin, CachedFunc, ClassMethodVal, ClassVal, DictVal,
                     DispatchVal, EnumMember, ExcVal, FmtStr, FuncVal, IsoStr, ListVal, ModuleVal, Obj, Opaque,
                     PropertyVal, PyvcError, SeqVal, SetVal, StaticMethodVal, Sym, SymList, TupleVal, Unsupported)

_MISSING = None


def install(I):
    global _MISSING
    from .interp import _MISSING as M
    _MISSING = M
    from . import pybuiltins
    pybuiltins.install(I)


# ----------------------------------------------------------------------
# helpers on scalars
# ----------------------------------------------------------------------
def is_num(v):
    return isinstance(v, (int, float, Fraction)) and not isinstance(v, bool) or isinstance(v, bool) or (isinstance(v, Sym) and v.kind in ("int", "real", "bool"))


def zint(v):
    """z3 Int expr for an int-like value."""
    if isinstance(v, z3.ExprRef):
        return v
    if isinstance(v, bool):
        return z3.IntVal(int(v))
    if isinstance(v, int):
        return z3.IntVal(v)
    if isinstance(v, Sym):
        if v.kind == "int":
            return v.e
        if v.kind == "bool":
            return z3.If(v.e, z3.IntVal(1), z3.IntVal(0))
    raise Unsupported(f"not an int: {v!r}")


_UNSPEC = [0]


def zreal(v):
    from . import nparr as _np
    if isinstance(v, _np.MaybeInf):
        _UNSPEC[0] += 1
        return z3.If(v.isinf, z3.Real("unspecified_inf_%d" % _UNSPEC[0]), zreal(v.val))
    if isinstance(v, z3.ExprRef):
        return z3.ToReal(v) if v.sort() == z3.IntSort() else v
    if isinstance(v, bool):
        return z3.RealVal(int(v))
    if isinstance(v, int):
        return z3.RealVal(v)
    if isinstance(v, float):
        fr = Fraction(repr(v)) if v == v and v not in (float("inf"), float("-inf")) else None
        if fr is None:
            raise Unsupported("non-finite float constant")
        return z3.RealVal(str(fr))
    if isinstance(v, Fraction):
        return z3.RealVal(str(v))
    if isinstance(v, Sym):
        if v.kind == "real":
            return v.e
        if v.kind == "int":
            return z3.ToReal(v.e)
        if v.kind == "bool":
            return z3.If(v.e, z3.RealVal(1), z3.RealVal(0))
    raise Unsupported(f"not a real: {v!r}")


def zbool(v):
    if isinstance(v, z3.ExprRef):
        return v
    if isinstance(v, bool):
        return z3.BoolVal(v)
    if isinstance(v, Sym):
        if v.kind == "bool":
            return v.e
        if v.kind == "int":
            return v.e != 0
        if v.kind == "real":
            return v.e != 0
    if v is None:
        return z3.BoolVal(False)
    if isinstance(v, (int, float)):
        return z3.BoolVal(bool(v))
    raise Unsupported(f"not a bool: {v!r}")


def is_real_like(v):
    return isinstance(v, (float, Fraction)) or (isinstance(v, Sym) and v.kind == "real")


def wrap(e):
    """z3 expr -> value (concrete python when the expression is a literal)."""
    e = smt.simp(e)
    if z3.is_int_value(e):
        return e.as_long()
    if z3.is_true(e):
        return True
    if z3.is_false(e):
        return False
    return Sym(e)


def enum_str(v):
    if isinstance(v, EnumMember) and isinstance(v.value, str):
        return v.value
    return v


# ----------------------------------------------------------------------
# truth
# ----------------------------------------------------------------------
def truth(I, ctx, v):
    if v is None or isinstance(v, (bool, int, float, str)):
        return bool(v)
    if isinstance(v, Sym):
        return ctx.branch(zbool(v))
    if isinstance(v, TupleVal):
        return len(v.items) > 0
    if isinstance(v, ListVal):
        return len(v.items) > 0
    if isinstance(v, (DictVal, SetVal)):
        return len(v.items) > 0
    if isinstance(v, SymList):
        return ctx.branch(v.seq.length > 0) if not isinstance(v.seq.length, int) else v.seq.length > 0
    if isinstance(v, SeqVal):
        return ctx.branch(v.length > 0) if not isinstance(v.length, int) else v.length > 0
    if isinstance(v, EnumMember):
        m, _ = v.cls.lookup("__bool__")
        if isinstance(v.value, str) and v.cls.ns.get("__strenum__"):
            return bool(v.value)
        return True
    if isinstance(v, Obj):
        m, _ = v.cls.lookup("__bool__")
        if m is not None:
            return truth(I, ctx, I.call(ctx, m, [v], {}))
        m, _ = v.cls.lookup("__len__")
        if m is not None:
            return truth(I, ctx, I.call(ctx, m, [v], {}))
        return True
    if isinstance(v, (ClassVal, FuncVal, Builtin, BoundMethod, ModuleVal, DispatchVal, CachedFunc)):
        return True
    if isinstance(v, (FmtStr, IsoStr)):
        return True
    if isinstance(v, OptVal):
        if ctx.branch(v.is_none):
            return False
        return truth(I, ctx, v.val)
    if isinstance(v, MapVal):
        raise Unsupported(f"truth value of a symbolic map at {ctx.where}")
    if isinstance(v, Opaque):
        t = v.attrs.get("truth")
        if t is not None:
            return truth(I, ctx, t(ctx))
        raise Unsupported(f"truth value of opaque {v!r} at {ctx.where}")
    raise Unsupported(f"truth of {v!r} at {ctx.where}")


# ----------------------------------------------------------------------
# arithmetic
# ----------------------------------------------------------------------
def binop(I, ctx, op, a, b):
    from . import nparr
    if isinstance(a, nparr.NArr2) or isinstance(b, nparr.NArr2):
        if isinstance(a, nparr.NArr) or isinstance(b, nparr.NArr):
            raise Unsupported("broadcasting a vector against a matrix")
        return nparr.lift2(lambda x, y: binop(I, ctx, op, x, y), a, b)
    if isinstance(a, nparr.NArr) or isinstance(b, nparr.NArr):
        return nparr.arr_binop(I, ctx, op, a, b)
    if isinstance(a, nparr.MaybeInf) or isinstance(b, nparr.MaybeInf):
        # where the operand is infinite the result is left unspecified (a later read of it is an unknown real)
        ca = a.isinf if isinstance(a, nparr.MaybeInf) else z3.BoolVal(False)
        cb = b.isinf if isinstance(b, nparr.MaybeInf) else z3.BoolVal(False)
        va = a.val if isinstance(a, nparr.MaybeInf) else a
        vb = b.val if isinstance(b, nparr.MaybeInf) else b
        return nparr.MaybeInf(smt.simp(z3.Or(ca, cb)), binop(I, ctx, op, va, vb))
    if isinstance(a, nparr.Inf) or isinstance(b, nparr.Inf):
        raise Unsupported(f"arithmetic on +inf outside numpy.minimum at {ctx.where}")
    # user-defined / array operators first
    for x, y, refl in ((a, b, False), (b, a, True)):
        if isinstance(x, Opaque) and x.attrs.get("binop"):
            r = x.attrs["binop"](ctx, op, a, b)
            if r is not NOT_IMPLEMENTED:
                return r
        if isinstance(x, Obj):
            name = _OPNAMES.get(type(op))
            if name:
                m, _ = x.cls.lookup(("__r" if refl else "__") + name + "__")
                if m is not None:
                    r = I.call(ctx, m, [x, y], {})
                    if r is not NOT_IMPLEMENTED:
                        return r
    a = enum_str(a)
    b = enum_str(b)
    if isinstance(op, ast.Add):
        if isinstance(a, str) and isinstance(b, str):
            return a + b
        if isinstance(a, (str, FmtStr)) and isinstance(b, (str, FmtStr)):
            pa = a.parts if isinstance(a, FmtStr) else [a]
            pb = b.parts if isinstance(b, FmtStr) else [b]
            return FmtStr(list(pa) + list(pb))
        if isinstance(a, TupleVal) and isinstance(b, TupleVal):
            return TupleVal(a.items + b.items)
        if isinstance(a, ListVal) and isinstance(b, ListVal):
            return ListVal(a.items + b.items)
        if isinstance(a, (ListVal, SymList)) and isinstance(b, (ListVal, SymList)):
            sa, sb = I.as_seq(ctx, a), I.as_seq(ctx, b)
            return SymList(seq_concat(sa, sb))
    if isinstance(op, ast.Mult):
        if isinstance(a, ListVal) and isinstance(b, int):
            return ListVal(a.items * b)
        if isinstance(a, ListVal) and len(a.items) == 1 and isinstance(b, Sym) and b.kind == "int":
            # [x] * n for a symbolic n: n references to x (none for n <= 0)
            n = smt.simp(z3.If(b.e > 0, b.e, 0))
            return SymList(SeqVal(n, lambda i, x=a.items[0]: x, "repeat"))
        if isinstance(a, str) and isinstance(b, int):
            return a * b
    if isinstance(op, ast.Mod) and isinstance(a, str):
        return FmtStr([a, b])
    if isinstance(op, ast.BitOr) and (isinstance(a, ClassVal) or isinstance(b, ClassVal) or a is None or b is None):
        return TupleVal([a, b])  # typing unions
    if isinstance(op, (ast.BitOr, ast.BitAnd)) and isinstance(a, SetVal) and isinstance(b, SetVal):
        s = SetVal()
        if isinstance(op, ast.BitOr):
            s.items.update(a.items)
            s.items.update(b.items)
        else:
            for k, v in a.items.items():
                if k in b.items:
                    s.items[k] = v
        return s
    if isinstance(op, ast.Sub) and isinstance(a, SetVal) and isinstance(b, SetVal):
        s = SetVal()
        for k, v in a.items.items():
            if k not in b.items:
                s.items[k] = v
        return s
    if not (is_num(a) and is_num(b)):
        raise Unsupported(f"binop {op.__class__.__name__} on {a!r}, {b!r} at {ctx.where}")
    conc = not isinstance(a, Sym) and not isinstance(b, Sym)
    if conc:
        return _concrete_binop(I, ctx, op, a, b)
    if isinstance(op, (ast.BitAnd, ast.BitOr, ast.BitXor)):
        if _boolish(a) and _boolish(b):
            x, y = zbool(a), zbool(b)
            return wrap({ast.BitAnd: z3.And, ast.BitOr: z3.Or, ast.BitXor: z3.Xor}[type(op)](x, y))
        raise Unsupported(f"bit op on symbolic ints at {ctx.where}")
    real = is_real_like(a) or is_real_like(b) or isinstance(op, ast.Div)
    if real:
        x, y = zreal(a), zreal(b)
        if isinstance(op, ast.Add):
            return wrap(x + y)
        if isinstance(op, ast.Sub):
            return wrap(x - y)
        if isinstance(op, ast.Mult):
            return wrap(x * y)
        if isinstance(op, ast.Div):
            if not (isinstance(b, (int, float)) and b != 0):
                if ctx.branch(y == 0):
                    raise I.raise_exc("ZeroDivisionError")
            return wrap(x / y)
        raise Unsupported(f"real op {op.__class__.__name__} at {ctx.where}")
    x, y = zint(a), zint(b)
    if isinstance(op, ast.Add):
        return wrap(x + y)
    if isinstance(op, ast.Sub):
        return wrap(x - y)
    if isinstance(op, ast.Mult):
        return wrap(x * y)
    if isinstance(op, (ast.FloorDiv, ast.Mod)):
        if isinstance(b, int) and b > 0:
            return wrap(x / y if isinstance(op, ast.FloorDiv) else x % y)
        if isinstance(b, int) and b < 0:
            # python floor semantics with negative constant divisor
            q = -((-x) / z3.IntVal(-b)) if False else None
            raise Unsupported(f"negative constant divisor at {ctx.where}")
        if ctx.branch(y == 0):
            raise I.raise_exc("ZeroDivisionError")
        if not ctx.branch(y > 0):
            raise Unsupported(f"floor division by possibly negative symbolic divisor at {ctx.where}")
        return wrap(x / y if isinstance(op, ast.FloorDiv) else x % y)
    if isinstance(op, ast.Pow) and isinstance(b, int) and b >= 0:
        r = z3.IntVal(1)
        for _ in range(b):
            r = r * x
        return wrap(r)
    raise Unsupported(f"int op {op.__class__.__name__} at {ctx.where}")


_OPNAMES = {ast.Add: "add", ast.Sub: "sub", ast.Mult: "mul", ast.Div: "truediv", ast.FloorDiv: "floordiv",
            ast.Mod: "mod", ast.BitAnd: "and", ast.BitOr: "or", ast.Pow: "pow"}


def _boolish(v):
    return isinstance(v, bool) or (isinstance(v, Sym) and v.kind == "bool")


def _concrete_binop(I, ctx, op, a, b):
    try:
        if isinstance(op, ast.Add):
            return a + b
        if isinstance(op, ast.Sub):
            return a - b
        if isinstance(op, ast.Mult):
            return a * b
        if isinstance(op, ast.Div):
            # floats are reals: keep exact rationals
            if isinstance(a, int) and isinstance(b, int) and not isinstance(a, bool):
                fr = Fraction(a, b)
                return fr.numerator if fr.denominator == 1 and False else (Sym(z3.RealVal(str(fr))))
            return Sym(smt.simp(zreal(a) / zreal(b)))
        if isinstance(op, ast.FloorDiv):
            return a // b
        if isinstance(op, ast.Mod):
            return a % b
        if isinstance(op, ast.Pow):
            return a ** b
        if isinstance(op, ast.BitAnd):
            return a & b
        if isinstance(op, ast.BitOr):
            return a | b
        if isinstance(op, ast.BitXor):
            return a ^ b
        if isinstance(op, ast.LShift):
            return a << b
        if isinstance(op, ast.RShift):
            return a >> b
    except ZeroDivisionError:
        raise I.raise_exc("ZeroDivisionError")
    raise Unsupported(f"concrete op {op.__class__.__name__}")


def inplace_op(I, ctx, op, cur, rhs):
    from . import nparr
    if isinstance(cur, nparr.NArr):
        # in-place: the array object keeps its identity, aliases see the new content
        new = nparr.arr_binop(I, ctx, op, nparr.NArr(cur.n, cur.elem, cur.dtype), rhs)
        cur.elem = new.elem
        return cur
    if isinstance(op, ast.Add) and isinstance(cur, ListVal):
        cur.items.extend(I.iterate(ctx, rhs))
        return cur
    if isinstance(cur, Opaque) and cur.attrs.get("inplace"):
        return cur.attrs["inplace"](ctx, op, cur, rhs)
    return _MISSING


def invert(I, ctx, v):
    from . import nparr
    if isinstance(v, nparr.NArr):
        return nparr.NArr(v.n, lambda i: wrap(z3.Not(zbool(v.elem(i)))), "bool", "~")
    if isinstance(v, Opaque) and v.attrs.get("invert"):
        return v.attrs["invert"](ctx)
    if isinstance(v, int):
        return ~v
    raise Unsupported(f"~ on {v!r}")


def seq_concat(a, b):
    la, lb = a.length, b.length
    if isinstance(la, int) and la == 0:
        return b
    if isinstance(lb, int) and lb == 0:
        return a

    def elem(i):
        if isinstance(la, int) and isinstance(i, int):
            return a.elem(i) if i < la else b.elem(i - la)
        return ite_val(i < la, lambda: a.elem(i), lambda: b.elem(i - la))
    return SeqVal(la + lb, elem, tag="concat")


def ite_val(cond, fa, fb):
    """Value-level if-then-else with lazily built branches."""
    if isinstance(cond, bool):
        return fa() if cond else fb()
    cond = smt.simp(cond)
    if z3.is_true(cond):
        return fa()
    if z3.is_false(cond):
        return fb()
    a, b = fa(), fb()
    return merge_vals(cond, a, b)


def merge_vals(cond, a, b):
    if a is b:
        return a
    from . import nparr as _np
    def _ext(v):
        if isinstance(v, _np.Inf):
            return (z3.BoolVal(v.positive), z3.BoolVal(not v.positive), None)
        if isinstance(v, _np.MaybeInf):
            return (v.isinf, v.isneg, v.val)
        return (z3.BoolVal(False), z3.BoolVal(False), v)
    if isinstance(a, (_np.Inf, _np.MaybeInf)) or isinstance(b, (_np.Inf, _np.MaybeInf)):
        pa, na, va = _ext(a)
        pb, nb_, vb = _ext(b)
        val = va if vb is None else vb if va is None else merge_vals(cond, va, vb)
        return _np.MaybeInf(smt.simp(z3.If(cond, pa, pb)), val, smt.simp(z3.If(cond, na, nb_)))
    if isinstance(a, _np.NArr) and isinstance(b, _np.NArr) and type(a) is _np.NArr and type(b) is _np.NArr:
        # read-only merged view of two arrays (identity is not preserved)
        n = smt.simp(z3.If(cond, _z(a.n), _z(b.n)))
        return _np.NArr(n, lambda i, a=a, b=b: merge_vals(cond, a.elem(i), b.elem(i)), a.dtype, "ite")
    if isinstance(a, (Sym, int, float, bool)) and isinstance(b, (Sym, int, float, bool)):
        if _boolish(a) and _boolish(b):
            return wrap(z3.If(cond, zbool(a), zbool(b)))
        if is_real_like(a) or is_real_like(b):
            return wrap(z3.If(cond, zreal(a), zreal(b)))
        return wrap(z3.If(cond, zint(a), zint(b)))
    if isinstance(a, TupleVal) and isinstance(b, TupleVal) and len(a.items) == len(b.items) and a.cls is b.cls:
        return TupleVal([merge_vals(cond, x, y) for x, y in zip(a.items, b.items)], a.cls)
    if isinstance(a, IsoStr) and isinstance(b, IsoStr):
        return IsoStr(key=z3.If(cond, _z(a.key), _z(b.key)))
    if isinstance(a, Opaque) and isinstance(b, Opaque) and a.e is not None and b.e is not None and a.e.sort() == b.e.sort():
        return Opaque(z3.If(cond, a.e, b.e), a.tag, a.attrs)
    if isinstance(a, (SymRec, Obj)) and isinstance(b, (SymRec, Obj)) and a.cls is b.cls:
        # read-only merged view of two records of the same class (identity is not preserved)
        fields = {}
        for k in a.fields:
            if k in b.fields:
                try:
                    fields[k] = merge_vals(cond, a.fields[k], b.fields[k])
                except Unsupported:
                    pass
        return SymRec(a.cls, fields)
    for x, y, flip in ((a, b, False), (b, a, True)):
        if x is None and isinstance(y, Opaque) and y.attrs.get("none_value") is not None:
            nv = y.attrs["none_value"]
            return merge_vals(cond, nv, y) if not flip else merge_vals(cond, y, nv)
    if isinstance(a, str) and isinstance(b, str) and a == b:
        return a
    if a is None and b is None:
        return None
    if isinstance(a, OptVal) or isinstance(b, OptVal) or a is None or b is None:
        oa, ob = OptVal.of(a), OptVal.of(b)
        return OptVal(smt.simp(z3.If(cond, oa.is_none, ob.is_none)),
                      oa.val if ob.val is None else ob.val if oa.val is None else merge_vals(cond, oa.val, ob.val))
    raise Unsupported(f"cannot merge values {a!r} / {b!r}")


def _z(k):
    if isinstance(k, Sym):
        return k.e
    return z3.IntVal(k) if isinstance(k, int) else k


class SymRec:
    """Symbolic record: an object of known class whose identity is irrelevant (element of an input
    sequence); fields are values. Read-only."""
    __slots__ = ("cls", "fields")

    def __init__(self, cls, fields):
        self.cls = cls
        self.fields = fields

    def __repr__(self):
        return f"SymRec<{self.cls.name if self.cls else '?'}>"


class Choice:
    """first-match choice among concrete alternatives: [(cond z3 Bool, value)], default (numpy.select element)"""
    __slots__ = ("alts", "default")

    def __init__(self, alts, default):
        self.alts, self.default = alts, default

    def guards(self):
        """[(effective guard, value)] incl. the default"""
        out, none_before = [], z3.BoolVal(True)
        for c, v in self.alts:
            out.append((smt.simp(z3.And(none_before, c)), v))
            none_before = z3.And(none_before, z3.Not(c))
        out.append((smt.simp(none_before), self.default))
        return out

    def __repr__(self):
        return f"Choice({len(self.alts)} alternatives)"


class OptVal:
    """Value that is None under a symbolic condition."""
    __slots__ = ("is_none", "val")

    def __init__(self, is_none, val):
        self.is_none = is_none
        self.val = val

    @staticmethod
    def of(v):
        if isinstance(v, OptVal):
            return v
        if v is None:
            return OptVal(z3.BoolVal(True), None)
        return OptVal(z3.BoolVal(False), v)

    def __repr__(self):
        return f"OptVal({self.is_none}, {self.val!r})"


def resolve_opt(I, ctx, v):
    """Split an optional value into None / value by forking."""
    if isinstance(v, OptVal):
        if ctx.branch(v.is_none):
            return None
        return v.val
    return v


# ----------------------------------------------------------------------
# comparison
# ----------------------------------------------------------------------
def eq_formula(I, ctx, a, b):
    """z3 Bool (or python bool) for a == b on data values; None if not comparable structurally."""
    a, b = enum_str(a), enum_str(b)
    for x, y in ((a, b), (b, a)):
        if isinstance(x, Choice):
            fs = []
            for g, v in x.guards():
                e = eq_formula(I, ctx, v, y)
                if e is False:
                    continue
                fs.append(g if e is True else z3.And(g, e))
            return smt.simp(smt.Or(*fs)) if fs else False
        if isinstance(x, Opaque) and x.attrs.get("eq"):
            r = x.attrs["eq"](ctx, y)
            if r is not None:
                return r
    if isinstance(a, OptVal) or isinstance(b, OptVal):
        oa, ob = OptVal.of(a), OptVal.of(b)
        if oa.val is None or ob.val is None:
            return smt.And(oa.is_none, ob.is_none) if True else None
        inner = eq_formula(I, ctx, oa.val, ob.val)
        inner = z3.BoolVal(inner) if isinstance(inner, bool) else inner
        return z3.Or(z3.And(oa.is_none, ob.is_none), z3.And(z3.Not(oa.is_none), z3.Not(ob.is_none), inner))
    for x, y in ((a, b), (b, a)):
        if isinstance(x, Opaque) and y is None and x.attrs.get("is_none"):
            return smt.simp(x.attrs["is_none"]())
    if a is None or b is None:
        return a is b
    if isinstance(a, ClassVal) and isinstance(b, ClassVal) and a is not b:
        # classes whose metaclass compares them by the hash of their name (the enumeration metaclass): equal when the names are
        from .interp import class_hashed_by_name
        if class_hashed_by_name(a) and class_hashed_by_name(b):
            return a.name == b.name
    if isinstance(a, Sym) or isinstance(b, Sym):
        if not (is_num(a) and is_num(b)):
            return False
        if _boolish(a) and _boolish(b):
            return smt.simp(zbool(a) == zbool(b))
        if is_real_like(a) or is_real_like(b):
            return smt.simp(zreal(a) == zreal(b))
        return smt.simp(zint(a) == zint(b))
    if isinstance(a, (int, float, bool)) and isinstance(b, (int, float, bool)):
        return a == b
    if isinstance(a, str) and isinstance(b, str):
        return a == b
    from . import nparr
    if isinstance(a, nparr.DType) or isinstance(b, nparr.DType):
        try:
            return nparr.dtype_tag(I, a) == nparr.dtype_tag(I, b)
        except Unsupported:
            return False
    if isinstance(a, IsoStr) and isinstance(b, IsoStr):
        return smt.simp(_z(a.key) == _z(b.key))
    if isinstance(a, (IsoStr, FmtStr)) or isinstance(b, (IsoStr, FmtStr)):
        from . import strings
        return strings.str_eq(I, ctx, a, b)
    if isinstance(a, TupleVal) and isinstance(b, TupleVal):
        if len(a.items) != len(b.items):
            return False
        parts = []
        for x, y in zip(a.items, b.items):
            f = eq_formula(I, ctx, x, y)
            if f is False:
                return False
            if f is True:
                continue
            parts.append(f)
        return smt.And(*parts) if parts else True
    if isinstance(a, ListVal) and isinstance(b, ListVal):
        return eq_formula(I, ctx, TupleVal(a.items), TupleVal(b.items))
    if isinstance(a, EnumMember) and isinstance(b, EnumMember):
        return a is b or (a.cls is b.cls and a.name == b.name)
    if isinstance(a, Opaque) and isinstance(b, Opaque) and a.e is not None and b.e is not None:
        if a.e.sort() == b.e.sort():
            return smt.simp(a.e == b.e)
        return False
    if isinstance(a, SymRec) and isinstance(b, SymRec):
        if a.cls is not b.cls:
            return False
        return smt.And(*[_zb(eq_formula(I, ctx, a.fields[k], b.fields[k])) for k in a.fields])
    if type(a) is not type(b):
        return False
    return a is b


def _zb(f):
    return z3.BoolVal(f) if isinstance(f, bool) else f


def compare(I, ctx, op, a, b):
    from . import nparr
    if isinstance(a, nparr.NArr2) or isinstance(b, nparr.NArr2):
        r = nparr.lift2(lambda x, y: builtin_compare(I, ctx, op, x, y), a, b)
        r.dtype = "bool"
        return r
    if (isinstance(a, nparr.NArr) or isinstance(b, nparr.NArr)) and isinstance(op, (ast.Eq, ast.NotEq, ast.Lt, ast.LtE, ast.Gt, ast.GtE)):
        return nparr.arr_compare(I, ctx, op, a, b)
    if isinstance(op, ast.Is):
        return is_formula(I, ctx, a, b)
    if isinstance(op, ast.IsNot):
        r = is_formula(I, ctx, a, b)
        return (not r) if isinstance(r, bool) else Sym(z3.Not(r.e))
    if isinstance(op, ast.In):
        return contains(I, ctx, b, a)
    if isinstance(op, ast.NotIn):
        r = contains(I, ctx, b, a)
        return (not r) if isinstance(r, bool) else Sym(z3.Not(zbool(r)))
    # user-defined rich comparison
    name = {ast.Eq: "__eq__", ast.NotEq: "__ne__", ast.Lt: "__lt__", ast.LtE: "__le__", ast.Gt: "__gt__",
            ast.GtE: "__ge__"}[type(op)]
    refl = {"__eq__": "__eq__", "__ne__": "__ne__", "__lt__": "__gt__", "__le__": "__ge__", "__gt__": "__lt__",
            "__ge__": "__le__"}[name]
    for x, y, nm in ((a, b, name), (b, a, refl)):
        cls = x.cls if isinstance(x, (Obj, TupleVal, SymRec)) else None
        if cls is not None:
            m, owner = cls.lookup(nm)
            if isinstance(m, (FuncVal, Builtin)) and not (isinstance(m, Builtin) and m.fn is None):
                r = I.call(ctx, m, [x, y], {})
                if r is not NOT_IMPLEMENTED:
                    return r
        if isinstance(x, Opaque) and x.attrs.get("compare"):
            r = x.attrs["compare"](ctx, op if x is a else _REFLECT[type(op)](), x, y)
            if r is not NOT_IMPLEMENTED:
                return r
    return builtin_compare(I, ctx, op, a, b)


_REFLECT = {ast.Eq: ast.Eq, ast.NotEq: ast.NotEq, ast.Lt: ast.Gt, ast.LtE: ast.GtE, ast.Gt: ast.Lt, ast.GtE: ast.LtE}


def builtin_compare(I, ctx, op, a, b):
    if isinstance(op, ast.Eq):
        f = eq_formula(I, ctx, a, b)
        return f if isinstance(f, bool) else wrap(f)
    if isinstance(op, ast.NotEq):
        f = eq_formula(I, ctx, a, b)
        return (not f) if isinstance(f, bool) else wrap(z3.Not(f))
    f = order_formula(I, ctx, op, a, b)
    return f if isinstance(f, bool) else wrap(f)


def order_formula(I, ctx, op, a, b):
    a, b = enum_str(a), enum_str(b)
    from . import nparr as _np
    if isinstance(a, _np.MaybeInf):
        a = Sym(zreal(a))
    if isinstance(b, _np.MaybeInf):
        b = Sym(zreal(b))
    if is_num(a) and is_num(b):
        if not isinstance(a, Sym) and not isinstance(b, Sym):
            return {ast.Lt: a < b, ast.LtE: a <= b, ast.Gt: a > b, ast.GtE: a >= b}[type(op)]
        if is_real_like(a) or is_real_like(b):
            x, y = zreal(a), zreal(b)
        else:
            x, y = zint(a), zint(b)
        return smt.simp({ast.Lt: x < y, ast.LtE: x <= y, ast.Gt: x > y, ast.GtE: x >= y}[type(op)])
    if isinstance(a, str) and isinstance(b, str):
        return {ast.Lt: a < b, ast.LtE: a <= b, ast.Gt: a > b, ast.GtE: a >= b}[type(op)]
    if isinstance(a, (IsoStr, str)) and isinstance(b, (IsoStr, str)):
        from . import strings
        x, y = strings.iso_key(a), strings.iso_key(b)
        return smt.simp({ast.Lt: x < y, ast.LtE: x <= y, ast.Gt: x > y, ast.GtE: x >= y}[type(op)])
    if isinstance(a, TupleVal) and isinstance(b, TupleVal):
        return lex_formula(I, ctx, op, list(a.items), list(b.items))
    if isinstance(a, ListVal) and isinstance(b, ListVal):
        return lex_formula(I, ctx, op, list(a.items), list(b.items))
    if isinstance(a, (FmtStr, str)) and isinstance(b, (FmtStr, str)):
        from . import strings
        lt = strings.fmt_lt(I, ctx, a, b) if isinstance(op, (ast.Lt, ast.GtE)) else strings.fmt_lt(I, ctx, b, a)
        # a < b | a >= b = not (a < b) | a > b = b < a | a <= b = not (b < a)
        return smt.simp(lt if isinstance(op, (ast.Lt, ast.Gt)) else z3.Not(lt))
    raise Unsupported(f"ordering {op.__class__.__name__} on {a!r}, {b!r} at {ctx.where}")


def lex_formula(I, ctx, op, xs, ys):
    strict = isinstance(op, (ast.Lt, ast.Gt))
    lt = isinstance(op, (ast.Lt, ast.LtE))
    sop = ast.Lt() if lt else ast.Gt()
    if not xs or not ys:
        if lt:
            return (len(xs) < len(ys)) if strict else (len(xs) <= len(ys))
        return (len(xs) > len(ys)) if strict else (len(xs) >= len(ys))
    x, y = xs[0], ys[0]
    e = _zb(eq_formula(I, ctx, x, y))
    if z3.is_false(smt.simp(e)):
        return _zb(order_formula(I, ctx, sop, x, y))
    rest = _zb(lex_formula(I, ctx, op, xs[1:], ys[1:]))
    if z3.is_true(smt.simp(e)):
        return rest
    s = _zb(order_formula(I, ctx, sop, x, y))
    return smt.simp(z3.Or(z3.And(z3.Not(e), s), z3.And(e, rest)))


def is_formula(I, ctx, a, b):
    for x, y in ((a, b), (b, a)):
        if isinstance(x, Opaque) and y is None and x.attrs.get("is_none"):
            return wrap(x.attrs["is_none"]())
    if isinstance(a, OptVal) and b is None:
        return wrap(a.is_none)
    if isinstance(b, OptVal) and a is None:
        return wrap(b.is_none)
    if a is None or b is None:
        return a is b
    if isinstance(a, bool) or isinstance(b, bool):
        if isinstance(a, Sym) or isinstance(b, Sym):
            f = eq_formula(I, ctx, a, b)
            return f if isinstance(f, bool) else wrap(f)
        return a is b
    if isinstance(a, (Obj, ListVal, DictVal, SetVal, SymList, ClassVal, FuncVal, ModuleVal, Builtin)) or \
            isinstance(b, (Obj, ListVal, DictVal, SetVal, SymList, ClassVal, FuncVal, ModuleVal, Builtin)):
        return a is b
    if isinstance(a, EnumMember) or isinstance(b, EnumMember):
        return isinstance(a, EnumMember) and isinstance(b, EnumMember) and a.cls is b.cls and a.name == b.name
    if isinstance(a, Opaque) and isinstance(b, Opaque):
        f = eq_formula(I, ctx, a, b)
        return f if isinstance(f, bool) else wrap(f)
    # immutable data: identity approximated by equality only when the same python object
    if a is b:
        return True
    raise Unsupported(f"'is' on data values {a!r}, {b!r} at {ctx.where}")


def contains(I, ctx, container, item):
    if isinstance(container, (TupleVal, ListVal)):
        fs = []
        for x in container.items:
            f = eq_formula(I, ctx, x, item)
            if f is True:
                return True
            if f is False:
                continue
            fs.append(f)
        if not fs:
            return False
        return wrap(smt.Or(*fs))
    if isinstance(container, MapVal):
        return wrap(container.lookup(item)[0])
    if isinstance(container, DictVal):
        from .interp import hkey
        try:
            return hkey(item) in container.items
        except Unsupported:
            return wrap(map_from_dict(I, ctx, container).lookup(item)[0])
    if isinstance(container, SetVal):
        from .interp import hkey
        has_sym = any(isinstance(k, tuple) and k[:1] == ("symbolic-element",) for k in container.items)
        try:
            k = hkey(item)
            if k in container.items:
                return True
            if not has_sym:
                return False
        except Unsupported:
            pass
        # symbolic elements (kept apart in the model) or a symbolic item: membership is an equality with some element
        return contains(I, ctx, ListVal(list(container.items.values())), item)
    if isinstance(container, (FmtStr, IsoStr)):
        from . import fmtterms
        return fmtterms.str_method(I, ctx, container, "__contains__").fn(ctx, item)
    if isinstance(container, str):
        it = enum_str(item)
        if isinstance(it, str):
            return it in container
    if isinstance(container, EnumMember):
        m, _ = container.cls.lookup("__contains__")
        if isinstance(m, FuncVal):
            return I.call(ctx, m, [container, item], {})
        if isinstance(container.value, str):
            return contains(I, ctx, container.value, item)
    if isinstance(container, ClassVal) and container.enum_members is not None:
        if isinstance(item, EnumMember):
            return item.cls is container
        it = enum_str(item)
        return any(m.value == it for m in container.enum_members.values())
    if isinstance(container, Obj):
        m, _ = container.cls.lookup("__contains__")
        if m is not None:
            return I.call(ctx, m, [container, item], {})
        m, _ = container.cls.lookup("__iter__")
        if m is not None:
            return contains(I, ctx, ListVal(I.iterate(ctx, container)), item)
    if isinstance(container, (SymList, SeqVal)) or (isinstance(container, Opaque) and container.attrs.get("contains")):
        if isinstance(container, Opaque):
            return container.attrs["contains"](ctx, item)
        seq = I.as_seq(ctx, container)
        if isinstance(seq.length, int):
            return contains(I, ctx, ListVal([seq.elem(i) for i in range(seq.length)]), item)
        j = z3.Int(ctx.fresh_name("j_in"))
        body = _zb(eq_formula(I, ctx, seq.elem(j), item))
        return wrap(z3.Exists([j], z3.And(j >= 0, j < seq.length, body)))
    raise Unsupported(f"'in' on {container!r} at {ctx.where}")


# ----------------------------------------------------------------------
# iteration, items
# ----------------------------------------------------------------------
def iterate(I, ctx, v):
    """Concrete list of the elements of an iterable (concrete length required)."""
    from . import nparr
    if isinstance(v, nparr.NArr):
        v = SeqVal(v.n, v.elem, "ndarray")
    if isinstance(v, (TupleVal, ListVal)):
        return list(v.items)
    if isinstance(v, DictVal):
        return list(v.keyvals.values()) + [k for k, x in reversed(v.sym)]
    if isinstance(v, SetVal):
        return list(v.items.values())
    if isinstance(v, str):
        return list(v)
    if isinstance(v, (SeqVal, SymList)):
        seq = v if isinstance(v, SeqVal) else v.seq
        n = seq.length
        if not isinstance(n, int):
            s = smt.simp(n)
            if z3.is_int_value(s):
                n = s.as_long()
            else:
                raise PyvcError(f"iteration over symbolic-length sequence needs a loop invariant at {ctx.where}")
        return [seq.elem(i) for i in range(n)]
    if isinstance(v, ClassVal) and v.enum_members is not None:
        return list(v.enum_members.values())
    if isinstance(v, Obj):
        m, _ = v.cls.lookup("__iter__")
        if m is not None:
            return iterate(I, ctx, I.call(ctx, m, [v], {}))
    if isinstance(v, Opaque) and v.attrs.get("iter"):
        return v.attrs["iter"](ctx)
    from .pybuiltins import IterVal
    if isinstance(v, IterVal):
        # an iterator over a concrete collection: what is left of it (and the iterator is exhausted)
        rest = list(v.items[v.pos:])
        v.pos = len(v.items)
        return rest
    raise Unsupported(f"iteration over {v!r} at {ctx.where}")


def norm_index(I, ctx, i, n):
    """normalise a (possibly negative) index against length n; returns value"""
    if isinstance(i, bool):
        i = int(i)
    if isinstance(i, int) and isinstance(n, int):
        if i < 0:
            i += n
        if not 0 <= i < n:
            raise I.raise_exc("IndexError")
        return i
    zi, zn = zint(i), (z3.IntVal(n) if isinstance(n, int) else n)
    if isinstance(i, int):
        if i < 0:
            zi = zn + i
    else:
        if ctx.branch(zi < 0):
            zi = zn + zi
    if ctx.branch(z3.Or(zi < 0, zi >= zn)):
        raise I.raise_exc("IndexError")
    return smt.simp(zi)


def getitem(I, ctx, o, k):
    from .interp import hkey
    from . import nparr
    if isinstance(o, nparr.RecArr):
        ks = enum_str(k)
        if isinstance(ks, str):
            if ks not in o.fields:
                raise I.raise_exc("ValueError")
            return o.fields[ks]
        if isinstance(k, (Opaque, Choice)):
            return Opaque(None, "field-of-a-symbolic-name", {"scalar": True})
        raise Unsupported(f"structured array indexed by {k!r}")
    if isinstance(o, nparr.NArr2):
        return nparr.narr2_getitem(I, ctx, o, k)
    if isinstance(o, nparr.NArr):
        return nparr.narr_getitem(I, ctx, o, k)
    if isinstance(k, tuple) and k and k[0] == "slice":
        return getslice(I, ctx, o, k)
    if isinstance(o, (TupleVal, ListVal)):
        items = o.items
        if isinstance(k, (int, bool)):
            i = norm_index(I, ctx, k, len(items))
            return items[i]
        if isinstance(k, Sym):
            i = norm_index(I, ctx, k, len(items))
            if isinstance(i, int) or z3.is_int_value(i):
                return items[i if isinstance(i, int) else i.as_long()]
            # fork on the index value (concrete length)
            idx = ctx.choose([i == j for j in range(len(items))])
            return items[idx]
        raise I.raise_exc("TypeError")
    if isinstance(o, MapVal):
        pres, v = o.lookup(k)
        if not ctx.branch(pres):
            raise ExcVal(I.exc_classes["KeyError"], (k,))
        return v
    if isinstance(o, DictVal):
        try:
            hk = hkey(k)
        except Unsupported:
            hk = None
        if hk is None or o.sym:
            pres, v = map_from_dict(I, ctx, o).lookup(k)
            if not ctx.branch(pres):
                raise ExcVal(I.exc_classes["KeyError"], (k,))
            return v
        if hk not in o.items:
            m = None
            raise ExcVal(I.exc_classes["KeyError"], (k,))
        return o.items[hk]
    if isinstance(o, (SymList, SeqVal)):
        seq = o if isinstance(o, SeqVal) else o.seq
        i = norm_index(I, ctx, k, seq.length)
        return seq.elem(i)
    if isinstance(o, str):
        ks = k
        if isinstance(ks, int):
            try:
                return o[ks]
            except IndexError:
                raise I.raise_exc("IndexError")
    if isinstance(o, ClassVal):
        if o.enum_members is not None:
            if isinstance(k, str) and k in o.enum_members:
                return o.enum_members[k]
            raise ExcVal(I.exc_classes["KeyError"], (k,))
        m, _ = o.lookup("__class_getitem__")
        return o
    if isinstance(o, Obj):
        m, _ = o.cls.lookup("__getitem__")
        if m is not None:
            return I.call(ctx, m, [o, k], {})
    if isinstance(o, Opaque) and o.attrs.get("getitem"):
        return o.attrs["getitem"](ctx, k)
    from . import pybuiltins as PB
    if isinstance(o, PB.ObjDictView):
        if k not in o.obj.fields:
            raise ExcVal(I.exc_classes["KeyError"], (k,))
        return o.obj.fields[k]
    if isinstance(o, Builtin):
        return o  # typing constructs: Sequence[int] ...
    raise Unsupported(f"subscript of {o!r} at {ctx.where}")


def getslice(I, ctx, o, k):
    _, lo, hi, step = k
    if step is not None and step != 1:
        if isinstance(o, (TupleVal, ListVal)) and all(isinstance(x, (int, type(None))) for x in (lo, hi, step)):
            r = o.items[slice(lo, hi, step)]
            return TupleVal(r, None) if isinstance(o, TupleVal) else ListVal(r)
        raise Unsupported(f"slice step at {ctx.where}")
    if isinstance(o, (FmtStr, IsoStr)) and all(isinstance(x, (int, type(None))) for x in (lo, hi)):
        from . import fmtterms
        return fmtterms.slice_(I, ctx, o, lo, hi)
    if isinstance(o, (TupleVal, ListVal, str)) and all(isinstance(x, (int, type(None))) for x in (lo, hi)):
        if isinstance(o, str):
            return o[slice(lo, hi)]
        r = o.items[slice(lo, hi)]
        return TupleVal(r, None) if isinstance(o, TupleVal) else ListVal(r)
    if isinstance(o, (ListVal, SymList, SeqVal, TupleVal)):
        seq = I.as_seq(ctx, o)
        n = seq.length
        zn = z3.IntVal(n) if isinstance(n, int) else n

        def clamp(x, default):
            if x is None:
                return default
            zx = zint(x)
            zx = z3.If(zx < 0, z3.If(zn + zx < 0, z3.IntVal(0), zn + zx), z3.If(zx > zn, zn, zx))
            return smt.simp(zx)
        a = clamp(lo, z3.IntVal(0))
        b = clamp(hi, zn)
        ln = smt.simp(z3.If(b >= a, b - a, z3.IntVal(0)))
        res = SeqVal(ln, lambda i, a=a, seq=seq: seq.elem(smt.simp(a + _z(i))), tag="slice")
        return res if isinstance(o, SeqVal) else SymList(res)
    if isinstance(o, Opaque) and o.attrs.get("getitem"):
        return o.attrs["getitem"](ctx, k)
    raise Unsupported(f"slice of {o!r} at {ctx.where}")


def setitem(I, ctx, o, k, v):
    from .interp import hkey
    from . import nparr
    if isinstance(o, nparr.NArr):
        return nparr.narr_setitem(I, ctx, o, k, v)
    if isinstance(o, ListVal):
        if isinstance(k, tuple) and k and k[0] == "slice":
            _, lo, hi, _s = k
            o.items[slice(lo, hi)] = I.iterate(ctx, v)
            return
        i = norm_index(I, ctx, k, len(o.items))
        if not isinstance(i, int):
            raise Unsupported(f"symbolic index store into concrete list at {ctx.where}")
        o.items[i] = v
        return
    if isinstance(o, MapVal):
        map_store(I, ctx, o, k, v)
        return
    if isinstance(o, DictVal):
        try:
            hk = hkey(k)
        except Unsupported:
            # symbolic key: kept apart, looked up by equality (a later store to an equal key shadows it: newest first)
            for ent in o.sym:
                if ent[0] is k:
                    ent[1] = v
                    return
            o.sym.insert(0, [k, v])
            return
        o.items[hk] = v
        o.keyvals.setdefault(hk, k)
        return
    if isinstance(o, SymList):
        seq = o.seq
        i = norm_index(I, ctx, k, seq.length)
        zi = _z(i)
        o.seq = SeqVal(seq.length, lambda j, seq=seq, zi=zi, v=v: ite_val(_z(j) == zi, lambda: v, lambda: seq.elem(j)), tag="store")
        return
    if isinstance(o, Obj):
        m, _ = o.cls.lookup("__setitem__")
        if m is not None:
            I.call(ctx, m, [o, k, v], {})
            return
    if isinstance(o, Opaque) and o.attrs.get("setitem"):
        return o.attrs["setitem"](ctx, k, v)
    from . import pybuiltins as PB
    if isinstance(o, PB.ObjDictView):
        o.obj.fields[enum_str(k)] = v
        return
    raise Unsupported(f"item assignment on {o!r} at {ctx.where}")


def map_of_pairs(I, ctx, pairs, tag="pairs"):
    """a dict with finitely many symbolic keys, given as explicit (key, value) pairs"""
    pairs = list(pairs)

    def lookup(q):
        pres, val = z3.BoolVal(False), None
        for k, v in pairs:
            hit = _zb(eq_formula(I, ctx, q, k))
            val = v if val is None else ite_val(hit, (lambda v=v: v), (lambda val=val: val))
            pres = z3.Or(hit, pres)
        return smt.simp(pres), val
    return MapVal(lookup, tag, pairs)


def map_store(I, ctx, m, k, v):
    if m.pairs is not None:
        for idx, (k0, v0) in enumerate(m.pairs):
            if k0 is k or eq_formula(I, ctx, k0, k) is True:
                m.pairs[idx] = (k0, v)
                break
        else:
            m.pairs.append((k, v))
    old = m.lookup

    def lookup(q, old=old, k=k, v=v):
        hit = _zb(eq_formula(I, ctx, q, k))
        p0, v0 = old(q)
        return smt.simp(z3.Or(hit, p0)), ite_val(hit, lambda: v, lambda: v0)
    m.lookup = lookup


def map_from_dict(I, ctx, d):
    """closure view of a concrete dict (so symbolic keys can be looked up in it)"""
    def lookup(q, d=d):
        pres, val = z3.BoolVal(False), None
        entries = [(d.keyvals[hk], v) for hk, v in d.items.items()] + [(k, v) for k, v in reversed(d.sym)]
        for k, v in entries:
            hit = _zb(eq_formula(I, ctx, q, k))
            val = v if val is None else ite_val(hit, (lambda v=v: v), (lambda val=val: val))
            pres = z3.Or(hit, pres)
        return smt.simp(pres), val
    return MapVal(lookup, "from-dict")


def map_get(I, ctx, m, k, default=None):
    pres, v = m.lookup(k)
    pres = smt.simp(pres)
    if z3.is_false(pres):
        return default
    if z3.is_true(pres):
        return v
    if default is None:
        return OptVal(smt.simp(z3.Not(pres)), v)
    return ite_val(pres, lambda: v, lambda: default)


def delitem(I, ctx, o, k):
    from .interp import hkey
    if isinstance(o, DictVal):
        hk = hkey(k)
        if hk not in o.items:
            raise ExcVal(I.exc_classes["KeyError"], (k,))
        del o.items[hk]
        del o.keyvals[hk]
        return
    if isinstance(o, ListVal) and isinstance(k, int):
        del o.items[k]
        return
    raise Unsupported(f"del item on {o!r} at {ctx.where}")


# ----------------------------------------------------------------------
# attributes
# ----------------------------------------------------------------------
def bind_descriptor(I, ctx, attr, inst, cls):
    if isinstance(attr, FuncVal):
        return BoundMethod(attr, inst)
    if isinstance(attr, PropertyVal):
        return I.call(ctx, attr.fget, [inst], {})
    if isinstance(attr, ClassMethodVal):
        return BoundMethod(attr.func, cls)
    if isinstance(attr, StaticMethodVal):
        return attr.func
    if isinstance(attr, (DispatchVal, CachedFunc)):
        return BoundMethod(attr, inst)
    if isinstance(attr, Builtin) and attr.attrs.get("method"):
        return BoundMethod(attr, inst)
    return attr


def getattr_(I, ctx, o, name, default=_MISSING):
    from .interp import SuperVal
    from . import pybuiltins as PB
    from . import nparr
    if isinstance(o, nparr.NArr2):
        r = nparr.narr2_getattr(I, ctx, o, name)
        if r is not None:
            return r
        raise Unsupported(f"2-D ndarray.{name} is not modelled at {ctx.where}")
    if isinstance(o, nparr.NArr):
        r = nparr.arr_getattr(I, ctx, o, name)
        if r is not None:
            return r
        raise Unsupported(f"ndarray.{name} is not modelled at {ctx.where}")
    if isinstance(o, nparr.RecArr):
        r = nparr.recarr_getattr(I, ctx, o, name)
        if r is not None:
            return r
        raise ExcVal(I.exc_classes["AttributeError"], (name,))
    if isinstance(o, nparr.DType):
        if name == "name":
            return o.tag
        if name == "type":
            return I.ext["numpy"][nparr.NP_TYPE_OF_TAG.get(o.tag, "generic")]
        raise Unsupported(f"dtype.{name}")
    if isinstance(o, ModuleVal):
        return I.module_getattr(o, name)
    if isinstance(o, Obj):
        if name == "__class__":
            return o.cls
        if name == "__dict__":
            return PB.ObjDictView(o)
        attr, owner = o.cls.lookup(name)
        if isinstance(attr, PropertyVal):
            return I.call(ctx, attr.fget, [o], {})
        if name in o.fields:
            return o.fields[name]
        if attr is not None or owner is not None:
            return bind_descriptor(I, ctx, attr, o, o.cls)
        ga, _ = o.cls.lookup("__getattr__")
        if ga is not None:
            return I.call(ctx, ga, [o, name], {})
        if default is _MISSING and not name.startswith("__") and any(c.external and c.external not in ("object",) and not c.external.startswith("exc:") for c in o.cls.mro()):
            # an object of a modelled external class (sortedcontainers, datetime ...): a method the model does not have is a
            # limit of the model, not an AttributeError of the program
            ext = [c.external for c in o.cls.mro() if c.external and c.external != "object"][0]
            raise Unsupported(f"attribute '{name}' of the modelled external class {ext} is not modelled at {ctx.where}")
        if o.label is not None or _class_sets_attribute(o.cls, name):
            init = _init_default(I, ctx, o.cls, name)
            if init is not _MISSING:
                # the class's __init__ gives this attribute a literal empty / constant value: a world object is taken to be
                # in that state of it (recorded; only new attributes of changed code are ever met this way)
                ctx.assumed_ext.add(f"world object attribute {o.cls.name}.{name} taken in the state __init__ gives it")
                o.fields[name] = init
                return init
        if default is _MISSING and _class_sets_attribute(o.cls, name):
            # an object of the contract's world (not built by the code under verification) lacks an attribute its class
            # assigns: the world is out of date with the class, which is a limit of the checker, not a failure of the code
            raise Unsupported(f"the contract's world object '{o.label}' has no attribute '{name}', which {o.cls.name} sets at {ctx.where}")
        raise ExcVal(I.exc_classes["AttributeError"], (name,))
    if isinstance(o, SuperVal):
        mro = o.self.cls.mro() if isinstance(o.self, (Obj, TupleVal, SymRec, EnumMember)) and o.self.cls else \
            (o.self.mro() if isinstance(o.self, ClassVal) else o.cls.mro())
        idx = mro.index(o.cls) if o.cls in mro else -1
        for c in mro[idx + 1:]:
            if name in c.ns:
                return bind_descriptor(I, ctx, c.ns[name], o.self, c)
        base = o.self.value if isinstance(o.self, EnumMember) else o.self
        b = PB.builtin_method(I, ctx, base, name, via_super=True)
        if b is not None:
            return b
        raise ExcVal(I.exc_classes["AttributeError"], (name,))
    if isinstance(o, ClassVal):
        if name == "__name__":
            return o.name
        if name == "__mro__":
            return TupleVal(o.mro())
        if name == "__dict__":
            from .interp import hkey
            d = DictVal()
            for k, v in o.ns.items():
                d.items[hkey(k)] = v
                d.keyvals[hkey(k)] = k
            return d
        attr, owner = o.lookup(name)
        if owner is not None:
            if isinstance(attr, ClassMethodVal):
                return BoundMethod(attr.func, o)
            if isinstance(attr, StaticMethodVal):
                return attr.func
            return attr
        if o.enum_members is not None and name in o.enum_members:
            return o.enum_members[name]
        if o.metaclass is not None:
            attr, owner = o.metaclass.lookup(name)
            if owner is not None:
                return bind_descriptor(I, ctx, attr, o, o.metaclass)
        b = PB.class_attr(I, ctx, o, name)
        if b is not None:
            return b
        raise ExcVal(I.exc_classes["AttributeError"], (name,))
    if isinstance(o, (TupleVal, SymRec)) and o.cls is not None:
        if name == "__class__":
            return o.cls
        if isinstance(o, SymRec) and name in o.fields:
            return o.fields[name]
        attr, owner = o.cls.lookup(name)
        if owner is not None and not (owner.external and isinstance(attr, Builtin) and attr.fn is None):
            return bind_descriptor(I, ctx, attr, o, o.cls)
    if isinstance(o, EnumMember):
        if name == "name":
            return o.name
        if name == "value":
            return o.value
        if name == "__class__":
            return o.cls
        if name == "index":
            return o.index
        attr, owner = o.cls.lookup(name)
        if owner is not None and not isinstance(attr, EnumMember):
            return bind_descriptor(I, ctx, attr, o, o.cls)
        if isinstance(o.value, str):
            b = PB.builtin_method(I, ctx, o.value, name)
            if b is not None:
                return b
    if isinstance(o, ExcVal):
        if name == "args":
            return TupleVal(o.args_)
        if o.obj is not None:
            return getattr_(I, ctx, o.obj, name)
        attr, owner = o.cls.lookup(name)
        if owner is not None:
            return bind_descriptor(I, ctx, attr, o, o.cls)
    if isinstance(o, FuncVal):
        if name == "__name__":
            return o.name
        if name == "__code__":
            return PB.CodeView(o)
        if name == "__self__":
            raise ExcVal(I.exc_classes["AttributeError"], (name,))
        if hasattr(o, "fattrs") and name in o.fattrs:
            return o.fattrs[name]
    if isinstance(o, BoundMethod):
        if name == "__self__":
            return o.self
        if name == "__func__":
            return o.func
        return getattr_(I, ctx, o.func, name)
    if isinstance(o, DispatchVal):
        if name == "register":
            raise Unsupported("dynamic singledispatch.register")
    if isinstance(o, Opaque):
        if name in o.attrs.get("fields", {}):
            return o.attrs["fields"][name]
        ga = o.attrs.get("getattr")
        if ga is not None:
            r = ga(ctx, name)
            if r is not _MISSING:
                return r
        if str(o.tag).startswith("array:") and o.e is not None and name in ("shape", "dtype", "flags", "size"):
            # an array whose content is opaque: its shape / dtype / flags are unspecified functions of the array
            srt = o.e.sort()
            if name in ("shape", "size"):
                f = z3.Function("LEN_OF_" + srt.name(), srt, z3.IntSort())
                ctx.assume(f(o.e) >= 0)
                return TupleVal([wrap(f(o.e))]) if name == "shape" else wrap(f(o.e))
            if name == "dtype":
                f = z3.Function("DTYPE_OF_" + srt.name(), srt, z3.IntSort())
                return wrap(f(o.e))
            return Opaque(None, "array-flags", {"fields": {"writeable": wrap(z3.Bool(ctx.fresh_name("writeable")))}})
    b = PB.builtin_method(I, ctx, o, name)
    if b is not None:
        return b
    if default is not _MISSING:
        return default
    raise Unsupported(f"attribute {name} of {o!r} at {ctx.where}")


_SETS_CACHE = {}


def _init_default(I, ctx, cls, name):
    """the literal (empty container, None, number, string, bool) that __init__ of the class or of a repo base assigns to self.<name>"""
    for c in cls.mro():
        node = getattr(c, "node", None)
        if node is None:
            continue
        fns = [fn for fn in node.body if isinstance(fn, ast.FunctionDef)]
        fns.sort(key=lambda fn: fn.name != "__init__")         # __init__ first, then the other methods (e.g. property setters)
        for fn in fns:
            if True:
                for n in ast.walk(fn):
                    tgt, val = None, None
                    if isinstance(n, ast.Assign) and len(n.targets) == 1:
                        tgt, val = n.targets[0], n.value
                    elif isinstance(n, ast.AnnAssign) and n.value is not None:
                        tgt, val = n.target, n.value
                    if isinstance(tgt, ast.Attribute) and tgt.attr == name and isinstance(tgt.value, ast.Name) and tgt.value.id == "self":
                        if isinstance(val, ast.Dict) and not val.keys:
                            return DictVal()
                        if isinstance(val, ast.List) and not val.elts:
                            return ListVal([])
                        if isinstance(val, ast.Call) and isinstance(val.func, ast.Name) and val.func.id in ("dict", "list", "set") and not val.args:
                            return {"dict": DictVal, "list": lambda: ListVal([]), "set": SetVal}[val.func.id]()
                        if isinstance(val, ast.Constant) and isinstance(val.value, (type(None), bool, int, float, str)):
                            return val.value
                        return _MISSING
    return _MISSING


def _class_sets_attribute(cls, name):
    """some method of the class (or of a repo base class) assigns self.<name>"""
    key = (id(cls), name)
    if key in _SETS_CACHE:
        return _SETS_CACHE[key]
    found = False
    for c in cls.mro():
        node = getattr(c, "node", None)
        if node is None:
            continue
        for n in ast.walk(node):
            if isinstance(n, ast.Attribute) and n.attr == name and isinstance(n.ctx, ast.Store) and isinstance(n.value, ast.Name) and n.value.id == "self":
                found = True
                break
        if found:
            break
    _SETS_CACHE[key] = found
    return found


def setattr_(I, ctx, o, name, v):
    from . import nparr
    if isinstance(o, nparr.NArr) and o.cls_override is not None:
        o.attrs[name] = v
        return
    if isinstance(o, Obj):
        attr, owner = o.cls.lookup(name)
        if isinstance(attr, PropertyVal):
            if attr.fset is None:
                raise ExcVal(I.exc_classes["AttributeError"], (name,))
            I.call(ctx, attr.fset, [o, v], {})
            return
        sa, _ = o.cls.lookup("__setattr__")
        if isinstance(sa, FuncVal):
            I.call(ctx, sa, [o, name, v], {})
            return
        if name == "__class__":
            o.cls = v
            return
        if name == "__dict__":
            from . import pybuiltins as PB
            if isinstance(v, PB.ObjDictView):
                o.fields = dict(v.obj.fields)
            elif isinstance(v, DictVal):
                o.fields = {v.keyvals[k]: x for k, x in v.items.items()}
            else:
                raise Unsupported("__dict__ assignment")
            return
        o.fields[name] = v
        return
    if isinstance(o, ClassVal):
        o.ns[name] = v
        return
    if isinstance(o, ModuleVal) and o.external is None:
        o.ns[name] = v
        return
    if isinstance(o, FuncVal):
        if not hasattr(o, "fattrs"):
            o.fattrs = {}
        o.fattrs[name] = v
        return
    if isinstance(o, Opaque) and o.attrs.get("setattr"):
        return o.attrs["setattr"](ctx, name, v)
    raise Unsupported(f"attribute assignment on {o!r}.{name} at {ctx.where}")


# ----------------------------------------------------------------------
# classes
# ----------------------------------------------------------------------
def finish_class(I, ctx, cls):
    """Enum post-processing."""
    ext = [c.external for c in cls.mro() if c.external]
    if "enum.Enum" in ext or "strenum.StrEnum" in ext:
        if cls.external:
            return
        members = {}
        idx = 0
        for k, v in list(cls.ns.items()):
            if k.startswith("_") or isinstance(v, (FuncVal, PropertyVal, ClassMethodVal, StaticMethodVal, ClassVal, DispatchVal)):
                continue
            from .externals import AUTO
            if v is AUTO:
                # strenum.StrEnum: auto() is the member name; enum.Enum: 1, 2, ...
                v = k if "strenum.StrEnum" in ext else idx + 1
            members[k] = EnumMember(cls, k, v, idx)
            idx += 1
        if members:
            cls.enum_members = members
            for k, mv in members.items():
                cls.ns[k] = mv
        elif any(b.enum_members for b in cls.bases):
            pass
        if "strenum.StrEnum" in ext:
            cls.ns["__strenum__"] = True


def instantiate(I, ctx, cls, args, kwargs):
    from . import pybuiltins as PB
    # enum lookup by value
    if cls.enum_members is not None:
        if len(args) == 1:
            a = args[0]
            if isinstance(a, EnumMember) and a.cls is cls:
                return a
            for m in cls.enum_members.values():
                if m.value == enum_str(a):
                    return m
        raise I.raise_exc("ValueError")
    q = cls.qualname + ".__new__"
    new, owner = cls.lookup("__new__")
    if isinstance(new, StaticMethodVal):
        new = new.func
    if isinstance(new, FuncVal):
        o = I.call(ctx, new, [cls] + list(args), kwargs)
        if not (isinstance(o, (Obj, TupleVal)) and o.cls is not None and o.cls.is_subclass(cls)):
            return o
    else:
        o = PB.builtin_new(I, ctx, cls, args, kwargs)
    init, owner = cls.lookup("__init__")
    if isinstance(init, (FuncVal, Builtin)) and not (isinstance(init, Builtin) and init.fn is None):
        I.call(ctx, init, [o] + list(args), kwargs)
    if isinstance(o, Obj):
        ctx.ghost.setdefault("created", []).append(o)     # objects the code under verification created (finaliser clauses)
    return o


def dispatch_call(I, ctx, d, args, kwargs):
    from . import pybuiltins as PB
    if isinstance(args[0] if args else None, Obj) and False:
        pass
    v = args[0]
    best = None
    for ann, f in d.registry:
        if PB.annotation_matches(I, ctx, ann, v):
            if best is None or PB.annotation_rank(ann) > PB.annotation_rank(best[0]):
                best = (ann, f)
    f = best[1] if best else d.default
    return I.call(ctx, f, args, kwargs)


def to_str(I, ctx, val, spec=None, conv=-1):
    from . import strings
    return strings.to_str(I, ctx, val, spec, conv)
