"""Check driver: runs every contract case of a property on a process pool, discharges the lemma
libraries, validates the assumed external contracts, replays counterexamples, writes evidence."""
from __future__ import annotations

import argparse
import importlib
import json
import multiprocessing as mp
import os
import re
import subprocess
import sys
import time

VERIF = os.path.dirname(os.path.dirname(os.path.abspath(__file__)))
sys.path.insert(0, VERIF)

_I = None
_REG = None


from pyvc.contract import Contract as _Contract


def get_interp():
    global _I, _REG
    if _I is None:
        from pyvc.interp import Interp
        from contracts import registry
        _I = Interp()
        _REG = registry.load_all(_I)
        _I.contracts = dict(_REG)
    return _I, _REG


def _worker(task):
    name, case_idx, timeout_ms = task
    I, reg = get_interp()
    from pyvc.contract import run_contract_case
    c = reg[name]
    I.contracts = dict(reg)
    return run_contract_case(I, c, c.cases[case_idx], timeout_ms=timeout_ms)


def slug(s):
    return re.sub(r"[^A-Za-z0-9_.-]+", "_", s)[:150]


def load_known():
    p = os.path.join(VERIF, "known_findings.json")
    if not os.path.exists(p):
        return []
    return json.load(open(p)).get("findings", [])


def match_known(known, prop, rec):
    for k in known:
        if k.get("status", "open") != "open" or k["property"] != prop:
            continue
        if "contracts" in k:
            if rec["contract"] not in k["contracts"]:
                continue
        elif k["contract"] != rec["contract"]:
            continue
        if k.get("obligation") and k["obligation"] != rec["name"]:
            continue
        if k.get("obligations") and rec["name"] not in k["obligations"]:
            continue
        if k.get("cases") and rec["case"] not in k["cases"]:
            continue
        if k.get("case") is not None and k["case"] != rec["case"]:
            continue
        if k.get("where") and k["where"] != rec["where"]:
            continue
        return k
    return None


def main(argv=None):
    ap = argparse.ArgumentParser()
    ap.add_argument("prop")
    ap.add_argument("--tier", default=os.environ.get("VERIF_TIER", "quick"))
    ap.add_argument("--replay")
    ap.add_argument("--jobs", type=int, default=int(os.environ.get("PYVC_JOBS", "16")))
    ap.add_argument("--only")
    ap.add_argument("-v", action="store_true")
    args = ap.parse_args(argv)
    prop = args.prop
    tier = "thorough" if args.tier == "thorough" else "quick"
    seed = int(os.environ.get("VERIF_SEED", "0") or 0)
    t0 = time.time()
    from contracts import registry
    if args.replay:
        return do_replay(prop, args.replay)
    spec = registry.PROPS[prop]
    timeout_ms = 30000 if tier == "quick" else 120000
    os.environ["PYVC_Z3_MS"] = str(timeout_ms)
    if tier == "thorough":
        os.environ["PYVC_CROSS"] = "1"
        import pyvc.contract as _pc
        _pc.CROSS_CHECK = True
    I, reg = get_interp()
    contracts = [c for c in reg.values() if prop in c.prop]
    if args.only:
        contracts = [c for c in contracts if args.only in c.name]
    tasks = []
    for c in contracts:
        for i in range(len(c.cases)):
            tasks.append((c.name, i, timeout_ms))
    # external validations run concurrently as subprocesses
    vprocs = registry.start_validations(prop, tier, seed)
    results = []
    done = set()
    verifiable = lambda c: type(c).setup is not _Contract.setup and type(c).post is not _Contract.post
    wave = tasks
    dep_names = set()
    ctxm = mp.get_context("fork")
    while wave:
        with ctxm.Pool(min(args.jobs, len(wave))) as pool:
            for r in pool.imap_unordered(_worker, wave, chunksize=1):
                results.append(r)
                if args.v:
                    bad = [o for o in r["obligations"] if o["verdict"] != "proved"]
                    print(f"  {r['contract'].split('.', 2)[-1]} {r['case']}: paths={r['paths']} obligations={len(r['obligations'])} "
                          f"not-proved={len(bad)} wall={r['wall']} {r['error'] or ''}", flush=True)
        done |= {t[0] for t in wave}
        # modular verification: the property also depends on the contracts its functions were checked against;
        # their own obligations are part of this check (transitively), so a change inside a callee is reported here too
        wave = []
        if not args.only:
            for r in results:
                for nm in r["used_contracts"]:
                    c = reg.get(nm)
                    if c is not None and nm not in done and nm not in dep_names and verifiable(c):
                        dep_names.add(nm)
                        for i in range(len(c.cases)):
                            wave.append((nm, i, timeout_ms))
    contracts = contracts + [reg[n] for n in sorted(dep_names)]
    # lemma libraries and contract-level lemmas (no code involved)
    lemma_recs = registry.prove_lemmas(prop, timeout_ms)
    validations = registry.finish_validations(vprocs)
    return report(prop, tier, seed, t0, contracts, results, lemma_recs, validations, spec, reg)


def report(prop, tier, seed, t0, contracts, results, lemma_recs, validations, spec, reg):
    from pyvc import replay as RP
    known = load_known()
    errors = [r for r in results if r["error"]]
    obligations = [o for r in results for o in r["obligations"]] + lemma_recs
    failed = [o for o in obligations if o["verdict"] == "failed"]
    unknown = [o for o in obligations if o["verdict"] == "unknown"]
    proved = [o for o in obligations if o["verdict"] == "proved"]
    lines = []
    exit_code = 0
    checker_errors = []
    # vacuity guards
    by_contract = {}
    for r in results:
        by_contract.setdefault(r["contract"], []).append(r)
        if r["cover"] != "sat" and not r["error"]:
            checker_errors.append(f"precondition of {r['contract']} case {r['case']} is not satisfiable ({r['cover']})")
        c = reg[r["contract"]]
        if not r["error"] and not r.get("skipped") and len(r["obligations"]) < c.floor:
            checker_errors.append(f"{r['contract']} case {r['case']}: {len(r['obligations'])} obligations < floor {c.floor}")
    for r in errors:
        checker_errors.append(f"{r['contract']} case {r['case']}: {r['error'][:600]}")
    for v in validations:
        if not v["ok"]:
            checker_errors.append(f"validation of assumed contract failed: {v['name']}: {v['detail'][:400]}")
    # failed obligations: replay natively
    violations = []
    known_hits = []
    I, _ = get_interp()
    rdir = os.path.join(os.environ.get("PYVC_REPLAY_DIR", os.path.join(VERIF, "replays")), prop)
    import hashlib
    MAX_REPLAYS = 8
    n_replayed = 0
    refined_proved = []
    for o in failed:
        k = match_known(known, prop, o)
        os.makedirs(rdir, exist_ok=True)
        hh = hashlib.sha256((o["where"] + (o.get("goal") or "")).encode()).hexdigest()[:8]
        path = os.path.join(rdir, slug(f"{o['contract'].split('.', 2)[-1]}__{o['case']}__{o['name']}__{hh}") + ".json")
        rp = {"property": prop, "contract": o["contract"], "case": o["case"], "obligation": o["name"],
              "where": o["where"], "solver": {"verdict": o["verdict"], "backend": o["backend"], "model": o.get("model"),
                                              "goal": o.get("goal")}, "call": o.get("call"),
              "call_error": o.get("call_error")}
        confirmed = False
        c = reg[o["contract"]]
        case = [cs for cs in c.cases if repr(cs) == o["case"]][0]

        def native(call):
            rp["call"] = call
            json.dump(rp, open(path, "w"), indent=1)
            nat = RP.run_native(path)
            rp["native_outcome"] = nat
            if hasattr(c, "judge_native"):
                verdict, detail = c.judge_native(I, case, call, nat)
            else:
                verdict, detail = RP.evaluate_post(I, c, case, call, nat)
            rp["replay_verdict"] = verdict
            rp["replay_detail"] = detail
            return verdict == "violates"
        opaque_candidate = bool(o.get("smt2")) and any(f in o["smt2"] for f in ("OM", "DIM", "ORD3"))
        if n_replayed < MAX_REPLAYS or k is not None or opaque_candidate:
            # (a model found with opaque calendar functions is only a candidate: it is always refined, whatever the replay budget)
            n_replayed += 1
            try:
                if o.get("call"):
                    confirmed = native(o["call"])
                if not confirmed and o.get("smt2") and any(f in o["smt2"] for f in ("OM", "DIM", "ORD3")):
                    # counterexample refinement (DESIGN 2.8): the model was found with opaque spec functions and is
                    # only a candidate; re-solve the VC with every definition revealed
                    v2, m2 = RP.resolve_with_definitions(o["smt2"], timeout_ms=60000 if tier == "quick" else 300000)
                    rp["refined"] = v2
                    if v2 == "proved":
                        o["verdict"] = "proved"
                        o["backend"] = o["backend"] + "+definitions-revealed"
                        refined_proved.append(o)
                        rp["note"] = "candidate model was spurious: VC valid once spec definitions are revealed"
                        json.dump(rp, open(path, "w"), indent=1)
                        continue
                    if v2 == "unknown":
                        # a candidate found with opaque spec functions that neither replays natively nor is settled with the definitions
                        # revealed is undecided, not a violation
                        o["verdict"] = "unknown"
                    if v2 == "failed" and m2 is not None:
                        from pyvc.contract import model_eval, model_summary
                        from pyvc.ctx import Ctx
                        rp["solver"]["model_with_definitions"] = model_summary(m2)
                        try:
                            a = c.setup(I, Ctx(), case)
                            call2 = c.call_descriptor(I, case, a, lambda t: model_eval(m2, t))
                            if call2:
                                confirmed = native(call2)
                        except Exception as e:
                            rp["replay_error"] = f"{type(e).__name__}: {e}"
            except Exception as e:
                rp["replay_error"] = f"{type(e).__name__}: {e}"
            if not confirmed and hasattr(c, "probes") and o["verdict"] == "failed":
                # the failed obligation gave no failing input of its own (e.g. an inductive step): look for one
                # among the contract's canonical scenarios, natively
                try:
                    for pc in c.probes(case):
                        if native(pc):
                            confirmed = True
                            rp["note"] = "failing input found among the contract's probe scenarios"
                            break
                except Exception as e:
                    rp["probe_error"] = f"{type(e).__name__}: {e}"
        else:
            rp["note"] = "not replayed: replay budget of this run used by earlier failed obligations"
        rp["failing_input_found"] = confirmed
        if o.get("bounded") and not confirmed:
            # found on a bounded unrolling and not reproduced on the real code: undecided, not a violation
            rp["note"] = "obligation failed on a bounded unrolling (" + o["bounded"] + ") and no failing input was reproduced: undecided"
            o["verdict"] = "unknown"
            json.dump(rp, open(path, "w"), indent=1)
            continue
        json.dump(rp, open(path, "w"), indent=1)
        if k is not None:
            known_hits.append((k, o))
            continue
        violations.append((o, path, confirmed))
    # an undecided obligation is never reported as a violation on the solver's word; but a failing input found natively
    # among the contract's probe scenarios is a violation whatever the solver says
    for o in [x for x in obligations if x["verdict"] == "unknown"]:
        c = reg.get(o["contract"])
        if c is None or not hasattr(c, "probes") or n_replayed >= MAX_REPLAYS + 4:
            continue
        n_replayed += 1
        case = [cs for cs in c.cases if repr(cs) == o["case"]][0]
        os.makedirs(rdir, exist_ok=True)
        path = os.path.join(rdir, slug(f"{o['contract'].split('.', 2)[-1]}__{o['case']}__{o['name']}__undecided") + ".json")
        rp = {"property": prop, "contract": o["contract"], "case": o["case"], "obligation": o["name"], "where": o["where"],
              "solver": {"verdict": "unknown", "backend": o["backend"]}, "note": "obligation undecided by the solvers; failing input searched among the contract's probe scenarios"}
        try:
            for pc in c.probes(case):
                rp["call"] = pc
                json.dump(rp, open(path, "w"), indent=1)
                nat = RP.run_native(path)
                verdict, detail = c.judge_native(I, case, pc, nat) if hasattr(c, "judge_native") else RP.evaluate_post(I, c, case, pc, nat)
                if verdict == "violates":
                    rp.update({"native_outcome": nat, "replay_verdict": verdict, "replay_detail": detail, "failing_input_found": True})
                    json.dump(rp, open(path, "w"), indent=1)
                    o["verdict"] = "failed"
                    o["backend"] += "+native-probe"
                    violations.append((o, path, True))
                    break
        except Exception as e:
            rp["probe_error"] = f"{type(e).__name__}: {e}"
    # a contract case whose obligations could not be generated (unsupported construct, crash of the executor) decides nothing by
    # itself - but its probe scenarios still run on the real code, and one that fails there is a failing input whatever happened
    # to the verifier (bounded, native; labelled so in the replay file). The checker error stays listed.
    probed_contracts = set()
    for r in errors:
        c = reg.get(r["contract"])
        if c is None or not hasattr(c, "probes") or r["contract"] in probed_contracts or n_replayed >= MAX_REPLAYS + 8:
            continue
        probed_contracts.add(r["contract"])
        n_replayed += 1
        case = [cs for cs in c.cases if repr(cs) == r["case"]]
        if not case:
            continue
        case = case[0]
        os.makedirs(rdir, exist_ok=True)
        path = os.path.join(rdir, slug(f"{r['contract'].split('.', 2)[-1]}__{r['case']}__obligations-not-generated") + ".json")
        rp = {"property": prop, "contract": r["contract"], "case": r["case"], "obligation": "(none generated)", "where": "",
              "solver": None, "checker_error": r["error"][:600],
              "note": "the obligations of this case could not be generated (checker error above); failing input searched among the contract's probe scenarios on the real code"}
        try:
            for pc in c.probes(case):
                rp["call"] = pc
                json.dump(rp, open(path, "w"), indent=1)
                nat = RP.run_native(path)
                verdict, detail = c.judge_native(I, case, pc, nat) if hasattr(c, "judge_native") else RP.evaluate_post(I, c, case, pc, nat)
                if verdict == "violates":
                    rp.update({"native_outcome": nat, "replay_verdict": verdict, "replay_detail": detail, "failing_input_found": True})
                    json.dump(rp, open(path, "w"), indent=1)
                    o = {"contract": r["contract"], "case": r["case"], "name": "probe-scenario-on-the-real-code (obligations not generated)", "where": "",
                         "verdict": "failed", "backend": "native-probe"}
                    violations.append((o, path, True))
                    break
            else:
                # the contract's own scenarios hold: the scenarios attached to the property as a whole (round trips through several
                # functions) get their turn
                pps = spec.get("property_probes")
                hit = False
                if pps:
                    import importlib
                    mod, attr = pps.split(":")
                    for pc, pjudge in getattr(importlib.import_module(mod), attr)():
                        rp["call"] = pc
                        json.dump(rp, open(path, "w"), indent=1)
                        nat = RP.run_native(path)
                        verdict, detail = pjudge(nat)
                        if verdict == "violates":
                            rp.update({"native_outcome": nat, "replay_verdict": verdict, "replay_detail": detail, "failing_input_found": True})
                            json.dump(rp, open(path, "w"), indent=1)
                            o = {"contract": r["contract"], "case": r["case"], "name": "property-level-probe-scenario-on-the-real-code (obligations not generated)",
                                 "where": "", "verdict": "failed", "backend": "native-probe"}
                            violations.append((o, path, True))
                            hit = True
                            break
                if not hit and os.path.exists(path):
                    os.remove(path)
        except Exception as e:
            rp["probe_error"] = f"{type(e).__name__}: {e}"
    failed = [o for o in failed if o["verdict"] == "failed"]
    unknown = [o for o in obligations if o["verdict"] == "unknown"]
    proved = [o for o in obligations if o["verdict"] == "proved"]
    violations = [v for v in violations if v[0]["verdict"] == "failed"]
    # bounded stand-ins (functions not brought under contract): the real code on a stated finite set of inputs,
    # judged by the statement's law; labelled bounded in the evidence, never counted among the obligations
    standin_results = []
    sds = spec.get("native_standins", [])
    if isinstance(sds, str):
        import importlib
        mod, attr = sds.split(":")
        sds = getattr(importlib.import_module(mod), attr)
    for sd in sds:
        calls = sd["calls"](tier)
        bad = None
        os.makedirs(rdir, exist_ok=True)
        path = os.path.join(rdir, slug("bounded__" + sd["name"]) + ".json")
        n_run = 0
        for call in calls:
            rp = {"property": prop, "contract": "bounded stand-in: " + sd["name"], "case": "bounded", "obligation": sd["name"], "where": sd.get("where", ""),
                  "solver": None, "call": call, "note": "bounded stand-in: real code on a finite set of inputs, not a proof"}
            json.dump(rp, open(path, "w"), indent=1)
            nat = RP.run_native(path)
            n_run += 1
            verdict, detail = sd["judge"](nat)
            if verdict == "undecided":
                checker_errors.append(f"bounded stand-in {sd['name']}: {detail[:300]}")
                break
            if verdict == "violates":
                rp.update({"native_outcome": nat, "replay_verdict": verdict, "replay_detail": detail, "failing_input_found": True})
                json.dump(rp, open(path, "w"), indent=1)
                bad = (call, detail)
                break
        if bad is None and os.path.exists(path):
            os.remove(path)
        standin_results.append({"name": sd["name"], "bound": sd["bound"], "inputs_run": n_run, "held": bad is None, "label": "bounded - not counted as proved"})
        if bad is not None:
            o = {"contract": "bounded stand-in", "case": "bounded", "name": sd["name"], "where": sd.get("where", ""), "verdict": "failed", "backend": "native"}
            violations.append((o, path, True))
    # thorough tier: the probe scenarios of a contract whose obligations are all discharged must pass on the tree; one that
    # does not is an ill-formed probe (or shows a contract too weak) - reported as a checker error, never as a violation
    probe_validation = None
    if tier == "thorough":
        probe_validation = {"probes_run": 0, "failing": []}
        bad_contracts = {o["contract"] for o in obligations if o.get("contract") and o["verdict"] != "proved"} | {o["contract"] for _, o in known_hits}
        todo = []
        for c in contracts:
            if not hasattr(c, "probes") or c.name in bad_contracts or prop not in c.prop:
                continue
            for case in c.cases:
                try:
                    for pc in c.probes(case) or []:
                        todo.append((c, case, pc))
                except Exception as e:
                    checker_errors.append(f"probe list of {c.name} case {case!r}: {type(e).__name__}: {e}")

        def run_probe(t, _n=[0]):
            c, case, pc = t
            _n[0] += 1
            ppath = os.path.join(os.environ.get("PYVC_TMP", "/var/tmp"), f"pyvc.probe.{os.getpid()}.{_n[0]}.{id(t)}.json")
            json.dump({"call": pc}, open(ppath, "w"))
            try:
                nat = RP.run_native(ppath)
                return c.judge_native(I, case, pc, nat) if hasattr(c, "judge_native") else RP.evaluate_post(I, c, case, pc, nat)
            except Exception as e:
                return "error", f"{type(e).__name__}: {e}"
            finally:
                os.unlink(ppath)
        from concurrent.futures import ThreadPoolExecutor
        with ThreadPoolExecutor(8) as ex:
            for (c, case, pc), (verdict, detail) in zip(todo, ex.map(run_probe, todo)):
                probe_validation["probes_run"] += 1
                if verdict == "violates":
                    what = {k: v for k, v in pc.items() if k != "script"}
                    probe_validation["failing"].append({"contract": c.name, "case": repr(case), "probe": what, "detail": str(detail)[:300]})
                    checker_errors.append(f"probe of {c.name} case {case!r} fails on the tree although every obligation of the contract is discharged "
                                          f"(ill-formed probe, or contract too weak): {json.dumps(what)[:200]}: {str(detail)[:200]}")
    seen_known = set()
    for k, o in known_hits:
        if k["id"] not in seen_known:
            seen_known.add(k["id"])
            lines.append(f"KNOWN-FINDING: property={prop} {k['what']}")
    violations.sort(key=lambda v: not v[2])
    printed = set()
    for o, path, confirmed in violations:
        if path in printed or len(printed) >= 12:
            continue
        printed.add(path)
        lines.append(f"VIOLATION property={prop} replay={path}" + ("" if confirmed else " no-failing-input-found"))
        lines.append(f"  failed obligation: {o['contract']} case {o['case']} :: {o['name']} at {o['where']}")
    if len(violations) > len(printed):
        lines.append(f"  ... and {len(violations) - len(printed)} more failed obligations (listed in the evidence file)")
    for o in unknown:
        lines.append(f"UNDECIDED property={prop} obligation={o['contract']}::{o['case']}::{o['name']} ({o['backend']})")
    for e in checker_errors:
        lines.append(f"CHECKER-ERROR property={prop} {e}")
    if violations:
        exit_code = 1
    elif checker_errors:
        exit_code = 3
    elif unknown:
        exit_code = 2
    # ---- evidence ------------------------------------------------------
    n_known = len(known_hits)
    counted = [o for o in obligations if not any(o is h[1] for h in known_hits)]
    by_backend = {}
    for o in proved:
        by_backend[o["backend"]] = by_backend.get(o["backend"], 0) + 1
    functions = []
    for cname, rs in sorted(by_contract.items()):
        r0 = rs[0]
        c = reg[cname]
        functions.append({"function": cname, "role": "serves the property" if prop in c.prop else "callee contract the property's functions are checked against (verified here too)", "file": (r0.get("file") or "").replace(os.environ.get("PYVC_REPO", "/repo") + "/", ""),
                          "line": r0.get("lineno"), "source_sha256": r0.get("source_sha256"),
                          "cases": len(rs), "paths": sum(r["paths"] for r in rs),
                          "obligations": sum(len(r["obligations"]) for r in rs),
                          "top_level_postcondition_from_statement": bool(c.top_level), "says": c.descr})
    inlined = sorted({q for r in results for q in r["inlined"]})
    assumed = sorted({q for r in results for q in r["assumed_ext"]})
    samples = []
    for o in obligations:
        if o.get("smt2_sample") and len(samples) < 3:
            samples.append({"obligation": f"{o['contract']}::{o['case']}::{o['name']}", "verdict": o["verdict"],
                            "backend": o["backend"], "smt2": o["smt2_sample"]})
    if not samples:
        samples = [{"obligation": f"{o['contract']}::{o['case']}::{o['name']}", "verdict": o["verdict"]} for o in obligations[:3]]
    solver_time = round(sum(o.get("time", 0) for o in obligations), 3)
    self_test = []
    if tier == "thorough" and not os.environ.get("PYVC_NO_SELFTEST"):
        self_test = run_self_test(prop)
        for st in self_test:
            if st["result"] == "not-detected":
                lines.append(f"WARNING property={prop} self-test: the recorded change {st['seed']} is no longer detected (exit {st['exit']})")
    ev = {
        "property_id": prop, "tier": tier, "seed": seed, "level": "proof",
        "coverage": {
            "obligations": len(counted), "discharged": len([o for o in counted if o["verdict"] == "proved"]),
            "checker_cmd": f"./check {prop} --tier {tier}",
            "trusted_base": registry_trusted_base(spec, inlined, assumed),
            "functions_under_contract": functions,
            "by_backend": by_backend, "solver_time_s": solver_time,
            "slowest_obligations": [{"obligation": f"{o.get('contract', 'lemma')}::{o.get('case', '')}::{o['name']}", "seconds": o.get("time", 0), "backend": o.get("backend")}
                                    for o in sorted(obligations, key=lambda o: -o.get("time", 0))[:5]],
            "cvc5_cross_check": {k: len([o for o in obligations if o.get("cvc5_cross_check") == k]) for k in ("unsat", "sat", "unknown")},
            "paths_explored": sum(r["paths"] for r in results),
            "lemma_obligations": len(lemma_recs),
            "inlined_callees": inlined, "assumed_external_contracts": assumed,
            "assumed_contract_validation": validations,
            "bounded_standins": spec.get("bounded", []) + standin_results,
            "self_test_on_recorded_changes": self_test,
            "probe_validation": probe_validation,
            "not_decided": spec.get("not_decided", []) + [f"{r['contract']} case {r['case']}: not applicable to the code as it is ({r['skipped']}); the contract's other cases run"
                                                        for r in results if r.get("skipped")],
            "known_finding_obligations": [f"{o['contract']}::{o['case']}::{o['name']}" for _, o in known_hits],
            "failed": [f"{o['contract']}::{o['case']}::{o['name']}" for o, _, _ in violations],
            "undecided": [f"{o['contract']}::{o['case']}::{o['name']}" for o in unknown],
            "checker_errors": checker_errors,
            "samples": samples,
            "outcome_kinds": {r["contract"].split(".", 2)[-1] + " " + r["case"]: r["outcomes"] for r in results[:40]},
        },
        "assumptions": spec.get("assumptions", []) + GLOBAL_ASSUMPTIONS,
        "wall_s": round(time.time() - t0, 2),
        "violations": len(violations),
    }
    evdir = os.environ.get("PYVC_EVIDENCE_DIR", os.path.join(VERIF, "evidence"))
    os.makedirs(evdir, exist_ok=True)
    json.dump(ev, open(os.path.join(evdir, f"{prop}.json"), "w"), indent=1)
    for l in lines:
        print(l)
    print(f"{prop} {tier}: functions={len(functions)} cases={len(results)} obligations={len(counted)} "
          f"discharged={ev['coverage']['discharged']} known-finding={n_known} failed={len(violations)} "
          f"undecided={len(unknown)} checker-errors={len(checker_errors)} wall={ev['wall_s']}s exit={exit_code}")
    return exit_code


def run_self_test(prop):
    """thorough tier: every change recorded under /verif/seeded for this property as detected is applied to a scratch copy of
    the tree under verification and the quick check must report a violation there. Informational: it never changes the verdict
    on the tree itself (a recorded change may not apply to a tree that has changed)."""
    import glob
    import shutil
    import subprocess
    out = []
    repo = os.environ.get("PYVC_REPO", "/repo")
    for meta_path in sorted(glob.glob(os.path.join(VERIF, "seeded", prop + "-*", "meta.json"))):
        try:
            meta = json.load(open(meta_path))
        except Exception:
            continue
        if not meta.get("check_result", {}).get("detected"):
            continue
        d = os.path.dirname(meta_path)
        scratch = f"/var/tmp/pyvc.self.{os.getpid()}.{os.path.basename(d)}"
        rec = {"seed": os.path.basename(d)}
        try:
            shutil.rmtree(scratch, ignore_errors=True)
            os.makedirs(scratch)
            subprocess.run(["rsync", "-a", "--exclude", ".git", "--exclude", "__pycache__", os.path.join(repo, "openfisca_core"), scratch + "/"], check=True)
            p = subprocess.run(["patch", "-p1", "-s", "-d", scratch, "-i", os.path.join(d, "patch.diff")], capture_output=True, text=True)
            if p.returncode != 0:
                rec.update({"result": "does-not-apply", "detail": (p.stdout + p.stderr)[-200:]})
            else:
                env = dict(os.environ, PYVC_REPO=scratch, PYVC_EVIDENCE_DIR=scratch + "/ev", PYVC_REPLAY_DIR=scratch + "/rp", PYVC_NO_SELFTEST="1",
                           VERIF_TIER="quick")
                r = subprocess.run([sys.executable, "-m", "pyvc.driver", prop, "--tier", "quick"], cwd=VERIF, env=env, capture_output=True, text=True,
                                   timeout=1800)
                rec.update({"exit": r.returncode, "result": "detected" if r.returncode == 1 else "not-detected",
                            "violation_lines": len([l for l in r.stdout.splitlines() if l.startswith("VIOLATION")])})
        except Exception as e:
            rec.update({"result": "error", "detail": f"{type(e).__name__}: {e}"[:200]})
        finally:
            shutil.rmtree(scratch, ignore_errors=True)
        out.append(rec)
    return out


GLOBAL_ASSUMPTIONS = [
    "pyvc (the AST-to-VC generator in /verif/pyvc) is trusted: python semantics as listed in DESIGN.md 2.2",
    "int is mathematical; float is real (no rounding, overflow, NaN); numpy eps taken as 0",
    "static method resolution over the parsed class table; no monkey patching; single thread",
    "termination is not proved (partial correctness)",
    "z3 5.1.0 (python wheel) and /usr/bin/cvc5 1.0.3 are trusted as checkers",
    "dropped before execution: docstrings, annotations, log.* calls, warnings.warn, exception message expressions",
]


def registry_trusted_base(spec, inlined, assumed):
    tb = ["pyvc AST-to-VC generator (/verif/pyvc)", "z3 5.1.0", "cvc5 1.0.3 (fallback)"]
    tb += [f"spec theory: {t}" for t in spec.get("theories", [])]
    tb += [f"inlined (verified by inlining, not modularly): {q}" for q in inlined]
    tb += [f"assumed external contract: {q}" for q in assumed]
    return tb


def do_replay(prop, path):
    from pyvc import replay as RP
    I, reg = get_interp()
    rp = json.load(open(path))
    c = reg[rp["contract"]]
    case = [cs for cs in c.cases if repr(cs) == rp["case"]][0]
    if not rp.get("call"):
        print(f"replay {path}: obligation {rp['obligation']} has no native call descriptor; solver output:")
        print(json.dumps(rp.get("solver"), indent=1)[:3000])
        print(f"VIOLATION property={prop} replay={path} no-failing-input-found")
        return 1
    nat = RP.run_native(path)
    if hasattr(c, "judge_native"):
        verdict, detail = c.judge_native(I, case, rp["call"], nat)
    else:
        verdict, detail = RP.evaluate_post(I, c, case, rp["call"], nat)
    print("call:", json.dumps(rp["call"]))
    print("native outcome:", json.dumps(nat)[:1500])
    print("verdict:", verdict, "-", detail)
    if verdict == "violates":
        print(f"VIOLATION property={prop} replay={path}")
        return 1
    if verdict == "satisfies":
        print("the real code satisfies the contract on this input (on the current tree)")
        return 0
    return 2


if __name__ == "__main__":
    sys.exit(main())
